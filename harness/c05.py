"""C05 — part-affinity-field targets point along each edge and vanish where they must.

Model: lean/SleapVerif/Model/Pafs.lean (+Scalar, Grid, Confmaps.nodeOf); theorems: Props/C05.lean.
Correspondence (real code, in process, vs the Lean driver running the same generic definitions at
`Rat` and `Float`): `distance_to_edge` (exact rational vs float32, relative tolerance), `make_pafs`
(NaN pattern exact, values), `make_multi_pafs`, `generate_pafs` (flattened or not) and
`PartAffinityFieldsGenerator` (shape, identically-zero channels exact, values |Δ| ≤ TOL).
The property oracle (float64, true point-segment geometry, independent of the model) runs on every
`generate_pafs`-type case through per-animal runs of the real code; failures inside the two regions
the `_partial` theorems exclude are routed through the signatures of F-C05a / F-C05b.
"""
import copy
import math

import numpy as np

from common import Check, call, import_repo, rat, run_check, run_driver, unrat

THEOREMS = ["SleapVerif.C05." + t for t in [
    "paf_weight_range", "paf_weight_eq_one_iff", "paf_weight_antitone_in_distance",
    "paf_foot_on_segment", "paf_D_is_sqdist_to_segment",
    "paf_weight_one_on_segment_partial", "paf_short_edge_counterexample",
    "paf_direction", "paf_zero_missing", "paf_zero_len",
    "insideOpen_false_of_outside", "kept_false_of_outside", "paf_zero_filtered",
    "paf_kept_partial", "paf_border_strip_counterexample",
    "paf_additive", "paf_single", "paf_empty", "paf_layout", "paf_shape",
    "paf_weight_antitone_capstone", "paf_output_on_segment", "paf_output_additive",
    "paf_passes_independent", "paf_stream_independent",
]]

EPS32 = 2.0 ** -23
TOL = 2e-5          # floor of the value tolerance (float32 implementation vs float64 model); see case_tol
K_COORD = 2.5       # value tolerance grows with the coordinate magnitude: K_COORD·eps32·M/sqrt(sigma)
TOL_DIST = 2e-5     # distance_to_edge: |Δ| ≤ TOL_DIST·max(1, D) + 8·eps32·M·max(1, sqrt(D))
TOL_ON = 1e-4       # oracle: weight on the segment must be ≥ 1 − max(TOL_ON, case_tol)


def coord_mag(case):
    vals = [abs(v) for a in case.get("animals", []) for p in a for v in p if v is not None]
    return max([case["H"], case["W"]] + vals)


def case_tol(case):
    """Value tolerance for one animal's field.  The weight is exp(-D²/2σ²) with D a *squared* distance
    computed in float32 from coordinates of magnitude M: δD ≈ 2·sqrt(D)·eps32·M·k, and the law's slope
    gives |δw| ≲ 1.3·k·eps32·M/sqrt(σ).  Floor 2e-5 (= the former fixed tolerance, reached at M ≈ 47 for
    σ = .5); observed noise/tolerance is recorded in the evidence (max_diff_over_tol)."""
    return max(TOL, K_COORD * EPS32 * coord_mag(case) / math.sqrt(case["sigma"]))
SIG_SHORT = "edge_shorter_than_one_pixel"
SIG_BOX = "in_image_animal_outside_open_filter_box"


# ------------------------------------------------------------------ generator
def lat(rng, lo, hi):
    return rng.randrange(int(lo * 16), int(hi * 16) + 1) / 16.0


def gen_animal(rng, H, W, stride, n_nodes, mode):
    xl = (math.ceil(W / stride) - 1) * stride
    yl = (math.ceil(H / stride) - 1) * stride
    pts = []
    if mode == "inside":
        pts = [[lat(rng, 0, max(W - 1, 0)), lat(rng, 0, max(H - 1, 0))] for _ in range(n_nodes)]
    elif mode == "integer":
        pts = [[float(rng.randrange(0, W)), float(rng.randrange(0, H))] for _ in range(n_nodes)]
    elif mode == "outside":      # wholly outside the image
        side = rng.choice(["l", "r", "t", "b"])
        for _ in range(n_nodes):
            x, y = lat(rng, -8, W + 8), lat(rng, -8, H + 8)
            if side == "l": x = lat(rng, -8, -1 / 16)
            if side == "r": x = lat(rng, W, W + 8)
            if side == "t": y = lat(rng, -8, -1 / 16)
            if side == "b": y = lat(rng, H, H + 8)
            pts.append([x, y])
    elif mode == "partly":
        pts = [[lat(rng, -6, W + 6), lat(rng, -6, H + 6)] for _ in range(n_nodes)]
    elif mode == "strip":        # F-C05b region: inside the image, outside the open filter box
        which = rng.choice(["right", "bottom", "x0", "y0", "last_col"])
        for _ in range(n_nodes):
            x, y = lat(rng, 0, max(W - 1, 0)), lat(rng, 0, max(H - 1, 0))
            if which == "right": x = lat(rng, xl, max(W - 1 / 16, xl))
            if which == "bottom": y = lat(rng, yl, max(H - 1 / 16, yl))
            if which == "x0": x = 0.0
            if which == "y0": y = 0.0
            if which == "last_col": x = float(xl)
            pts.append([x, y])
    elif mode == "short":        # F-C05a region: consecutive nodes closer than one pixel
        x, y = lat(rng, 1, max(W - 2, 1)), lat(rng, 1, max(H - 2, 1))
        if rng.random() < 0.5:
            x, y = float(round(x)) - 1 / 8, float(round(y))   # a grid point in the middle of the first edge
        for k in range(n_nodes):
            pts.append([x, y])
            x, y = x + rng.choice([-1, 1]) * rng.choice([1 / 16, 1 / 8, 1 / 4, 1 / 2, 3 / 4]), \
                y + rng.choice([0, 0, 1 / 16, -1 / 4, 1 / 2])
    elif mode == "coincident":
        p = [lat(rng, 0, max(W - 1, 0)), lat(rng, 0, max(H - 1, 0))]
        pts = [list(p) if rng.random() < 0.6 else [lat(rng, 0, W), lat(rng, 0, H)] for _ in range(n_nodes)]
    # NaN patterns
    r = rng.random()
    if r < 0.12 and pts:
        pts[rng.randrange(len(pts))] = [None, None]
    elif r < 0.17 and pts:
        k = rng.randrange(len(pts)); pts[k] = [None, pts[k][1]] if rng.random() < 0.5 else [pts[k][0], None]
    elif r < 0.20:
        pts = [[None, None] for _ in pts]
    return pts


def gen_edges(rng, n_nodes):
    kind = rng.choice(["chain", "random", "random", "repeat_reverse", "self", "empty"])
    if n_nodes < 2:
        return [[0, 0]] if kind != "empty" else []
    if kind == "chain":
        return [[i, i + 1] for i in range(n_nodes - 1)]
    if kind == "empty":
        return []
    E = rng.randrange(1, 5)
    es = [rng.sample(range(n_nodes), 2) for _ in range(E)]
    if kind == "repeat_reverse":
        es.append(list(es[0])); es.append([es[0][1], es[0][0]])
    if kind == "self":
        k = rng.randrange(n_nodes); es.append([k, k])
    return es


def gen_uncovered_case(rng, kind, k):
    """Skeletons whose edge list leaves one or two nodes in NO edge, and an animal of which only such
    node(s) are visible (all its edge endpoints are NaN, yet it passes the in-image filter), at the
    first / a middle / the last position of the instance list, next to fully visible animals."""
    stride = rng.choice([1, 2, 4])
    H, W = stride * rng.randrange(4, 12), stride * rng.randrange(4, 12)
    n_nodes = rng.choice([3, 4, 5])
    n_unc = rng.choice([1, 1, 2]) if n_nodes > 3 else 1
    uncovered = rng.sample(range(n_nodes), n_unc)
    covered = [i for i in range(n_nodes) if i not in uncovered]
    edges = [[covered[i], covered[i + 1]] for i in range(len(covered) - 1)]
    if rng.random() < 0.4 and len(covered) >= 2:
        edges.append(list(reversed(rng.sample(covered, 2))))
    n_inst = rng.choice([2, 3, 3, 4])
    ghost_at = [0, n_inst // 2, n_inst - 1][k % 3]
    xl, yl = (math.ceil(W / stride) - 1) * stride, (math.ceil(H / stride) - 1) * stride
    animals = []
    for a in range(n_inst):
        pts = gen_animal(rng, H, W, stride, n_nodes, "integer" if rng.random() < 0.5 else "inside")
        pts = [[p[0] if p[0] is not None else 1.0, p[1] if p[1] is not None else 1.0] for p in pts]
        if a == ghost_at or (a != (ghost_at + 1) % n_inst and rng.random() < 0.15):
            for i in covered:
                pts[i] = [None, None]
            for i in uncovered:      # strictly inside the open filter box: the ghost animal is kept
                pts[i] = [lat(rng, 1 / 16, max(xl - 1 / 16, 1 / 16)), lat(rng, 1 / 16, max(yl - 1 / 16, 1 / 16))]
        animals.append(pts)
    return {"kind": kind, "H": H, "W": W, "stride": stride, "sigma": rng.choice([0.5, 1.0, 1.5, 2.5]), "n_nodes": n_nodes,
            "edges": edges, "animals": animals, "uncovered_nodes": uncovered}


def gen_duplicate_case(rng, kind, k):
    """Instance lists containing EXACT (bit-identical) copies of a fully labelled animal: adjacent or
    not, two or three copies.  The model sums over the list, so the field is doubled / tripled."""
    stride = rng.choice([1, 2, 4])
    H, W = stride * rng.randrange(4, 12), stride * rng.randrange(4, 12)
    n_nodes = rng.choice([2, 3, 4])
    edges = [[i, i + 1] for i in range(n_nodes - 1)]
    xl, yl = (math.ceil(W / stride) - 1) * stride, (math.ceil(H / stride) - 1) * stride

    def full():
        return [[lat(rng, 1 / 16, max(xl - 1 / 16, 1 / 16)), lat(rng, 1 / 16, max(yl - 1 / 16, 1 / 16))] for _ in range(n_nodes)]
    base = full()
    others = [full() if rng.random() < 0.7 else gen_animal(rng, H, W, stride, n_nodes, "partly") for _ in range(rng.choice([0, 1, 1, 2]))]
    copies = 3 if k % 4 == 3 else 2
    animals = list(others)
    if k % 2 == 0 or not others:          # adjacent copies
        at = rng.randrange(0, len(animals) + 1)
        animals[at:at] = [copy.deepcopy(base) for _ in range(copies)]
    else:                                 # copies separated by other animals
        animals = [copy.deepcopy(base)] + animals + [copy.deepcopy(base)]
        if copies == 3:
            animals.insert(1 + len(others) // 2, copy.deepcopy(base))
    return {"kind": kind, "H": H, "W": W, "stride": stride, "sigma": rng.choice([0.5, 1.0, 1.5, 2.5]), "n_nodes": n_nodes,
            "edges": edges, "animals": animals, "duplicates": copies}


def gen_band_case(rng, kind):
    """Non-square frames with a whole animal in the band a transposed bound would cut off:
    x in (H - stride, xv[-1]) on wide frames, y in (W - stride, yv[-1]) on tall frames."""
    stride = rng.choice([1, 2, 4])
    a, b = stride * rng.randrange(3, 7), stride * rng.randrange(9, 16)
    wide = rng.random() < 0.5
    H, W = (a, b) if wide else (b, a)
    xl, yl = (math.ceil(W / stride) - 1) * stride, (math.ceil(H / stride) - 1) * stride
    n_nodes = rng.choice([2, 3])
    def node():
        if wide:
            return [lat(rng, H - stride + 1 / 16, xl - 1 / 16), lat(rng, 1 / 16, yl - 1 / 16)]
        return [lat(rng, 1 / 16, xl - 1 / 16), lat(rng, W - stride + 1 / 16, yl - 1 / 16)]
    animals = [[node() for _ in range(n_nodes)] for _ in range(rng.choice([1, 1, 2]))]
    if rng.random() < 0.4:
        animals.append(gen_animal(rng, H, W, stride, n_nodes, "inside"))
    return {"kind": kind, "H": H, "W": W, "stride": stride, "sigma": rng.choice([1.0, 1.5, 2.5]), "n_nodes": n_nodes,
            "edges": [[i, i + 1] for i in range(n_nodes - 1)], "animals": animals, "band": "wide" if wide else "tall"}


def gen_sigma(rng, lo=0.3, hi=20.0):
    if rng.random() < 0.65:
        return rng.choice([0.5, 1.0, 1.5, 2.5, 5.0])
    return float(math.exp(rng.uniform(math.log(lo), math.log(hi))))


def gen_large_case(rng, kind):
    """Real-data regime: frames of 512–4096 px, stride 16–64 (grid ≤ 64 cells a side), long edges,
    animals anywhere incl. the far corner; the float32 claim of the trusted base is measured here."""
    H, W = rng.randrange(512, 4097), rng.randrange(512, 4097)
    stride = next(st for st in (16, 32, 64) if max(H, W) / st <= 64)
    if rng.random() < 0.5:
        H, W = H // stride * stride, W // stride * stride
    n_nodes = rng.choice([2, 3])
    animals = []
    for _ in range(rng.choice([1, 1, 2])):
        where = rng.choice(["anywhere", "far_corner", "partly"])
        if where == "far_corner":
            cx, cy = W - rng.randrange(1, 200), H - rng.randrange(1, 200)
        elif where == "partly":
            cx, cy = rng.choice([-50, W + 50, W // 2]), rng.randrange(0, H)
        else:
            cx, cy = rng.randrange(0, W), rng.randrange(0, H)
        span = rng.choice([3, 40, 300, 1500])
        a = [[cx + lat(rng, -span, span), cy + lat(rng, -span, span)] for _ in range(n_nodes)]
        if rng.random() < 0.3:     # a node exactly on a grid point: on-segment cells exist
            a[0] = [float(min(W - 1, max(0, round(a[0][0] / stride))) * stride), float(min(H - 1, max(0, round(a[0][1] / stride))) * stride)]
        if rng.random() < 0.1:
            a[rng.randrange(n_nodes)] = [None, None]
        animals.append(a)
    return {"kind": kind, "H": H, "W": W, "stride": stride, "sigma": gen_sigma(rng, 0.5, 40.0), "n_nodes": n_nodes,
            "edges": [[0, 1]] if n_nodes == 2 else rng.choice([[[0, 1], [1, 2]], [[2, 0]], [[0, 1]]]),
            "animals": animals, "large": True}


def gen_case(rng, kind=None, pin=None, modes=None):
    pin = pin or {}
    kind = kind or rng.choice(KINDS)
    stride = pin.get("stride") or rng.choice([1, 2, 2, 4, 4, 8])
    sigma = pin.get("sigma") or gen_sigma(rng)
    if "H" in pin:
        H, W = pin["H"], pin["W"]
    elif rng.random() < 0.5:
        H, W = stride * rng.randrange(1, max(2, 36 // stride)), stride * rng.randrange(1, max(2, 36 // stride))
    else:
        H, W = rng.randrange(1, 37), rng.randrange(1, 37)
    n_nodes = rng.choice([1, 2, 2, 3, 4, 5])
    n_inst = rng.choice([0, 1, 1, 2, 2, 3, 4])
    modes = modes or ["inside", "inside", "integer", "outside", "partly", "strip", "short", "coincident"]
    animals = [gen_animal(rng, H, W, stride, n_nodes, rng.choice(modes)) for _ in range(n_inst)]
    case = {"kind": kind, "H": H, "W": W, "stride": stride, "sigma": sigma, "n_nodes": n_nodes,
            "edges": gen_edges(rng, n_nodes), "animals": animals}
    if kind in ("pafs", "pafs_noflat") and rng.random() < 0.15:
        case["extra_sample"] = [gen_animal(rng, H, W, stride, n_nodes, "inside") for _ in range(n_inst)]
    if kind in ("dp", "dp_noflat") and rng.random() < 0.8:
        case["history"] = {"passes": rng.choice([2, 2, 3]), "interleave": rng.random() < 0.35}
    if kind in ("dp", "dp_noflat") and "H" not in pin and rng.random() < 0.85:
        # a stream of 2-4 examples with DIFFERENT image sizes through one generator object
        def ex_of(scale):
            h2 = max(1, int(round(H * scale)) + rng.choice([0, 0, 1, stride]))
            w2 = max(1, int(round(W * scale)) + rng.choice([0, 0, 1, stride]))
            if (h2, w2) == (H, W):
                w2 += stride
            return {"H": h2, "W": w2,
                    "animals": [gen_animal(rng, h2, w2, stride, n_nodes, rng.choice(["inside", "integer", "partly"]))
                                for _ in range(n_inst)]}
        k = rng.choice([1, 1, 2, 3])
        others = [ex_of(rng.choice([0.4, 0.5, 0.75, 1.5, 2.0, 2.5])) for _ in range(k)]
        cut = rng.randrange(0, k + 1)
        case["stream"] = {"before": others[:cut], "after": others[cut:]}
    if kind in OUT_KINDS and case["edges"] and rng.random() < 0.5:
        case["float_edge_inds"] = True       # production call style: torch.Tensor(list) -> float32 indices
    return case


KINDS = ["pafs", "pafs", "pafs_noflat", "dp", "dp_noflat", "mpafs", "mkpafs"]
OUT_KINDS = ("pafs", "pafs_noflat", "dp", "dp_noflat")      # generate_pafs-type: the property's observation points


def gen_dist_case(rng):
    h, w = rng.randrange(1, 6), rng.randrange(1, 6)
    big = rng.random() < 0.3
    hi = 4096 if big else 40
    pts = [[lat(rng, -4, hi), lat(rng, -4, hi)] for _ in range(h * w)]
    es = []
    for _ in range(rng.randrange(1, 5)):
        s = [lat(rng, -4, hi), lat(rng, -4, hi)]
        m = rng.random()
        if m < 0.2:
            d = [rng.choice([-1, 1]) * rng.choice([1 / 16, 1 / 4, 1 / 2, 15 / 16]), rng.choice([0, 1 / 8, -1 / 2])]
        elif m < 0.3:
            d = [0.0, 0.0]
        else:
            d = [lat(rng, -hi // 2, hi // 2), lat(rng, -hi // 2, hi // 2)]
        es.append(s + [s[0] + d[0], s[1] + d[1]])
    return {"kind": "dist", "h": h, "w": w, "pts": pts, "es": es}


# ------------------------------------------------------------------ implementation
def nan_arr(pts, shape):
    flat = []

    def walk(t):
        if isinstance(t, list):
            for u in t:
                walk(u)
        else:
            flat.append(float("nan") if t is None else t)
    walk(pts)
    return np.array(flat, dtype=np.float64).reshape(shape)


def same(t1, t2):
    import torch
    return t1.shape == t2.shape and bool(((t1 == t2) | (torch.isnan(t1) & torch.isnan(t2))).all())


def aliasing(kept, snaps, later=()):
    """Results are fresh values: every retained result (the tensor itself, not a copy) must still equal
    its value when it was handed out, and no two results may share storage."""
    allr = list(kept) + list(later)
    for i, (kt, sn) in enumerate(zip(kept, snaps)):
        if not same(kt, sn):
            return (f"result {i + 1}, kept by the caller, changed after later call(s) with other keypoints and the same output shape "
                    f"{tuple(kt.shape)}: results are not fresh values")
        for j, lt in enumerate(allr):
            if lt is not kt and j > i and lt.numel() and kt.numel() and \
                    kt.untyped_storage().data_ptr() == lt.untyped_storage().data_ptr():
                return f"result {i + 1} and the result of later call {j + 1 - len(kept) if j >= len(kept) else j + 1} share one storage"
    return None


def jittered(case):
    """Same shapes, other keypoints: every animal shifted, list order reversed."""
    c = copy.deepcopy(case)
    c["animals"] = [[[None if v is None else v + 1.25 for v in p] for p in a] for a in reversed(c["animals"])]
    for k in ("extra_sample", "stream", "history"):
        c.pop(k, None)
    return c


def run_impl_raw(case, animals=None):
    """Calls the real code.  Returns ('ok', torch tensor as returned, canonical ndarray copy) |
    ('raise', cls, msg).  For generate_pafs-type cases the canonical array is (2E, h, w) (the
    un-flattened layout is checked first)."""
    import torch
    from sleap_nn.data import edge_maps as em
    from sleap_nn.data.utils import make_grid_vectors

    kind = case["kind"]
    if kind == "dist":
        P = torch.tensor(np.array(case["pts"]).reshape(case["h"], case["w"], 2), dtype=torch.float32)
        es = np.array(case["es"], dtype=np.float64).reshape(-1, 4)
        r = call(em.distance_to_edge, P, torch.tensor(es[:, :2], dtype=torch.float32),
                 torch.tensor(es[:, 2:], dtype=torch.float32))
        return r if r[0] == "raise" else ("ok", r[1], r[1].numpy().reshape(-1, es.shape[0]).copy())
    H, W, s, sg = case["H"], case["W"], case["stride"], case["sigma"]
    animals_given = animals
    animals = case["animals"] if animals is None else animals
    N, E = case["n_nodes"], len(case["edges"])
    inst = torch.tensor(nan_arr(animals, (len(animals), N, 2)), dtype=torch.float32)
    if case.get("float_edge_inds") and E:
        edge_inds = torch.Tensor([list(e) for e in case["edges"]])        # as custom_datasets.py / streaming_datasets.py do
    else:
        edge_inds = torch.tensor(np.array(case["edges"], dtype=np.int64).reshape(E, 2))
    before = inst.clone()
    raw = None
    if kind in ("mkpafs", "mpafs"):
        xv, yv = make_grid_vectors(H, W, s)
        srcs, dsts = em.get_edge_points(inst, edge_inds)
        if kind == "mpafs":
            r = call(em.make_multi_pafs, xv, yv, srcs, dsts, sg)
            if r[0] == "ok":
                raw = r[1]
                r = ("ok", r[1].reshape(2 * E, len(yv), len(xv)))
        else:   # one make_pafs call per animal, stacked: (I, E, 2, h, w)
            outs, kept, snaps = [], [], []
            for a in range(len(animals)):
                r = call(em.make_pafs, xv, yv, srcs[a], dsts[a], sg)
                if r[0] == "raise":
                    return r
                outs.append(r[1].numpy().copy())
                kept.append(r[1]); snaps.append(r[1].clone())       # RETAINED: re-read after the later calls
            bad = aliasing(kept, snaps)
            if bad:
                return ("raise", "ResultAliased", "make_pafs: " + bad)
            arr = np.array(outs).reshape(len(animals), E, 2, len(yv), len(xv))
            return ("ok", torch.tensor(arr), arr)
    else:
        batch = [inst] + ([torch.tensor(nan_arr(case["extra_sample"], (len(animals), N, 2)), dtype=torch.float32)]
                          if case.get("extra_sample") and len(case["extra_sample"]) == len(animals) else [])
        instances = torch.stack(batch)
        flat = kind in ("pafs", "dp")
        kw = {} if case.get("defaults") else {"sigma": sg, "output_stride": s}
        if kind in ("dp", "dp_noflat"):
            # a HISTORY over one generator object: several passes (fresh iter() each, one per epoch), optionally the
            # second started while the first is suspended; every pass must be bit-identical to the first (which is the
            # one compared with the stateless model / the oracle) and the public attributes must stay unchanged
            ex = {"image": torch.zeros((1, 1, H, W)), "instances": instances[:1]}
            # a STREAM: the observed example travels with 1-3 other examples of DIFFERENT image sizes through the
            # same generator object (before and/or after it); each example must get the answer it gets alone
            stream = (case.get("stream") if animals_given is None else None) or {"before": [], "after": []}

            def other(o):
                return {"image": torch.zeros((1, 1, o["H"], o["W"])),
                        "instances": torch.tensor(nan_arr(o["animals"], (1, len(o["animals"]), N, 2)), dtype=torch.float32)}
            exs = [other(o) for o in stream["before"]] + [ex] + [other(o) for o in stream["after"]]
            pos = len(stream["before"])
            r0 = call(lambda: em.PartAffinityFieldsGenerator(exs, **kw, edge_inds=edge_inds, flatten_channels=flat))
            if r0[0] == "raise":
                return r0
            dp = r0[1]
            hist = (case.get("history") if animals_given is None else None) or {"passes": 1, "interleave": False}

            def attrs():
                return {k: (getattr(dp, k).clone() if torch.is_tensor(getattr(dp, k)) else getattr(dp, k))
                        for k in ("sigma", "output_stride", "flatten_channels", "edge_inds") if hasattr(dp, k)}

            def attrs_same(a0, a1):
                return all((torch.equal(a0[k], a1[k]) if torch.is_tensor(a0[k]) and torch.is_tensor(a1[k]) else a0[k] == a1[k])
                           for k in a0)
            a0 = attrs()

            def passes():
                outs = []
                start = 0
                if hist.get("interleave") and hist["passes"] >= 2:
                    it1 = iter(dp)
                    first = next(it1)["part_affinity_fields"].clone()
                    if pos == 0:
                        outs.append(("pass 1 (suspended after its first example)", first))
                    outs.append(("pass 2 (started while pass 1 was suspended)",
                                 [e["part_affinity_fields"].clone() for e in iter(dp)][pos]))
                    start = 2
                for n in range(start, hist["passes"]):
                    outs.append((f"pass {n + 1}", [e["part_affinity_fields"].clone() for e in iter(dp)][pos]))
                    if not attrs_same(a0, attrs()):
                        return ("state", f"after pass {n + 1}", outs)
                return ("ok", None, outs)
            rp = call(passes)
            if rp[0] == "raise":
                return rp
            status, where_, outs = rp[1]
            for label, o in outs[1:]:
                if not same(o, outs[0][1]):
                    dmax = float((o - outs[0][1]).abs().max()) if o.shape == outs[0][1].shape else float("nan")
                    return ("raise", "HistoryDependent",
                            f"{label} over the same PartAffinityFieldsGenerator object differs from {outs[0][0]} "
                            f"(max |Δ| {dmax}): the generator keeps state between passes")
            if status == "state" or not attrs_same(a0, attrs()):
                return ("raise", "StateMutated", f"public attributes of the generator object changed {where_ or ''}: "
                        f"{ {k: (a0[k], attrs()[k]) for k in a0 if not attrs_same({k: a0[k]}, {k: attrs()[k]})} }")
            # the DataPipe must give, for this example, exactly what generate_pafs gives on it alone
            if animals_given is None and not case.get("defaults"):
                rg = call(em.generate_pafs, instances[:1], (H, W), **kw, edge_inds=edge_inds, flatten_channels=flat)
                if rg[0] == "ok" and not same(rg[1], outs[0][1]):
                    where_s = f"example {pos + 1} of {len(exs)} in the stream (sizes " + \
                        ", ".join(f"{e['image'].shape[2]}x{e['image'].shape[3]}" for e in exs) + ")"
                    return ("raise", "StreamDependent",
                            f"PartAffinityFieldsGenerator output for {where_s} has shape {tuple(outs[0][1].shape)} and differs from "
                            f"generate_pafs on that example alone (shape {tuple(rg[1].shape)})")
            r = ("ok", outs[0][1])
        else:
            r = call(em.generate_pafs, instances, (H, W), **kw, edge_inds=edge_inds, flatten_channels=flat)
        if r[0] == "ok":
            raw = r[1]
            if not flat:
                if r[1].ndim != 4 or tuple(r[1].shape[:2]) != (E, 2):
                    return ("raise", "Layout", f"unflattened shape {tuple(r[1].shape)}")
                r = ("ok", r[1].reshape(2 * E, r[1].shape[2], r[1].shape[3]))
    if r[0] == "raise":
        return r
    if not same(before, inst):
        return ("raise", "InputMutated", "input tensor was modified")
    return ("ok", raw, r[1].detach().numpy().copy())


def run_impl(case, animals=None):
    r = run_impl_raw(case, animals)
    return r if r[0] == "raise" else ("ok", r[2])


# ------------------------------------------------------------------ model side
def pt_str(p):
    return f"{rat(p[0])} {rat(p[1])}"


def f32(v):
    return None if v is None else float(np.float32(v))


def model_line(case):
    k = case["kind"]
    if k == "dist":
        return (f"dist {len(case['pts'])} " + " ".join(pt_str([f32(p[0]), f32(p[1])]) for p in case["pts"])
                + f" {len(case['es'])} " + " ".join(" ".join(rat(f32(v)) for v in e) for e in case["es"]))
    head = f"{rat(case['sigma'])} {case['stride']} {case['H']} {case['W']}"
    if k == "mkpafs":
        eps = []
        for a in case["animals"]:
            for (u, v) in case["edges"]:
                eps.append(pt_str([f32(a[u][0]), f32(a[u][1])]) + " " + pt_str([f32(a[v][0]), f32(a[v][1])]))
        return f"mkpafs {head} {len(eps)} " + " ".join(eps)
    op = "mpafs" if k == "mpafs" else "pafs"
    flat = [p for a in case["animals"] for p in a]
    return (f"{op} {head} {len(case['edges'])} " + " ".join(f"{u} {v}" for u, v in case["edges"])
            + f" {len(case['animals'])} {case['n_nodes']} " + " ".join(pt_str([f32(p[0]), f32(p[1])]) for p in flat))


def floats(tokens):
    return np.array([unrat(x) for x in tokens], dtype=np.float64)


def compare(chk, case, out, reply):
    if reply == "error":
        raise RuntimeError("driver could not parse: " + model_line(case)[:200])
    parts = [p.strip() for p in (reply + " ").split("|")]
    k = case["kind"]
    if k == "dist":
        nP, nE = [int(x) for x in parts[0].split()]
        D = np.array([float(unrat(x)) for x in parts[1].split()], dtype=np.float64).reshape(nP, nE)
        if out.shape != D.shape:
            return f"shape impl {out.shape} model {D.shape}"
        M = max([abs(v) for p_ in case["pts"] for v in p_] + [abs(v) for e_ in case["es"] for v in e_])
        err = np.abs(out - D) / (TOL_DIST * np.maximum(1.0, D) + 8 * EPS32 * M * np.maximum(1.0, np.sqrt(D)))
        chk.extra["max_dist_diff_over_tol"] = max(chk.extra.get("max_dist_diff_over_tol", 0.0), float(err.max()) if err.size else 0.0)
        if err.size and err.max() > 1.0:
            i = np.unravel_index(int(np.argmax(err)), err.shape)
            return f"distance_to_edge point {i[0]} edge {i[1]}: impl {out[i]!r} model {D[i]!r}"
        return None
    if k == "mkpafs":
        n, h, w = [int(x) for x in parts[0].split()]
        defs = [int(x) for x in parts[1].split()]
        vals = floats(parts[2].split()).reshape(n, 2, h, w) if n * h * w else np.zeros((n, 2, h, w))
        o = out.reshape(-1, 2, out.shape[-2], out.shape[-1]) if out.size or out.ndim == 5 else out
        if tuple(o.shape) != (n, 2, h, w):
            return f"shape impl {tuple(o.shape)} model {(n, 2, h, w)}"
        for e in range(n):
            isn = np.isnan(o[e])
            if defs[e] == 0:
                if not isn.all():
                    return f"edge block {e}: model NaN (degenerate edge), impl has numbers"
                continue
            if isn.any():
                return f"edge block {e}: impl NaN, model defined"
            d = np.abs(o[e] - vals[e])
            chk.extra["max_abs_diff"] = max(chk.extra.get("max_abs_diff", 0.0), float(d.max()) if d.size else 0.0)
            chk.extra["max_diff_over_tol"] = max(chk.extra.get("max_diff_over_tol", 0.0), float(d.max()) / case_tol(case) if d.size else 0.0)
            if d.size and d.max() > case_tol(case):
                return f"edge block {e}: impl vs model differ by {d.max()}"
        return None
    C, h, w, rect = [int(x) for x in parts[0].split()]
    nz = [int(x) for x in parts[2].split()]
    vals = floats(parts[3].split()).reshape(C, h, w) if C * h * w else np.zeros((C, h, w))
    if rect != 1:
        return "model stack not rectangular"
    if tuple(out.shape) != (C, h, w):
        return f"shape impl {tuple(out.shape)} model {(C, h, w)}"
    if not np.isfinite(out).all():
        return "non-finite value in implementation output"
    tol = case_tol(case) * max(1, len(case["animals"]))
    for c in range(C):
        if nz[c] == 0:
            if np.any(out[c] != 0):
                return f"channel {c}: model identically zero, impl max |v| {np.abs(out[c]).max()}"
            continue
        d = np.abs(out[c] - vals[c])
        chk.extra["max_abs_diff"] = max(chk.extra.get("max_abs_diff", 0.0), float(d.max()) if d.size else 0.0)
        chk.extra["max_diff_over_tol"] = max(chk.extra.get("max_diff_over_tol", 0.0), float(d.max()) / tol if d.size else 0.0)
        if d.size and d.max() > tol:
            i, j = np.unravel_index(int(np.argmax(d)), d.shape)
            return f"channel {c} cell (row {i}, col {j}): impl {out[c][i, j]!r} model {vals[c][i, j]!r}"
    return None


# ------------------------------------------------------------------ property oracle (independent of the model)
def vis(p):
    return p[0] is not None and p[1] is not None


def edge_geometry(case, animal):
    """float64 geometry of every edge of one animal on the stride grid (independent of the model)."""
    H, W, s = case["H"], case["W"], case["stride"]
    h, w = math.ceil(H / s), math.ceil(W / s)
    gy = (np.arange(h) * s).reshape(-1, 1).astype(np.float64) + np.zeros((1, w))
    gx = (np.arange(w) * s).reshape(1, -1).astype(np.float64) + np.zeros((h, 1))
    pts = [[f32(p[0]), f32(p[1])] for p in animal]
    out = []
    for (u, v) in case["edges"]:
        src, dst = pts[u], pts[v]
        valid = vis(src) and vis(dst) and (src[0] != dst[0] or src[1] != dst[1])
        if not valid:
            out.append(None)
            continue
        dx, dy = dst[0] - src[0], dst[1] - src[1]
        L = dx * dx + dy * dy
        rx, ry = gx - src[0], gy - src[1]
        t = np.clip((rx * dx + ry * dy) / L, 0.0, 1.0)
        dist2 = (t * dx - rx) ** 2 + (t * dy - ry) ** 2      # true squared point-segment distance
        out.append({"L": L, "ux": dx / math.sqrt(L), "uy": dy / math.sqrt(L), "dist2": dist2, "gx": gx, "gy": gy})
    return pts, out


def oracle(case, out, singles):
    """C05 on the implementation's outputs.  `singles[a]` = real code run on animal `a` alone.
    Returns the list of ALL failures as (message, [signatures]).  A signature is attached only to
    the *effect* a known finding describes:
      SIG_SHORT — weight-on-the-segment / monotone-in-distance failing on an edge shorter than 1 px;
      SIG_BOX   — an in-image animal without a node in the open filter box whose single-animal field
                  is identically zero.
    Shape, finiteness, additivity, exact zeros, direction, range and the weight law are never signed."""
    H, W, s, sg = case["H"], case["W"], case["stride"], case["sigma"]
    E = len(case["edges"])
    h, w = math.ceil(H / s), math.ceil(W / s)
    fails = []
    if tuple(out.shape) != (2 * E, h, w):
        return [(f"shape {tuple(out.shape)}, expected {(2 * E, h, w)}", [])]
    if not np.isfinite(out).all():
        return [("NaN/inf in output", [])]
    tol = case_tol(case)
    tot = np.zeros_like(out, dtype=np.float64)
    for Fa in singles:
        tot += Fa
    if out.size and np.abs(out - tot).max() > tol * max(1, len(singles)):
        fails.append((f"fields of several animals do not add: max |all − Σ singles| = {np.abs(out - tot).max()}", []))
    xl, yl = (w - 1) * s, (h - 1) * s
    for a, (animal, Fa) in enumerate(zip(case["animals"], singles)):
        pts, geo = edge_geometry(case, animal)
        in_image = any(vis(p) and 0 <= p[0] < W and 0 <= p[1] < H for p in pts)
        in_box = any(vis(p) and 0 < p[0] < xl and 0 < p[1] < yl for p in pts)
        zero_field = not np.any(Fa != 0)
        for e, (u, v) in enumerate(case["edges"]):
            g = geo[e]
            where = f"animal {a} edge {e} ({u}->{v})"
            if g is None or not in_image:
                if np.any(Fa[2 * e] != 0) or np.any(Fa[2 * e + 1] != 0):
                    fails.append((f"{where}: {'degenerate edge' if g is None else 'animal wholly outside the image'} "
                                  f"but field is not zero (max {np.abs(Fa[2 * e:2 * e + 2]).max()})", []))
        if not in_image:
            continue
        if zero_field and not in_box:
            # the F-C05b effect itself: the whole animal contributes exactly zero.  Reported (signed) only
            # when a field was due: some non-degenerate edge puts noticeable weight on some grid point.
            due = [e for e, g in enumerate(geo) if g is not None and g["dist2"].size
                   and np.exp(-(g["dist2"].min() ** 2) / (2.0 * sg * sg)) > max(TOL_ON, tol)]
            if due:
                fails.append((f"animal {a} has a node inside the image but contributes exactly zero "
                              f"(no node strictly inside (0,{xl})x(0,{yl})); edges {due} were due a field", [SIG_BOX]))
            continue
        for e, (u, v) in enumerate(case["edges"]):
            g = geo[e]
            if g is None or not g["dist2"].size:
                continue
            where = f"animal {a} edge {e} ({u}->{v})"
            Fx, Fy = Fa[2 * e].astype(np.float64), Fa[2 * e + 1].astype(np.float64)
            short = [SIG_SHORT] if g["L"] < 1 else []
            mag = Fx * g["ux"] + Fy * g["uy"]
            cross = Fx * g["uy"] - Fy * g["ux"]
            if np.abs(cross).max() > tol:
                fails.append((f"{where}: field not parallel to the edge (|cross| {np.abs(cross).max()})", []))
            if mag.min() < -tol or mag.max() > 1 + tol:
                fails.append((f"{where}: weight outside [0,1]: [{mag.min()}, {mag.max()}] (negative = points dst->src)", []))
            on = g["dist2"] <= 1e-18
            if on.any() and mag[on].min() < 1 - max(TOL_ON, tol):
                i, j = np.argwhere(on & (mag < 1 - max(TOL_ON, tol)))[0]
                fails.append((f"{where}: grid point (x={g['gx'][i, j]}, y={g['gy'][i, j]}) lies on the segment but weight is "
                              f"{mag[i, j]!r}", short))
            order = np.argsort(g["dist2"].ravel(), kind="stable")
            dsorted, msorted = g["dist2"].ravel()[order], mag.ravel()[order]
            runmin = np.minimum.accumulate(msorted)
            bad = np.nonzero((msorted[1:] > runmin[:-1] + 2 * tol) & (dsorted[1:] > dsorted[:-1] * (1 + 1e-9) + 1e-12))[0]
            if bad.size:
                fails.append((f"{where}: weight increases with distance from the segment", short))
            if g["L"] >= 1:
                ref = np.exp(-(g["dist2"] ** 2) / (2.0 * sg * sg))
                if np.abs(mag - ref).max() > tol:
                    i, j = np.unravel_index(int(np.argmax(np.abs(mag - ref))), ref.shape)
                    fails.append((f"{where}: weight at grid point (x={g['gx'][i, j]}, y={g['gy'][i, j]}) is {mag[i, j]!r}, "
                                  f"the as-coded law exp(-dist^4/2sigma^2) of the true distance gives {ref[i, j]!r}", []))
    return fails


def impl_and_oracle(case):
    """Joint run, then one run per animal (all through the real code), then the oracle.  The joint
    result is snapshotted before the later calls and compared afterwards (history check: a result
    must not be modified by a later call)."""
    r = run_impl_raw(case)
    if r[0] == "raise":
        if r[1] in ("HistoryDependent", "StateMutated", "StreamDependent", "ResultAliased"):
            return r, [(r[2], [])], []
        return r, [(f"implementation raised {r[1]}: {r[2]}", [])], []
    raw, snap = r[1], r[1].clone()
    singles, singles_raw = [], []
    for a in case["animals"]:
        ra = run_impl_raw(case | {"extra_sample": None}, animals=[a])
        if ra[0] == "raise":
            return ("ok", r[2]), [(f"implementation raised on a single animal {ra[1]}: {ra[2]}", [])], []
        singles.append(ra[2])
        singles_raw.append(ra[1])
    later = list(singles_raw)
    rj = run_impl_raw(jittered(case))           # one more call of the same output shape with other keypoints
    if rj[0] == "ok":
        later.append(rj[1])
    fails = oracle(case, r[2], singles)
    bad = aliasing([raw], [snap], later)
    if bad:
        fails.insert(0, (f"call history ({1 + len(later)} calls of the same output shape): {bad} "
                         f"(an earlier result was modified by / aliases a later call's result)", []))
    return ("ok", r[2]), fails, singles


def unsigned(fails):
    return [f for f in fails if not f[1]]


def case_size(case):
    pts = [p for a in case["animals"] for p in a]
    hh = case.get("history") or {}
    st = case.get("stream") or {"before": [], "after": []}
    return (len(st["before"]) + len(st["after"]), hh.get("passes", 1) + (1 if hh.get("interleave") else 0),
            len(case["animals"]), len(case["edges"]), case["H"] + case["W"], case["stride"],
            0 if case["sigma"] == 1.0 else 1, sum(1 for p in pts for v in p if v is not None and v != round(v)))


def shrink(case):
    """Greedy shrink; keeps `the oracle reports an unsigned failure`; strictly decreasing size."""
    def still(c):
        _, fails, _ = impl_and_oracle(c)
        return bool(unsigned(fails))
    cur = copy.deepcopy(case)
    cur.pop("extra_sample", None)
    if not still(cur):
        return case
    changed = True
    while changed:
        changed = False
        cands = []
        if cur.get("stream"):
            for side in ("before", "after"):
                for k in range(len(cur["stream"][side])):
                    c = copy.deepcopy(cur); del c["stream"][side][k]; cands.append(c)
        if cur.get("history"):
            if cur["history"].get("interleave"):
                c = copy.deepcopy(cur); c["history"]["interleave"] = False; cands.append(c)
            if cur["history"]["passes"] > 1:
                c = copy.deepcopy(cur); c["history"]["passes"] -= 1; cands.append(c)
        for k in range(len(cur["animals"])):
            c = copy.deepcopy(cur); del c["animals"][k]; cands.append(c)
        for k in range(len(cur["edges"])):
            c = copy.deepcopy(cur); del c["edges"][k]; cands.append(c)
        keys = (("H", [8, 16]), ("W", [8, 16])) + (() if cur.get("defaults") else (("stride", [1, 2]), ("sigma", [1.0])))
        if not cur.get("large"):
            for key, small in keys:
                for val in small:
                    c = copy.deepcopy(cur); c[key] = val; cands.append(c)
        c = copy.deepcopy(cur)
        c["animals"] = [[[None if v is None else float(round(v)) for v in p] for p in a] for a in c["animals"]]
        cands.append(c)
        for c in cands:
            try:
                if case_size(c) < case_size(cur) and still(c):
                    cur, changed = c, True
                    break
            except Exception:
                continue
    return cur


# ------------------------------------------------------------------ main
def stream_rotations(case):
    """The same stream observed at each of its other positions (every example of a stream is compared
    with the model's answer for that example alone)."""
    st = case.get("stream")
    if not st:
        return []
    seq = st["before"] + [{"H": case["H"], "W": case["W"], "animals": case["animals"]}] + st["after"]
    out = []
    for i, o in enumerate(seq):
        if i == len(st["before"]):
            continue
        c = {k: v for k, v in case.items() if k not in ("stream", "H", "W", "animals", "extra_sample")}
        c.update(H=o["H"], W=o["W"], animals=o["animals"], stream={"before": seq[:i], "after": seq[i + 1:]})
        out.append(copy.deepcopy(c))
    return out


def tags_of(case):
    if case["kind"] == "dist":
        return ["dist"]
    H, W, s = case["H"], case["W"], case["stride"]
    xl, yl = (math.ceil(W / s) - 1) * s, (math.ceil(H / s) - 1) * s
    t = [case["kind"], f"stride{s}", f"edges{min(len(case['edges']), 4)}", f"animals{len(case['animals'])}"]
    if case.get("large"):
        t.append("large_frame")
    if case.get("uncovered_nodes"):
        t.append("skeleton_with_edgeless_node")
    if case.get("duplicates"):
        t.append(f"exact_duplicate_animal_x{case['duplicates']}")
    if case.get("band"):
        t.append(f"animal_in_transposed_bound_band_{case['band']}")
    cov = {i for e in case["edges"] for i in e}
    for k, a in enumerate(case["animals"]):
        if case["edges"] and any(vis(p) for p in a) and not any(vis(a[i]) for i in cov):
            t.append("animal_without_visible_edge_endpoint_" + ("first" if k == 0 else "last" if k == len(case["animals"]) - 1 else "middle"))
    if case.get("float_edge_inds"):
        t.append("float32_edge_inds")
    if case.get("stream"):
        st = case["stream"]
        t.append(f"dp_stream_{1 + len(st['before']) + len(st['after'])}_examples")
        if any(o["H"] * o["W"] < case["H"] * case["W"] for o in st["before"]):
            t.append("dp_stream_small_then_large")
        if any(o["H"] * o["W"] > case["H"] * case["W"] for o in st["before"]):
            t.append("dp_stream_large_then_small")
    if case.get("history"):
        t.append(f"dp_history_{case['history']['passes']}_passes" + ("_interleaved" if case["history"].get("interleave") else ""))
    if case["sigma"] not in (0.5, 1.0, 1.5, 2.5, 5.0):
        t.append("continuous_sigma")
    for a in case["animals"]:
        v = [p for p in a if vis(p)]
        if len(v) < len(a):
            t.append("nan_node")
        img = any(0 <= p[0] < W and 0 <= p[1] < H for p in v)
        box = any(0 < p[0] < xl and 0 < p[1] < yl for p in v)
        t.append("animal_kept" if box else ("animal_in_image_dropped" if img else "animal_outside"))
        for (u, w_) in case["edges"]:
            if vis(a[u]) and vis(a[w_]):
                L = (a[u][0] - a[w_][0]) ** 2 + (a[u][1] - a[w_][1]) ** 2
                t.append("edge_zero_len" if L == 0 else ("edge_subpixel" if L < 1 else "edge_regular"))
    return sorted(set(t))


def nontrivial(case):
    if case["kind"] == "dist":
        return True
    return any("edge_regular" == t or "edge_subpixel" == t for t in tags_of(case)) and \
        any(t in ("animal_kept", "animal_in_image_dropped") for t in tags_of(case))


def kept_mismatch(case, reply, singles):
    """The driver's exact kept-animal flags (Rat run of `Pafs.kept`) against the implementation: an
    animal's single run is non-zero ⇒ kept; kept and some edge ≥ 1 px puts noticeable weight on the
    grid ⇒ single run non-zero."""
    parts = [p.strip() for p in (reply + " ").split("|")]
    flags = [int(x) for x in parts[1].split()]
    if len(flags) != len(case["animals"]):
        return f"kept flags: {len(flags)} for {len(case['animals'])} animals"
    for a, (animal, Fa) in enumerate(zip(case["animals"], singles)):
        nz = bool(np.any(Fa != 0))
        if nz and not flags[a]:
            return f"animal {a}: model says dropped by the in-image filter, implementation field is not zero"
        if flags[a] and not nz:
            _, geo = edge_geometry(case, animal)
            if any(g is not None and g["L"] >= 1 and g["dist2"].size
                   and np.exp(-(g["dist2"].min() ** 2) / (2.0 * case["sigma"] ** 2)) > 1e-3 for g in geo):
                return f"animal {a}: model says kept, implementation field is identically zero"
    return None


def check_case(chk, case, reply):
    kind = case["kind"]
    if kind in ("dist", "mkpafs", "mpafs"):
        rr = run_impl_raw(case)
        if rr[0] == "ok" and kind == "mpafs":        # two-call history with the first result RETAINED
            snap = rr[1].clone()
            r2 = run_impl_raw(jittered(case))
            bad = aliasing([rr[1]], [snap], [r2[1]] if r2[0] == "ok" else [])
            if bad:
                rr = ("raise", "ResultAliased", "make_multi_pafs: " + bad)
        r = rr if rr[0] == "raise" else ("ok", rr[2])
        if r[0] == "raise":
            chk.disagree(f"{kind}: implementation raised / aliased results where the model does not", case, list(r), "ok")
            if r[1] == "ResultAliased":
                chk.fail("C05 fails on the implementation (call history): " + r[2], case, None, ())
            return True
        why = compare(chk, case, r[1], reply)
        if why:
            chk.disagree({"dist": "distance_to_edge == Pafs.distanceToEdge", "mkpafs": "make_pafs == Pafs.pafRaw",
                          "mpafs": "make_multi_pafs == Pafs.makeMultiPafs"}[kind], case, why, "see case")
            return True
        return False
    r, fails, singles = impl_and_oracle(case)
    reported = False
    if r[0] == "raise":
        chk.disagree("generate_pafs: implementation raised where the model does not", case, list(r), "ok")
        reported = True
    elif reply is not None:
        cmp_ = compare(chk, case, r[1], reply)
        if not cmp_ and len(singles) == len(case["animals"]):
            cmp_ = kept_mismatch(case, reply, singles)
        if cmp_:
            chk.disagree("generate_pafs == Pafs.pafs", case, cmp_, "see case")
            reported = True
    seen = set()
    for msg, sigs in fails:
        if sigs and tuple(sigs) not in seen:       # the effect a known finding describes: routed through its signature
            seen.add(tuple(sigs))
            chk.extra["excluded_region_failures"] = chk.extra.get("excluded_region_failures", 0) + 1
            chk.fail("C05 (known effect): " + msg, case, None, sigs)
    if unsigned(fails):
        small = shrink(case)
        _, fails2, _ = impl_and_oracle(small)
        u = unsigned(fails2) or unsigned(fails)
        chk.fail("C05 fails on the implementation: " + u[0][0], small,
                 {"original_case": case, "all_failures": [m for m, _ in fails][:8]}, ())
        reported = True
    return reported


def defaults_probe(chk):
    """Assumption check, recorded not judged: sigma / output_stride / edge_inds are `attrs.field(...)`
    defaults in plain (non-attrs) signatures, so calls relying on them cannot work today.  If that is
    ever repaired the DataPipe defaults (sigma 1.0, stride 1) are compared like any other case."""
    import torch
    from sleap_nn.data import edge_maps as em
    inst = torch.tensor([[[[2.0, 2.0], [5.0, 5.0]]]])
    r1 = call(em.generate_pafs, inst, (8, 8))
    ex = {"image": torch.zeros((1, 1, 8, 8)), "instances": inst}
    r2 = call(lambda: list(em.PartAffinityFieldsGenerator([ex], edge_inds=torch.Tensor([[0, 1]])))[0]["part_affinity_fields"])
    chk.extra["default_arguments"] = {
        "generate_pafs(instances, img_hw)": "ok" if r1[0] == "ok" else f"raise:{r1[1]}",
        "PartAffinityFieldsGenerator(dp, edge_inds=...)": "ok" if r2[0] == "ok" else f"raise:{r2[1]}"}
    chk.tag("defaults_" + ("work" if r2[0] == "ok" else "raise_" + str(r2[1])))
    return r2[0] == "ok"


def main(chk: Check):
    chk.build_and_audit()
    import_repo()
    rng = chk.rng
    np.random.seed(rng.randrange(2 ** 31))

    # ---- known findings: replay the recorded witnesses on the real code
    for ent in chk.known:
        if ent["status"] in ("known", "fixed") and ent.get("witness"):
            _, fails, _ = impl_and_oracle(ent["witness"])
            hit = any(ent["signature"] in sg for _, sg in fails) or (ent["status"] == "fixed" and bool(fails))
            chk.known_replay(ent["id"], still_fails=hit, detail=str(fails[:2]))

    cases = [
        # the suite's literal example shapes + the proof's case splits
        {"kind": "pafs", "H": 8, "W": 8, "stride": 1, "sigma": 1.0, "n_nodes": 2, "edges": [[0, 1]],
         "animals": [[[1.0, 2.0], [5.0, 6.0]]]},
        {"kind": "pafs", "H": 16, "W": 16, "stride": 4, "sigma": 1.5, "n_nodes": 3, "edges": [[0, 1], [1, 2], [2, 0]],
         "animals": [[[2.0, 2.0], [9.0, 5.0], [None, None]], [[20.0, 20.0], [30.0, -3.0], [17.0, 5.0]]]},
        {"kind": "pafs_noflat", "H": 9, "W": 7, "stride": 2, "sigma": 0.5, "n_nodes": 2, "edges": [[1, 0], [0, 0]],
         "animals": [[[3.0, 3.0], [3.0, 3.0]], [[1.0, 1.0], [4.0, 5.0]]]},
        {"kind": "dp", "H": 8, "W": 8, "stride": 2, "sigma": 1.0, "n_nodes": 2, "edges": [[0, 1]],
         "animals": [[[1.0, 1.0], [5.0, 1.0]], [[5.0, 5.0], [1.0, 5.0]]]},
        {"kind": "dp", "H": 16, "W": 16, "stride": 4, "sigma": 1.5, "n_nodes": 2, "edges": [[0, 1]],
         "history": {"passes": 3, "interleave": True}, "animals": [[[2.0, 3.0], [10.0, 9.0]]]},
        {"kind": "dp_noflat", "H": 8, "W": 8, "stride": 2, "sigma": 1.0, "n_nodes": 2, "edges": [[0, 1]],
         "history": {"passes": 3, "interleave": False}, "float_edge_inds": True, "animals": [[[1.0, 1.0], [5.0, 1.0]], [[5.0, 5.0], [1.0, 5.0]]]},
        {"kind": "pafs", "H": 8, "W": 8, "stride": 2, "sigma": 1.0, "n_nodes": 2, "edges": [], "animals": [[[1.0, 1.0], [5.0, 1.0]]]},
        {"kind": "pafs", "H": 8, "W": 8, "stride": 2, "sigma": 1.0, "n_nodes": 2, "edges": [[0, 1]], "animals": []},
        # streams of different image sizes through one PartAffinityFieldsGenerator: small then large with the animal beyond
        # the small frame's extent, and large then small (each rotation observes another element of the same stream)
        {"kind": "dp", "H": 32, "W": 32, "stride": 4, "sigma": 1.5, "n_nodes": 2, "edges": [[0, 1]],
         "animals": [[[20.0, 22.0], [27.0, 12.0]]],
         "stream": {"before": [{"H": 16, "W": 16, "animals": [[[3.0, 4.0], [9.0, 9.0]]]}], "after": []}},
        {"kind": "dp_noflat", "H": 12, "W": 8, "stride": 2, "sigma": 1.0, "n_nodes": 2, "edges": [[0, 1]],
         "history": {"passes": 2, "interleave": False}, "animals": [[[2.0, 3.0], [5.0, 9.0]]],
         "stream": {"before": [{"H": 24, "W": 40, "animals": [[[30.0, 20.0], [12.0, 5.0]]]}],
                    "after": [{"H": 9, "W": 21, "animals": [[[15.0, 4.0], [3.0, 2.0]]]}]}},
        # a node in no edge: the first animal shows only that node (all its edge endpoints NaN) and is kept by the filter;
        # the fully visible animals after it must still be drawn (also directly through make_multi_pafs)
        {"kind": "pafs", "H": 16, "W": 16, "stride": 2, "sigma": 1.0, "n_nodes": 3, "edges": [[0, 1]], "uncovered_nodes": [2],
         "animals": [[[None, None], [None, None], [5.0, 5.0]], [[3.0, 4.0], [10.0, 9.0], [7.0, 7.0]]]},
        {"kind": "mpafs", "H": 16, "W": 16, "stride": 2, "sigma": 1.0, "n_nodes": 3, "edges": [[0, 1]], "uncovered_nodes": [2],
         "animals": [[[None, None], [None, None], [5.0, 5.0]], [[3.0, 4.0], [10.0, 9.0], [7.0, 7.0]]]},
        {"kind": "dp", "H": 16, "W": 16, "stride": 4, "sigma": 1.5, "n_nodes": 4, "edges": [[0, 1], [1, 2]], "uncovered_nodes": [3],
         "animals": [[[2.0, 2.0], [6.0, 3.0], [9.0, 9.0], [4.0, 4.0]], [[None, None], [None, None], [None, None], [6.0, 6.0]],
                     [[10.0, 3.0], [5.0, 8.0], [3.0, 10.0], [None, None]]]},
        # exact duplicates: the field is the SUM over the list (twice / three times one animal's field)
        {"kind": "pafs", "H": 16, "W": 16, "stride": 2, "sigma": 1.0, "n_nodes": 2, "edges": [[0, 1]], "duplicates": 2,
         "animals": [[[3.0, 4.0], [10.0, 9.0]], [[3.0, 4.0], [10.0, 9.0]]]},
        {"kind": "dp_noflat", "H": 16, "W": 16, "stride": 2, "sigma": 1.0, "n_nodes": 2, "edges": [[0, 1]], "duplicates": 3,
         "animals": [[[3.0, 4.0], [10.0, 9.0]], [[12.0, 3.0], [5.0, 5.0]], [[3.0, 4.0], [10.0, 9.0]], [[3.0, 4.0], [10.0, 9.0]]]},
        # non-square frames, the animal beyond the other side's length: x > H on a wide frame, y > W on a tall one
        {"kind": "pafs", "H": 8, "W": 32, "stride": 2, "sigma": 1.5, "n_nodes": 2, "edges": [[0, 1]], "band": "wide",
         "animals": [[[20.0, 3.0], [27.0, 5.0]]]},
        {"kind": "dp", "H": 32, "W": 8, "stride": 2, "sigma": 1.5, "n_nodes": 2, "edges": [[0, 1]], "band": "tall",
         "animals": [[[3.0, 20.0], [5.0, 27.0]]]},
        # long sides (> 4096 cells of a full-resolution axis), an animal beyond x = 4096 / y = 4096
        {"kind": "pafs", "H": 8, "W": 4608, "stride": 4, "sigma": 2.5, "n_nodes": 2, "edges": [[0, 1]], "large": True,
         "animals": [[[4200.0, 4.0], [4400.0, 4.0]], [[100.0, 2.0], [300.0, 6.0]]]},
        {"kind": "dp", "H": 5120, "W": 8, "stride": 2, "sigma": 1.5, "n_nodes": 2, "edges": [[0, 1]], "large": True,
         "animals": [[[4.0, 4500.0], [4.0, 4700.5]]]},
        {"kind": "mpafs", "H": 4, "W": 4400, "stride": 1, "sigma": 1.0, "n_nodes": 2, "edges": [[0, 1]], "large": True,
         "animals": [[[4300.0, 2.0], [4350.0, 1.0]]]},
        # real-data regime: 2048 px frame, long edge in the far corner, grid point on the segment
        {"kind": "pafs", "H": 2048, "W": 2048, "stride": 64, "sigma": 15.0, "n_nodes": 2, "edges": [[0, 1]], "large": True,
         "float_edge_inds": True, "animals": [[[1920.0, 1856.0], [1400.5, 1310.25]], [[64.0, 64.0], [640.0, 64.0]]]},
    ]
    if defaults_probe(chk):
        cases.append({"kind": "dp", "H": 8, "W": 8, "stride": 1, "sigma": 1.0, "n_nodes": 2, "edges": [[0, 1]],
                      "float_edge_inds": True, "defaults": True, "animals": [[[2.0, 2.0], [5.0, 5.0]]]})
    for k in range(chk.n(330, 4000)):
        cases.append(gen_case(rng, KINDS[k % len(KINDS)]))
    for k in range(chk.n(40, 400)):
        cases.append(gen_large_case(rng, ["pafs", "dp", "pafs_noflat", "mpafs"][k % 4]))
    for k in range(chk.n(48, 480)):     # edge-less nodes / animals with no visible edge endpoint, at every list position
        cases.append(gen_uncovered_case(rng, ["pafs", "mpafs", "dp", "pafs_noflat"][k % 4], k // 4))
    for k in range(chk.n(40, 400)):     # exact duplicates of a fully labelled animal (adjacent / separated, 2 or 3 copies)
        cases.append(gen_duplicate_case(rng, ["pafs", "pafs_noflat", "dp", "mpafs"][k % 4], k // 4))
    for k in range(chk.n(30, 300)):     # whole animals in the band x in (H-stride, W) / y in (W-stride, H) of non-square frames
        cases.append(gen_band_case(rng, ["pafs", "dp", "pafs_noflat"][k % 3]))
    cases += [c2 for c in list(cases) for c2 in stream_rotations(c)]
    # ---- the regions the _partial theorems exclude: sampled on purpose (search, not proof coverage)
    n_ex = chk.n(60, 600)
    for k in range(n_ex):
        cases.append(gen_case(rng, "pafs", modes=["short"] if k % 2 else ["strip"]))
    chk.extra["excluded_region_cases"] = n_ex
    for _ in range(chk.n(80, 800)):
        cases.append(gen_dist_case(rng))

    replies = run_driver("C05.lean", [" ".join(model_line(c).split()) for c in cases])
    bad = []
    for case, rep in zip(cases, replies):
        chk.case(repr(case) if nontrivial(case) else None, case if case["kind"] != "dist" else None, tags=tags_of(case))
        if check_case(chk, case, rep):
            bad.append(case)

    # ---- failing-input search around disagreements (pinned parameters, x20)
    if chk.disagreements and not [f for f in chk.failing if not f["signatures"]]:
        for bc in [c for c in bad if c["kind"] != "dist"][:3]:
            found = False
            for _ in range(20):
                if bc.get("large"):
                    c = gen_large_case(rng, "pafs")
                else:
                    c = gen_case(rng, "pafs", pin={k: bc[k] for k in ("H", "W", "stride", "sigma")},
                                 modes=["inside", "integer", "partly"])
                chk.evaluations += 1
                _, fails, _ = impl_and_oracle(c)
                if unsigned(fails):
                    check_case(chk, c, None)
                    found = True
                    break
            if found:
                break


def replay(chk: Check, payload):
    import_repo()
    case = payload.get("case") or payload["disagreements"][0]["case"]
    rep = run_driver("C05.lean", [" ".join(model_line(case).split())])[0]
    chk.case(repr(case))
    if case["kind"] not in ("dist", "mkpafs", "mpafs"):
        r, fails, _ = impl_and_oracle(case)
        print(f"replay case={case}\n impl={'raise ' + str(r[1:]) if r[0] == 'raise' else 'shape ' + str(r[1].shape)}\n oracle={fails}")
    check_case(chk, case, rep)


if __name__ == "__main__":
    chk = Check(
        "C05", module="SleapVerif.Props.C05", theorems=THEOREMS,
        build_targets=["SleapVerif.Model.Proto", "SleapVerif.Model.Scalar", "SleapVerif.Model.Grid",
                       "SleapVerif.Model.Confmaps", "SleapVerif.Model.Pafs", "SleapVerif.Lemmas.Transc",
                       "SleapVerif.Lemmas.GridTab"],
        trusted=[
            "Lean 4.33 kernel + Mathlib; axioms ⊆ {propext, Classical.choice, Quot.sound} (audited per run)",
            "hand-written model Pafs.lean of edge_maps.py; tied to /repo by the correspondence on the explored inputs only",
            "exp/sqrt enter as parameters with the laws of Lemmas/Transc.lean (instantiated at ℝ by realTransc)",
            "float32 evaluation in torch within max(2e-5, 2.5·eps32·M/sqrt(sigma))·(#animals) of the float64 evaluation of the "
            "same expressions, M = largest coordinate / image side (measured up to 4096 px: evidence max_diff_over_tol); NaN "
            "plumbing (0/0, isnan → 0) amounts to none ↦ 0 (checked exactly); float32 underflow of |d|² for |d| < 1e-19 (gives "
            "inf) is outside the lattice inputs and not modelled",
            "torch indexing/broadcast/meshgrid/permute semantics (validated by the correspondence)",
        ],
        rule="entry points distance_to_edge, make_pafs, make_multi_pafs, generate_pafs (flattened / not), "
             "PartAffinityFieldsGenerator (flattened / not; as HISTORIES over one generator object: 1-3 passes with a fresh iter() each, "
             "35% with pass 2 started while pass 1 is suspended; 85% as STREAMS of 2-4 examples with different image sizes (x0.4 .. x2.5, both "
             "orders) through the same object, every call followed by further calls of the same output shape with other keypoints after which the "
             "RETAINED earlier result must be unchanged and share no storage with later results (make_pafs, make_multi_pafs, generate_pafs, "
             "DataPipe), every example observed in turn and required to equal generate_pafs on it alone; every pass must be bit-identical to the first, which is compared with the "
             "stateless model, and sigma/output_stride/edge_inds/flatten_channels must stay unchanged); edge_inds as int64 tensor or, as production does, torch.Tensor(list) "
             "(float32); 0-4 animals x 1-5 nodes on the k/16 lattice in modes inside / integer / wholly outside / partly outside / "
             "last-stride strip and x=0,y=0 lines / sub-pixel edges / coincident nodes, NaN patterns (node, one coordinate, whole "
             "animal); edge lists chain / random / repeated+reversed / self-edge / empty / not covering all nodes (1-2 edge-less "
             "nodes) with animals of which only the edge-less node(s) are visible at the first / middle / last list position; instance lists with 2-3 bit-identical copies of a "
             "fully labelled animal (adjacent / separated); non-square frames with whole animals in x in (H-stride, W) / y in (W-stride, H); H,W in 1..36 (50% stride multiples), "
             "stride {1,2,4,8}; a large-frame family H,W in 512..4096 with stride 16..64 (grid <= 64 cells a side), long edges, "
             "far-corner animals; sigma {.5,1,1.5,2.5,5} (65%) or log-uniform in [0.3,20] ([0.5,40] on large frames); "
             "distance_to_edge also with coordinates up to 4096; distinct = distinct case; trivial = no animal in the image with "
             "a non-degenerate edge",
        assumptions=[
            "sigma > 0, stride >= 1, H,W >= 1 (H or W = 0: torch raises IndexError on xv[-1], the model totalises gridLast to 0), finite "
            "coordinates, edge indices in range and non-negative (torch raises / wraps, the model's nodeOf gives a missing node), "
            "n_samples = 1 (the code reads instances[0])",
            "sigma, output_stride and edge_inds are passed explicitly: their declared defaults are attrs.field(...) objects in "
            "non-attrs signatures, so generate_pafs(instances, img_hw) and PartAffinityFieldsGenerator(dp, edge_inds=...) raise "
            "TypeError today (every call site in sleap_nn passes all three); probed each run and recorded in the evidence "
            "(default_arguments), compared like any other case should they ever work",
            "an empty edge list is passed as an (0,2) tensor; the production idiom torch.Tensor([]) is 1-D and raises IndexError "
            "(a bottom-up skeleton without edges is not a supported configuration)",
            "distance_to_edge is called with rank-3 points (h, w, 2) as make_edge_maps does (the hard-coded dim=3 makes other ranks raise "
            "or mis-shape; outside the property)",
            "weight-1-on-segment / monotone-in-distance are theorems only for edges of length >= 1 px (F-C05a)",
            "an animal contributes only if a node lies strictly inside (0,xv[-1]) x (0,yv[-1]) (F-C05b)",
            "the weight is exp(-(dist^2)^2 / (2 sigma^2)) with sigma NOT multiplied by the stride (as coded; the property only "
            "asks for a weight in [0,1], 1 on the segment, non-increasing): the oracle pins this law for edges >= 1 px",
        ],
    )
    run_check(chk, main, replay)
