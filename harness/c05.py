"""C05 — part-affinity-field targets point along each edge and vanish where they must.

Model: lean/SleapVerif/Model/Pafs.lean (+Scalar, Grid, Confmaps.nodeOf); theorems: Props/C05.lean.
Correspondence (real code, in process, vs the Lean driver running the same generic definitions at
`Rat` and `Float`): `distance_to_edge` (exact rational vs float32, relative tolerance), `make_pafs`
(NaN pattern exact, values), `make_multi_pafs`, `generate_pafs` (flattened or not) and
`PartAffinityFieldsGenerator` (shape, identically-zero channels exact, values |Δ| ≤ TOL).
The property oracle (float64, true point-segment geometry, independent of the model) runs on every
`generate_pafs`-type case through per-animal runs of the real code; failures inside the two regions
the `_partial` theorems exclude are routed through the signatures of F-C05a / F-C05b.
"""
import copy
import math

import numpy as np

from common import Check, call, import_repo, rat, run_check, run_driver, unrat

THEOREMS = ["SleapVerif.C05." + t for t in [
    "paf_weight_range", "paf_weight_eq_one_iff", "paf_weight_antitone_in_distance",
    "paf_foot_on_segment", "paf_D_is_sqdist_to_segment",
    "paf_weight_one_on_segment_partial", "paf_short_edge_counterexample",
    "paf_direction", "paf_zero_missing", "paf_zero_len",
    "insideOpen_false_of_outside", "kept_false_of_outside", "paf_zero_filtered",
    "paf_kept_partial", "paf_border_strip_counterexample",
    "paf_additive", "paf_single", "paf_empty", "paf_layout", "paf_shape",
]]

TOL = 2e-5          # values: float32 implementation vs float64 model; observed noise ≤ ~1.3e-6 per animal (evidence max_abs_diff)
TOL_DIST = 2e-5     # distance_to_edge: |Δ| ≤ TOL_DIST · max(1, D)
TOL_ON = 1e-4       # oracle: weight on the segment must be ≥ 1 − TOL_ON
TOL_OR = 2e-5       # oracle: direction / range / monotonicity / Gaussian-of-true-distance slack
SIG_SHORT = "edge_shorter_than_one_pixel"
SIG_BOX = "in_image_animal_outside_open_filter_box"


# ------------------------------------------------------------------ generator
def lat(rng, lo, hi):
    return rng.randrange(int(lo * 16), int(hi * 16) + 1) / 16.0


def gen_animal(rng, H, W, stride, n_nodes, mode):
    xl = (math.ceil(W / stride) - 1) * stride
    yl = (math.ceil(H / stride) - 1) * stride
    pts = []
    if mode == "inside":
        pts = [[lat(rng, 0, max(W - 1, 0)), lat(rng, 0, max(H - 1, 0))] for _ in range(n_nodes)]
    elif mode == "integer":
        pts = [[float(rng.randrange(0, W)), float(rng.randrange(0, H))] for _ in range(n_nodes)]
    elif mode == "outside":      # wholly outside the image
        side = rng.choice(["l", "r", "t", "b"])
        for _ in range(n_nodes):
            x, y = lat(rng, -8, W + 8), lat(rng, -8, H + 8)
            if side == "l": x = lat(rng, -8, -1 / 16)
            if side == "r": x = lat(rng, W, W + 8)
            if side == "t": y = lat(rng, -8, -1 / 16)
            if side == "b": y = lat(rng, H, H + 8)
            pts.append([x, y])
    elif mode == "partly":
        pts = [[lat(rng, -6, W + 6), lat(rng, -6, H + 6)] for _ in range(n_nodes)]
    elif mode == "strip":        # F-C05b region: inside the image, outside the open filter box
        which = rng.choice(["right", "bottom", "x0", "y0", "last_col"])
        for _ in range(n_nodes):
            x, y = lat(rng, 0, max(W - 1, 0)), lat(rng, 0, max(H - 1, 0))
            if which == "right": x = lat(rng, xl, max(W - 1 / 16, xl))
            if which == "bottom": y = lat(rng, yl, max(H - 1 / 16, yl))
            if which == "x0": x = 0.0
            if which == "y0": y = 0.0
            if which == "last_col": x = float(xl)
            pts.append([x, y])
    elif mode == "short":        # F-C05a region: consecutive nodes closer than one pixel
        x, y = lat(rng, 1, max(W - 2, 1)), lat(rng, 1, max(H - 2, 1))
        if rng.random() < 0.5:
            x, y = float(round(x)) - 1 / 8, float(round(y))   # a grid point in the middle of the first edge
        for k in range(n_nodes):
            pts.append([x, y])
            x, y = x + rng.choice([-1, 1]) * rng.choice([1 / 16, 1 / 8, 1 / 4, 1 / 2, 3 / 4]), \
                y + rng.choice([0, 0, 1 / 16, -1 / 4, 1 / 2])
    elif mode == "coincident":
        p = [lat(rng, 0, max(W - 1, 0)), lat(rng, 0, max(H - 1, 0))]
        pts = [list(p) if rng.random() < 0.6 else [lat(rng, 0, W), lat(rng, 0, H)] for _ in range(n_nodes)]
    # NaN patterns
    r = rng.random()
    if r < 0.12 and pts:
        pts[rng.randrange(len(pts))] = [None, None]
    elif r < 0.17 and pts:
        k = rng.randrange(len(pts)); pts[k] = [None, pts[k][1]] if rng.random() < 0.5 else [pts[k][0], None]
    elif r < 0.20:
        pts = [[None, None] for _ in pts]
    return pts


def gen_edges(rng, n_nodes):
    kind = rng.choice(["chain", "random", "random", "repeat_reverse", "self", "empty"])
    if n_nodes < 2:
        return [[0, 0]] if kind != "empty" else []
    if kind == "chain":
        return [[i, i + 1] for i in range(n_nodes - 1)]
    if kind == "empty":
        return []
    E = rng.randrange(1, 5)
    es = [rng.sample(range(n_nodes), 2) for _ in range(E)]
    if kind == "repeat_reverse":
        es.append(list(es[0])); es.append([es[0][1], es[0][0]])
    if kind == "self":
        k = rng.randrange(n_nodes); es.append([k, k])
    return es


def gen_case(rng, kind=None, pin=None, modes=None):
    pin = pin or {}
    kind = kind or rng.choice(["pafs", "pafs", "pafs_noflat", "dp", "mpafs", "mkpafs"])
    stride = pin.get("stride") or rng.choice([1, 2, 2, 4, 4, 8])
    sigma = pin.get("sigma") or rng.choice([0.5, 1.0, 1.5, 2.5, 5.0])
    if "H" in pin:
        H, W = pin["H"], pin["W"]
    elif rng.random() < 0.5:
        H, W = stride * rng.randrange(1, max(2, 36 // stride)), stride * rng.randrange(1, max(2, 36 // stride))
    else:
        H, W = rng.randrange(1, 37), rng.randrange(1, 37)
    n_nodes = rng.choice([1, 2, 2, 3, 4, 5])
    n_inst = rng.choice([0, 1, 1, 2, 2, 3, 4])
    modes = modes or ["inside", "inside", "integer", "outside", "partly", "strip", "short", "coincident"]
    animals = [gen_animal(rng, H, W, stride, n_nodes, rng.choice(modes)) for _ in range(n_inst)]
    case = {"kind": kind, "H": H, "W": W, "stride": stride, "sigma": sigma, "n_nodes": n_nodes,
            "edges": gen_edges(rng, n_nodes), "animals": animals}
    if kind in ("pafs", "pafs_noflat") and rng.random() < 0.15:
        case["extra_sample"] = [gen_animal(rng, H, W, stride, n_nodes, "inside") for _ in range(n_inst)]
    return case


def gen_dist_case(rng):
    h, w = rng.randrange(1, 6), rng.randrange(1, 6)
    pts = [[lat(rng, -4, 40), lat(rng, -4, 40)] for _ in range(h * w)]
    es = []
    for _ in range(rng.randrange(1, 5)):
        s = [lat(rng, -4, 40), lat(rng, -4, 40)]
        m = rng.random()
        if m < 0.2:
            d = [rng.choice([-1, 1]) * rng.choice([1 / 16, 1 / 4, 1 / 2, 15 / 16]), rng.choice([0, 1 / 8, -1 / 2])]
        elif m < 0.3:
            d = [0.0, 0.0]
        else:
            d = [lat(rng, -20, 20), lat(rng, -20, 20)]
        es.append(s + [s[0] + d[0], s[1] + d[1]])
    return {"kind": "dist", "h": h, "w": w, "pts": pts, "es": es}


# ------------------------------------------------------------------ implementation
def nan_arr(pts, shape):
    flat = []

    def walk(t):
        if isinstance(t, list):
            for u in t:
                walk(u)
        else:
            flat.append(float("nan") if t is None else t)
    walk(pts)
    return np.array(flat, dtype=np.float64).reshape(shape)


def run_impl(case, animals=None):
    """Returns ('ok', ndarray) | ('raise', cls, msg).  For pafs-type cases the result is always
    flattened to (2E, h, w) after checking the un-flattened layout."""
    import torch
    from sleap_nn.data import edge_maps as em
    from sleap_nn.data.utils import make_grid_vectors

    kind = case["kind"]
    if kind == "dist":
        P = torch.tensor(np.array(case["pts"]).reshape(case["h"], case["w"], 2), dtype=torch.float32)
        es = np.array(case["es"], dtype=np.float64).reshape(-1, 4)
        r = call(em.distance_to_edge, P, torch.tensor(es[:, :2], dtype=torch.float32),
                 torch.tensor(es[:, 2:], dtype=torch.float32))
        return r if r[0] == "raise" else ("ok", r[1].numpy().reshape(-1, es.shape[0]))
    H, W, s, sg = case["H"], case["W"], case["stride"], case["sigma"]
    animals = case["animals"] if animals is None else animals
    N, E = case["n_nodes"], len(case["edges"])
    inst = torch.tensor(nan_arr(animals, (len(animals), N, 2)), dtype=torch.float32)
    edge_inds = torch.tensor(np.array(case["edges"], dtype=np.int64).reshape(E, 2))
    before = inst.clone()
    if kind in ("mkpafs", "mpafs"):
        xv, yv = make_grid_vectors(H, W, s)
        srcs, dsts = em.get_edge_points(inst, edge_inds)
        if kind == "mpafs":
            r = call(em.make_multi_pafs, xv, yv, srcs, dsts, sg)
            if r[0] == "ok":
                r = ("ok", r[1].reshape(2 * E, len(yv), len(xv)))
        else:   # one make_pafs call per animal, stacked: (I, E, 2, h, w)
            outs = []
            for a in range(len(animals)):
                r = call(em.make_pafs, xv, yv, srcs[a], dsts[a], sg)
                if r[0] == "raise":
                    return r
                outs.append(r[1].numpy())
            return ("ok", np.array(outs).reshape(len(animals), E, 2, len(yv), len(xv)))
    else:
        batch = [inst] + ([torch.tensor(nan_arr(case["extra_sample"], (len(animals), N, 2)), dtype=torch.float32)]
                          if case.get("extra_sample") and len(case["extra_sample"]) == len(animals) else [])
        instances = torch.stack(batch)
        if kind == "dp":
            ex = {"image": torch.zeros((1, 1, H, W)), "instances": instances[:1]}
            dp = em.PartAffinityFieldsGenerator([ex], sigma=sg, output_stride=s, edge_inds=edge_inds,
                                                flatten_channels=True)
            r = call(lambda: list(dp)[0]["part_affinity_fields"])
        else:
            flat = kind == "pafs"
            r = call(em.generate_pafs, instances, (H, W), sigma=sg, output_stride=s, edge_inds=edge_inds,
                     flatten_channels=flat)
            if r[0] == "ok" and not flat:
                if r[1].ndim != 4 or r[1].shape[:2] != (E, 2):
                    return ("raise", "Layout", f"unflattened shape {tuple(r[1].shape)}")
                r = ("ok", r[1].reshape(2 * E, r[1].shape[2], r[1].shape[3]))
    if r[0] == "raise":
        return r
    if not torch.equal(torch.nan_to_num(before, nan=-12345.0), torch.nan_to_num(inst, nan=-12345.0)):
        return ("raise", "InputMutated", "input tensor was modified")
    return ("ok", r[1].detach().numpy())


# ------------------------------------------------------------------ model side
def pt_str(p):
    return f"{rat(p[0])} {rat(p[1])}"


def f32(v):
    return None if v is None else float(np.float32(v))


def model_line(case):
    k = case["kind"]
    if k == "dist":
        return (f"dist {len(case['pts'])} " + " ".join(pt_str([f32(p[0]), f32(p[1])]) for p in case["pts"])
                + f" {len(case['es'])} " + " ".join(" ".join(rat(f32(v)) for v in e) for e in case["es"]))
    head = f"{rat(case['sigma'])} {case['stride']} {case['H']} {case['W']}"
    if k == "mkpafs":
        eps = []
        for a in case["animals"]:
            for (u, v) in case["edges"]:
                eps.append(pt_str([f32(a[u][0]), f32(a[u][1])]) + " " + pt_str([f32(a[v][0]), f32(a[v][1])]))
        return f"mkpafs {head} {len(eps)} " + " ".join(eps)
    op = "mpafs" if k == "mpafs" else "pafs"
    flat = [p for a in case["animals"] for p in a]
    return (f"{op} {head} {len(case['edges'])} " + " ".join(f"{u} {v}" for u, v in case["edges"])
            + f" {len(case['animals'])} {case['n_nodes']} " + " ".join(pt_str([f32(p[0]), f32(p[1])]) for p in flat))


def floats(tokens):
    return np.array([unrat(x) for x in tokens], dtype=np.float64)


def compare(chk, case, out, reply):
    if reply == "error":
        raise RuntimeError("driver could not parse: " + model_line(case)[:200])
    parts = [p.strip() for p in (reply + " ").split("|")]
    k = case["kind"]
    if k == "dist":
        nP, nE = [int(x) for x in parts[0].split()]
        D = np.array([float(unrat(x)) for x in parts[1].split()], dtype=np.float64).reshape(nP, nE)
        if out.shape != D.shape:
            return f"shape impl {out.shape} model {D.shape}"
        err = np.abs(out - D) / np.maximum(1.0, D)
        chk.extra["max_rel_diff_dist"] = max(chk.extra.get("max_rel_diff_dist", 0.0), float(err.max()) if err.size else 0.0)
        if err.size and err.max() > TOL_DIST:
            i = np.unravel_index(int(np.argmax(err)), err.shape)
            return f"distance_to_edge point {i[0]} edge {i[1]}: impl {out[i]!r} model {D[i]!r}"
        return None
    if k == "mkpafs":
        n, h, w = [int(x) for x in parts[0].split()]
        defs = [int(x) for x in parts[1].split()]
        vals = floats(parts[2].split()).reshape(n, 2, h, w) if n * h * w else np.zeros((n, 2, h, w))
        o = out.reshape(-1, 2, out.shape[-2], out.shape[-1]) if out.size or out.ndim == 5 else out
        if tuple(o.shape) != (n, 2, h, w):
            return f"shape impl {tuple(o.shape)} model {(n, 2, h, w)}"
        for e in range(n):
            isn = np.isnan(o[e])
            if defs[e] == 0:
                if not isn.all():
                    return f"edge block {e}: model NaN (degenerate edge), impl has numbers"
                continue
            if isn.any():
                return f"edge block {e}: impl NaN, model defined"
            d = np.abs(o[e] - vals[e])
            chk.extra["max_abs_diff"] = max(chk.extra.get("max_abs_diff", 0.0), float(d.max()) if d.size else 0.0)
            if d.size and d.max() > TOL:
                return f"edge block {e}: impl vs model differ by {d.max()}"
        return None
    C, h, w, rect = [int(x) for x in parts[0].split()]
    nz = [int(x) for x in parts[2].split()]
    vals = floats(parts[3].split()).reshape(C, h, w) if C * h * w else np.zeros((C, h, w))
    if rect != 1:
        return "model stack not rectangular"
    if tuple(out.shape) != (C, h, w):
        return f"shape impl {tuple(out.shape)} model {(C, h, w)}"
    if not np.isfinite(out).all():
        return "non-finite value in implementation output"
    tol = TOL * max(1, len(case["animals"]))
    for c in range(C):
        if nz[c] == 0:
            if np.any(out[c] != 0):
                return f"channel {c}: model identically zero, impl max |v| {np.abs(out[c]).max()}"
            continue
        d = np.abs(out[c] - vals[c])
        chk.extra["max_abs_diff"] = max(chk.extra.get("max_abs_diff", 0.0), float(d.max()) if d.size else 0.0)
        if d.size and d.max() > tol:
            i, j = np.unravel_index(int(np.argmax(d)), d.shape)
            return f"channel {c} cell (row {i}, col {j}): impl {out[c][i, j]!r} model {vals[c][i, j]!r}"
    return None


# ------------------------------------------------------------------ property oracle (independent of the model)
def vis(p):
    return p[0] is not None and p[1] is not None


def oracle(case, out, singles):
    """C05 on the implementation's outputs.  `singles[a]` = real code run on animal `a` alone.
    Returns None or (message, [signatures])."""
    H, W, s, sg = case["H"], case["W"], case["stride"], case["sigma"]
    E = len(case["edges"])
    h, w = math.ceil(H / s), math.ceil(W / s)
    if tuple(out.shape) != (2 * E, h, w):
        return (f"shape {tuple(out.shape)}, expected {(2 * E, h, w)}", [])
    if not np.isfinite(out).all():
        return ("NaN/inf in output", [])
    tot = np.zeros_like(out, dtype=np.float64)
    for Fa in singles:
        tot += Fa
    if out.size and np.abs(out - tot).max() > TOL_OR * max(1, len(singles)):
        return (f"fields of several animals do not add: max |all − Σ singles| = {np.abs(out - tot).max()}", [])
    gy = (np.arange(h) * s).reshape(-1, 1).astype(np.float64) + np.zeros((1, w))
    gx = (np.arange(w) * s).reshape(1, -1).astype(np.float64) + np.zeros((h, 1))
    xl, yl = (w - 1) * s, (h - 1) * s
    for a, (animal, Fa) in enumerate(zip(case["animals"], singles)):
        pts = [[f32(p[0]), f32(p[1])] for p in animal]
        in_image = any(vis(p) and 0 <= p[0] < W and 0 <= p[1] < H for p in pts)
        in_box = any(vis(p) and 0 < p[0] < xl and 0 < p[1] < yl for p in pts)
        for e, (u, v) in enumerate(case["edges"]):
            Fx, Fy = Fa[2 * e].astype(np.float64), Fa[2 * e + 1].astype(np.float64)
            src, dst = pts[u], pts[v]
            valid = vis(src) and vis(dst) and (src[0] != dst[0] or src[1] != dst[1])
            where = f"animal {a} edge {e} ({u}->{v})"
            if not valid or not in_image:
                if np.any(Fx != 0) or np.any(Fy != 0):
                    return (f"{where}: {'degenerate edge' if not valid else 'animal wholly outside the image'} "
                            f"but field is not zero (max {max(np.abs(Fx).max(), np.abs(Fy).max())})", [])
                continue
            dx, dy = dst[0] - src[0], dst[1] - src[1]
            L = dx * dx + dy * dy
            sigs = ([SIG_SHORT] if L < 1 else []) + ([SIG_BOX] if not in_box else [])
            ux, uy = dx / math.sqrt(L), dy / math.sqrt(L)
            rx, ry = gx - src[0], gy - src[1]
            t = np.clip((rx * dx + ry * dy) / L, 0.0, 1.0)
            dist2 = (t * dx - rx) ** 2 + (t * dy - ry) ** 2      # true squared point-segment distance
            mag = Fx * ux + Fy * uy
            cross = Fx * uy - Fy * ux
            if np.abs(cross).max() > TOL_OR:
                return (f"{where}: field not parallel to the edge (|cross| {np.abs(cross).max()})", sigs)
            if mag.min() < -TOL_OR or mag.max() > 1 + TOL_OR:
                return (f"{where}: weight outside [0,1]: [{mag.min()}, {mag.max()}] (negative = points dst->src)", sigs)
            on = dist2 <= 1e-18
            if on.any() and mag[on].min() < 1 - TOL_ON:
                i, j = np.argwhere(on & (mag < 1 - TOL_ON))[0]
                return (f"{where}: grid point (x={gx[i, j]}, y={gy[i, j]}) lies on the segment but weight is {mag[i, j]!r}",
                        sigs)
            order = np.argsort(dist2.ravel(), kind="stable")
            dsorted, msorted = dist2.ravel()[order], mag.ravel()[order]
            runmin = np.minimum.accumulate(msorted)
            bad = np.nonzero((msorted[1:] > runmin[:-1] + TOL_OR) & (dsorted[1:] > dsorted[:-1] * (1 + 1e-12) + 1e-15))[0]
            if bad.size:
                return (f"{where}: weight increases with distance from the segment", sigs)
            if L >= 1 or not in_box:
                ref = np.exp(-(dist2 ** 2) / (2.0 * sg * sg))
                if np.abs(mag - ref).max() > TOL_OR:
                    i, j = np.unravel_index(int(np.argmax(np.abs(mag - ref))), ref.shape)
                    return (f"{where}: weight at grid point (x={gx[i, j]}, y={gy[i, j]}) is {mag[i, j]!r}, "
                            f"the Gaussian of the distance to the segment gives {ref[i, j]!r}", sigs)
    return None


def impl_and_oracle(case):
    r = run_impl(case)
    if r[0] == "raise":
        return r, (f"implementation raised {r[1]}: {r[2]}", [])
    singles = []
    for a in case["animals"]:
        ra = run_impl(case | {"extra_sample": None}, animals=[a])
        if ra[0] == "raise":
            return r, (f"implementation raised on a single animal {ra[1]}: {ra[2]}", [])
        singles.append(ra[1])
    return r, oracle(case, r[1], singles)


def case_size(case):
    pts = [p for a in case["animals"] for p in a]
    return (len(case["animals"]), len(case["edges"]), case["H"] + case["W"], case["stride"],
            0 if case["sigma"] == 1.0 else 1, sum(1 for p in pts for v in p if v is not None and v != round(v)))


def shrink(case, sigs):
    """Greedy shrink; keeps `oracle fails with the same signature set`; strictly decreasing size."""
    def still(c):
        _, why = impl_and_oracle(c)
        return why is not None and sorted(why[1]) == sorted(sigs)
    cur = copy.deepcopy(case)
    cur.pop("extra_sample", None)
    if not still(cur):
        return case
    changed = True
    while changed:
        changed = False
        cands = []
        for k in range(len(cur["animals"])):
            c = copy.deepcopy(cur); del c["animals"][k]; cands.append(c)
        for k in range(len(cur["edges"])):
            c = copy.deepcopy(cur); del c["edges"][k]; cands.append(c)
        for key, small in (("H", [8, 16]), ("W", [8, 16]), ("stride", [1, 2]), ("sigma", [1.0])):
            for val in small:
                c = copy.deepcopy(cur); c[key] = val; cands.append(c)
        c = copy.deepcopy(cur)
        c["animals"] = [[[None if v is None else float(round(v)) for v in p] for p in a] for a in c["animals"]]
        cands.append(c)
        for c in cands:
            try:
                if case_size(c) < case_size(cur) and still(c):
                    cur, changed = c, True
                    break
            except Exception:
                continue
    return cur


# ------------------------------------------------------------------ main
def tags_of(case):
    if case["kind"] == "dist":
        return ["dist"]
    H, W, s = case["H"], case["W"], case["stride"]
    xl, yl = (math.ceil(W / s) - 1) * s, (math.ceil(H / s) - 1) * s
    t = [case["kind"], f"stride{s}", f"edges{min(len(case['edges']), 4)}", f"animals{len(case['animals'])}"]
    for a in case["animals"]:
        v = [p for p in a if vis(p)]
        if len(v) < len(a):
            t.append("nan_node")
        img = any(0 <= p[0] < W and 0 <= p[1] < H for p in v)
        box = any(0 < p[0] < xl and 0 < p[1] < yl for p in v)
        t.append("animal_kept" if box else ("animal_in_image_dropped" if img else "animal_outside"))
        for (u, w_) in case["edges"]:
            if vis(a[u]) and vis(a[w_]):
                L = (a[u][0] - a[w_][0]) ** 2 + (a[u][1] - a[w_][1]) ** 2
                t.append("edge_zero_len" if L == 0 else ("edge_subpixel" if L < 1 else "edge_regular"))
    return sorted(set(t))


def nontrivial(case):
    if case["kind"] == "dist":
        return True
    return any("edge_regular" == t or "edge_subpixel" == t for t in tags_of(case)) and \
        any(t in ("animal_kept", "animal_in_image_dropped") for t in tags_of(case))


def check_case(chk, case, reply):
    kind = case["kind"]
    if kind in ("dist", "mkpafs", "mpafs"):
        r = run_impl(case)
        if r[0] == "raise":
            chk.disagree(f"{kind}: implementation raised where the model does not", case, list(r), "ok")
            return True
        why = compare(chk, case, r[1], reply)
        if why:
            chk.disagree({"dist": "distance_to_edge == Pafs.distanceToEdge", "mkpafs": "make_pafs == Pafs.pafRaw",
                          "mpafs": "make_multi_pafs == Pafs.makeMultiPafs"}[kind], case, why, "see case")
            return True
        return False
    r, why = impl_and_oracle(case)
    reported = False
    if r[0] == "raise":
        chk.disagree("generate_pafs: implementation raised where the model does not", case, list(r), "ok")
        reported = True
    else:
        cmp_ = compare(chk, case, r[1], reply) if reply is not None else None
        if cmp_:
            chk.disagree("generate_pafs == Pafs.pafs", case, cmp_, "see case")
            reported = True
    if why:
        msg, sigs = why
        if sigs:
            chk.extra["excluded_region_failures"] = chk.extra.get("excluded_region_failures", 0) + 1
            chk.fail("C05 (excluded region): " + msg, case, None, sigs)   # routed through the signatures
        else:
            small = shrink(case, sigs)
            _, why2 = impl_and_oracle(small)
            chk.fail("C05 fails on the implementation: " + (why2[0] if why2 else msg), small,
                     {"original_case": case, "why_original": msg}, (why2[1] if why2 else sigs))
            reported = True
    return reported


def main(chk: Check):
    chk.build_and_audit()
    import_repo()
    rng = chk.rng
    np.random.seed(rng.randrange(2 ** 31))

    # ---- known findings: replay the recorded witnesses on the real code
    for ent in chk.known:
        if ent["status"] in ("known", "fixed") and ent.get("witness"):
            _, why = impl_and_oracle(ent["witness"])
            fails = why is not None and (ent["signature"] in why[1] or ent["status"] == "fixed")
            chk.known_replay(ent["id"], still_fails=fails, detail=str(why))

    cases = [
        # the suite's literal example shapes + the proof's case splits
        {"kind": "pafs", "H": 8, "W": 8, "stride": 1, "sigma": 1.0, "n_nodes": 2, "edges": [[0, 1]],
         "animals": [[[1.0, 2.0], [5.0, 6.0]]]},
        {"kind": "pafs", "H": 16, "W": 16, "stride": 4, "sigma": 1.5, "n_nodes": 3, "edges": [[0, 1], [1, 2], [2, 0]],
         "animals": [[[2.0, 2.0], [9.0, 5.0], [None, None]], [[20.0, 20.0], [30.0, -3.0], [17.0, 5.0]]]},
        {"kind": "pafs_noflat", "H": 9, "W": 7, "stride": 2, "sigma": 0.5, "n_nodes": 2, "edges": [[1, 0], [0, 0]],
         "animals": [[[3.0, 3.0], [3.0, 3.0]], [[1.0, 1.0], [4.0, 5.0]]]},
        {"kind": "dp", "H": 8, "W": 8, "stride": 2, "sigma": 1.0, "n_nodes": 2, "edges": [[0, 1]],
         "animals": [[[1.0, 1.0], [5.0, 1.0]], [[5.0, 5.0], [1.0, 5.0]]]},
        {"kind": "pafs", "H": 8, "W": 8, "stride": 2, "sigma": 1.0, "n_nodes": 2, "edges": [], "animals": [[[1.0, 1.0], [5.0, 1.0]]]},
        {"kind": "pafs", "H": 8, "W": 8, "stride": 2, "sigma": 1.0, "n_nodes": 2, "edges": [[0, 1]], "animals": []},
    ]
    kinds = ["pafs", "pafs", "pafs_noflat", "dp", "mpafs", "mkpafs"]
    for k in range(chk.n(330, 4000)):
        cases.append(gen_case(rng, kinds[k % len(kinds)]))
    # ---- the regions the _partial theorems exclude: sampled on purpose (search, not proof coverage)
    n_ex = chk.n(60, 600)
    for k in range(n_ex):
        cases.append(gen_case(rng, "pafs", modes=["short"] if k % 2 else ["strip"]))
    chk.extra["excluded_region_cases"] = n_ex
    for _ in range(chk.n(80, 800)):
        cases.append(gen_dist_case(rng))

    replies = run_driver("C05.lean", [" ".join(model_line(c).split()) for c in cases])
    bad = []
    for case, rep in zip(cases, replies):
        chk.case(repr(case) if nontrivial(case) else None, case if case["kind"] != "dist" else None, tags=tags_of(case))
        if check_case(chk, case, rep):
            bad.append(case)

    # ---- failing-input search around disagreements (pinned parameters, x20)
    if chk.disagreements and not [f for f in chk.failing if not f["signatures"]]:
        for bc in [c for c in bad if c["kind"] != "dist"][:3]:
            found = False
            for _ in range(20):
                c = gen_case(rng, "pafs", pin={k: bc[k] for k in ("H", "W", "stride", "sigma")},
                             modes=["inside", "integer", "partly"])
                chk.evaluations += 1
                _, why = impl_and_oracle(c)
                if why and not why[1]:
                    check_case(chk, c, None)
                    found = True
                    break
            if found:
                break


def replay(chk: Check, payload):
    import_repo()
    case = payload.get("case") or payload["disagreements"][0]["case"]
    rep = run_driver("C05.lean", [" ".join(model_line(case).split())])[0]
    chk.case(repr(case))
    if case["kind"] not in ("dist", "mkpafs", "mpafs"):
        r, why = impl_and_oracle(case)
        print(f"replay case={case}\n impl={'raise ' + str(r[1:]) if r[0] == 'raise' else 'shape ' + str(r[1].shape)}\n oracle={why}")
    check_case(chk, case, rep)


if __name__ == "__main__":
    chk = Check(
        "C05", module="SleapVerif.Props.C05", theorems=THEOREMS,
        build_targets=["SleapVerif.Model.Proto", "SleapVerif.Model.Scalar", "SleapVerif.Model.Grid",
                       "SleapVerif.Model.Confmaps", "SleapVerif.Model.Pafs", "SleapVerif.Lemmas.Transc",
                       "SleapVerif.Props.C01"],
        trusted=[
            "Lean 4.33 kernel + Mathlib; axioms ⊆ {propext, Classical.choice, Quot.sound} (audited per run)",
            "hand-written model Pafs.lean of edge_maps.py; tied to /repo by the correspondence on the explored inputs only",
            "exp/sqrt enter as parameters with the laws of Lemmas/Transc.lean (instantiated at ℝ by realTransc)",
            f"float32 evaluation in torch within {TOL}·(#animals) of the float64 evaluation of the same expressions "
            "(measured: evidence max_abs_diff); NaN plumbing (0/0, isnan → 0) amounts to none ↦ 0 (checked exactly); "
            "float32 underflow of |d|² for |d| < 1e-19 (gives inf) is outside the lattice inputs and not modelled",
            "torch indexing/broadcast/meshgrid/permute semantics (validated by the correspondence)",
        ],
        rule="entry points distance_to_edge, make_pafs, make_multi_pafs, generate_pafs (flattened / not), "
             "PartAffinityFieldsGenerator; 0-4 animals x 1-5 nodes on the k/16 lattice in modes inside / integer / wholly "
             "outside / partly outside / last-stride strip and x=0,y=0 lines / sub-pixel edges / coincident nodes, NaN "
             "patterns (node, one coordinate, whole animal); edge lists chain / random / repeated+reversed / self-edge / "
             "empty; H,W in 1..36 (50% stride multiples), stride {1,2,4,8}, sigma {.5,1,1.5,2.5,5}; distinct = distinct "
             "case; trivial = no animal in the image with a non-degenerate edge",
        assumptions=[
            "sigma > 0, stride >= 1, H,W >= 1, finite coordinates, edge indices in range, n_samples = 1 (the code reads instances[0])",
            "weight-1-on-segment / monotone-in-distance are theorems only for edges of length >= 1 px (F-C05a)",
            "an animal contributes only if a node lies strictly inside (0,xv[-1]) x (0,yv[-1]) (F-C05b)",
            "the weight is exp(-(dist^2)^2 / (2 sigma^2)) with sigma NOT multiplied by the stride (as coded; the property only "
            "asks for a weight in [0,1], 1 on the segment, non-increasing)",
        ],
    )
    run_check(chk, main, replay)
