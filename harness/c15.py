"""C15 — OKS and instance matching obey their mathematical contracts.

Correspondence (every run): the real `compute_oks`, `compute_instance_area`, `match_instances`,
`match_frame_pairs` (sleap_nn/evaluation.py) and `greedy_matching`, `hungarian_matching`,
`compute_iou`, `compute_cosine_sim`, `compute_euclidean_distance` (sleap_nn/tracking/utils.py)
against the Lean model `SleapVerif.Oks` run through `drivers/C15.lean`.

* exact parts (bbox area, visible counts, squared distances, every matching decision given the
  OKS matrix and the scores, greedy assignment, IoU) run at `Rat` and are compared exactly
  (IoU / area fall back to 1e-12 relative when float rounding is involved);
* OKS values: the generic model instantiated at `Float` with `Float.exp`, compared with
  |Δ| ≤ 1e-9·max(1,|v|) (both sides are float64; observed noise ≤ 1e-15), NaN pattern exactly;
  float32-stored and far-translated poses go through `oksr` (everything up to the argument of `exp`
  exactly at `Rat` on the exact dyadic inputs; 1e-6 for float32 inputs, see notes/C15.md);
* call histories: `compute_oks` is called three times with the same argument objects; the arguments
  must be bit-identical afterwards and the results equal (the model is a pure function, `oks_pure`);
* `match_instances` is checked against the model's matching loop run at `Rat` on the OKS matrix
  that the real `compute_oks` returns for the whole frame (floats are dyadic rationals, so the
  model's comparisons are bit-faithful); the OKS it reports per pair must equal that matrix entry.
"""
from __future__ import annotations

import itertools
import math
import warnings
from fractions import Fraction

from common import Check, run_check, import_repo, run_driver, rat, unrat, lst, call

THEOREMS = [
    "SleapVerif.C15.oks_range",
    "SleapVerif.C15.oks_self",
    "SleapVerif.C15.oks_ignores_missing_gt",
    "SleapVerif.C15.oks_missing_pred_is_miss",
    "SleapVerif.C15.oks_antitone",
    "SleapVerif.C15.oks_translation_invariant",
    "SleapVerif.C15.oks_perm_equivariant",
    "SleapVerif.C15.oks_entry",
    "SleapVerif.C15.oks_none_iff",
    "SleapVerif.C15.oks_range_novisible_counterexample",
    "SleapVerif.C15.oks_beforeFix_partial",
    "SleapVerif.C15.oks_beforeFix_counterexample",
    "SleapVerif.C15.match_conservation",
    "SleapVerif.C15.match_gt_at_most_once",
    "SleapVerif.C15.match_pred_at_most_once",
    "SleapVerif.C15.match_pairs_sound",
    "SleapVerif.C15.match_beforeFix_partial",
    "SleapVerif.C15.match_beforeFix_counterexample",
    "SleapVerif.C15.greedy_rows_nodup",
    "SleapVerif.C15.greedy_cols_nodup",
    "SleapVerif.C15.greedy_sublist",
    "SleapVerif.C15.greedy_maximal",
    "SleapVerif.C15.isAssignment_sound",
    "SleapVerif.C15.iou_range",
    "SleapVerif.C15.iou_self",
    "SleapVerif.C15.iou_symm",
    "SleapVerif.C15.cosine_range",
    "SleapVerif.C15.cosine_symm",
    "SleapVerif.C15.cosine_self",
    "SleapVerif.C15.euclid_nonneg",
    "SleapVerif.C15.euclid_eq_zero_iff",
    "SleapVerif.C15.euclid_symm",
    "SleapVerif.C15.euclid_triangle",
    "SleapVerif.C15.ks_eq_ksArg",
    "SleapVerif.C15.ksArg_nonpos_and_translation",
    "SleapVerif.C15.oks_pure",
    "SleapVerif.C15.match_nan_row_is_false_negative",
    "SleapVerif.C15.area_nonneg",
    "SleapVerif.C15.oksPair_range",
    "SleapVerif.C15.oksMatrix_range",
    "SleapVerif.C15.oksPair_self",
    "SleapVerif.C15.oks_ignores_missing_gt_coords_partial",
    "SleapVerif.C15.oks_missing_gt_coord_counterexample",
    "SleapVerif.C15.oksPairMixed_eq",
    "SleapVerif.C15.match_every_prediction_takes_part",
]

EPS = Fraction(2) ** -52  # np.spacing(1)
TOL = 1e-9
SIG_EMPTY_GT = "empty_gt_nonempty_pred"
SIG_NPR = "compute_oks_n_pr_not_one"
SIG_HALFNAN = "half_nan_gt_keypoint_enters_bbox_scale"


# ----------------------------------------------------------------------------- helpers
def q16(rng, lo, hi):
    return rng.randrange(int(lo * 16), int(hi * 16) + 1) / 16.0


def fpt(p):
    return f"{rat(p[0])} {rat(p[1])}"


def fpts(a):
    return lst([tuple(r) for r in a], fpt)


def close(a, b, tol=TOL):
    if a is None or b is None:
        return a is None and b is None
    return abs(a - b) <= tol * max(1.0, abs(a), abs(b))


def nan2none(x):
    x = float(x)
    return None if x != x else x


def gen_instance(rng, n_nodes, box=None):
    """points (n_nodes,2) on the k/16 lattice; degenerate shapes are deliberately frequent"""
    import numpy as np

    kind = rng.choice(["box", "box", "box", "hline", "vline", "point", "tiny"])
    cx, cy = (q16(rng, 8, 56), q16(rng, 8, 56)) if box is None else box
    pts = []
    for _ in range(n_nodes):
        dx, dy = q16(rng, -8, 8), q16(rng, -8, 8)
        if kind == "hline":
            dy = 0.0
        elif kind == "vline":
            dx = 0.0
        elif kind == "point":
            dx = dy = 0.0
        elif kind == "tiny":
            dx, dy = dx / 16, dy / 16
        pts.append([cx + dx, cy + dy])
    return np.array(pts, dtype=np.float64)


def nan_pattern(rng, a, allow_all=True):
    import numpy as np

    a = a.copy()
    k = rng.choice(["none", "none", "point", "coord", "two", "all"])
    n = a.shape[0]
    if k == "point":
        a[rng.randrange(n)] = np.nan
    elif k == "coord":
        a[rng.randrange(n), rng.randrange(2)] = np.nan
    elif k == "two":
        for _ in range(2):
            a[rng.randrange(n)] = np.nan
    elif k == "all" and allow_all:
        a[:] = np.nan
    return a, k


def gen_pred(rng, gts, n_nodes):
    """a prediction: noisy copy / exact copy / translated copy of some gt, or unrelated"""
    import numpy as np

    if len(gts) and rng.random() < 0.85:
        g = gts[rng.randrange(len(gts))].copy()
        g = np.where(np.isnan(g), q16(rng, 8, 56), g)  # predictions may see what gt does not
        mode = rng.choice(["exact", "small", "small", "medium", "large"])
        amp = {"exact": 0, "small": 1, "medium": 3, "large": 12}[mode]
        if amp:
            g = g + np.array([[q16(rng, -amp, amp), q16(rng, -amp, amp)] for _ in range(n_nodes)])
        return g
    return gen_instance(rng, n_nodes)


def oks_line(coco, sds, gts, scales, prs, op="oks"):
    return (op + " " + ("1" if coco else "0") + " " + rat(EPS) + " " + lst(sds, rat) + " "
            + lst(list(zip(scales, gts)), lambda sg: rat(sg[0]) + " " + fpts(sg[1])) + " "
            + lst(prs, fpts))


def parse_oks(out):
    t = out.split()
    if t[0] not in ("ok", "raise"):
        raise RuntimeError("driver: " + out)
    n, m = int(t[1]), int(t[2])
    vals = [unrat(x) for x in t[3:]]
    assert len(vals) == n * m, out
    return [[vals[i * m + j] for j in range(m)] for i in range(n)]


# ----------------------------------------------------------------------------- main
REPLAY: dict = {}


def replay(chk: Check, payload):
    """`bin/check C15 --replay <file>`: re-execute the recorded case through the same pipeline
    (correspondence + history + property oracles) instead of the generator."""
    case = payload.get("case") or (payload.get("disagreements") or [{}])[0].get("case") or {}
    if "use_cocoeval" in case:
        REPLAY["oks"] = case
    elif "scores" in case and "threshold" in case:
        REPLAY["match"] = case
    else:
        print("NOTE: this replay file records a case kind that is re-run through the whole generator", case.keys())
        return
    main(chk, build=False)


def main(chk: Check, build=True):
    if build:
        chk.build_and_audit()
    import_repo()
    import numpy as np
    import sleap_io as sio
    from sleap_nn import evaluation as ev
    from sleap_nn.tracking import utils as tu

    warnings.simplefilter("ignore")
    np.seterr(all="ignore")
    rng = chk.rng
    video = sio.load_slp(str(__import__("common").REPO / "tests/assets/minimal_instance.pkg.slp")).videos[0]

    def skeleton(n):
        return sio.Skeleton(nodes=[f"n{i}" for i in range(n)])

    def frames_of(gts, prs, scores, n_nodes, style=0):
        """instances built through the sleap-io API.  `style`: how a missing node (NaN, NaN) is stored - 0: as
        NaN; 1: every one / 2: the even-numbered ones as FINITE coordinates with `visible=False` (a node placed
        and then hidden; survives an .slp round trip).  `Instance.numpy()` shows (NaN, NaN) either way - that is
        the abstraction the model works on; code reading `points["xy"]` sees the finite garbage."""
        sk = skeleton(n_nodes)

        def mk(a, side, score=None):
            a = np.array(a, dtype=float).reshape(n_nodes, 2)
            hidden = [k for k in range(n_nodes) if np.isnan(a[k]).all() and (style == 1 or (style == 2 and k % 2 == 0))]
            raw = a.copy()
            for k in hidden:
                raw[k] = [40.0 + 7 * k, 55.0 + 3 * k] if side == "gt" else [30.0 - 5 * k, 20.0 + 9 * k]
            inst = (sio.Instance.from_numpy(raw, sk) if score is None else
                    sio.PredictedInstance.from_numpy(raw, sk, point_scores=np.ones(n_nodes), score=float(score)))
            for k in hidden:
                inst.points["visible"][k] = False
            return inst

        gi = [mk(g, "gt") for g in gts]
        pi = [mk(p, "pr", s) for p, s in zip(prs, scores)]
        return (sio.LabeledFrame(video=video, frame_idx=0, instances=gi),
                sio.LabeledFrame(video=video, frame_idx=0, instances=pi), gi, pi)

    # ------------------------------------------------------------------ F-C15 replay
    ent = next((f for f in chk.known if f["id"] == "F-C15"), None)
    if ent is not None:
        w = ent["witness"]
        fg, fp, _, _ = frames_of([np.array(g, float) for g in w["gt"]], [np.array(p, float) for p in w["pr"]],
                                 w["scores"], len(w["pr"][0]))
        r = call(ev.match_instances, fg, fp)
        chk.known_replay("F-C15", still_fails=(r[0] == "raise"), detail=str(r)[:200])

    ent = next((f for f in chk.known if f["id"] == "F-C15b"), None)
    if ent is not None:
        w = ent["witness"]
        r = call(ev.compute_oks, np.array(w["points_gt"], float), np.array(w["points_pr"], float))
        chk.known_replay("F-C15b", still_fails=(r[0] == "raise"), detail=str(r)[:200])

    ent = next((f for f in chk.known if f["id"] == "F-C15c"), None)
    if ent is not None:
        w = ent["witness"]
        arr = lambda x: np.array([[np.nan if v is None else v for v in q] for q in x], dtype=float)
        a = call(ev.compute_oks, arr(w["gt_a"]), arr(w["pr"]))
        b = call(ev.compute_oks, arr(w["gt_b"]), arr(w["pr"]))
        chk.known_replay("F-C15c", still_fails=(a[0] == "ok" and b[0] == "ok" and not np.allclose(a[1], b[1], atol=1e-9)),
                         detail=f"{a} {b}"[:200])

    # ================================================================== 1. compute_oks
    state = {"broadcast_raises": 0}

    def compute_oks_any(G, Pm, **kw):
        """`compute_oks` for any n_pr.  On the pinned tree the call raises IndexError whenever
        n_pr != 1 (F-C15b: a (n_gt,1,n_nodes) boolean mask indexes a (n_gt,n_pr,n_nodes) array);
        the failure is recorded and the matrix is then assembled from one real call per
        prediction so that the values are still compared."""
        state["last_direct_raise"] = False
        try:
            return ev.compute_oks(G, Pm, **kw)
        except IndexError as e:
            state["last_direct_raise"] = True
            if Pm.shape[0] == 1 or "boolean index did not match" not in str(e):
                raise
            state["broadcast_raises"] += 1
            if state["broadcast_raises"] <= 3:
                chk.fail("compute_oks raises IndexError for n_pr != 1 (documented shape (n_pr, n_nodes, n_ed))",
                         {"points_gt": G.tolist(), "points_pr": Pm.tolist()},
                         observed=f"IndexError: {e}", signatures=[SIG_NPR])
            cols = [ev.compute_oks(G, Pm[j:j + 1], **kw) for j in range(Pm.shape[0])]
            return np.concatenate(cols, axis=1) if cols else np.zeros((G.shape[0], 0))

    def oks_impl(gts, prs, scale, stddev, coco, n_nodes):
        G = np.array(gts, dtype=np.float64).reshape(len(gts), n_nodes, 2)
        Pm = np.array(prs, dtype=np.float64).reshape(len(prs), n_nodes, 2)
        return compute_oks_any(G, Pm, scale=scale, stddev=stddev, use_cocoeval=coco)

    def squeeze2d(fn):
        """call `compute_oks` the way the tracker does (tracker.py: `scoring_method(f, x.feature)`):
        a single instance is passed as a 2-D `(n_nodes, 2)` array"""
        def g(G, Pm, **kw):
            return fn(G[0] if G.shape[0] == 1 else G, Pm[0] if Pm.shape[0] == 1 else Pm, **kw)
        return g

    def oks_property_oracle(gts, prs, scale, stddev, coco, n_nodes, case, dtype=np.float64, offset=(0.0, 0.0),
                            shape2d=False):
        """independent restatement of the OKS clauses on the implementation's output.  `dtype`/`offset`:
        the same poses stored as float32/float64 and translated by a large common offset; offsets are
        integers small enough that every translated k/16-lattice coordinate is exactly representable in
        `dtype`, so translating is an exact operation on the inputs and the displacement the code forms
        first is exact too: results must agree to rounding of the later float64 steps (1e-9), for
        float32 inputs to the float32 rounding of d2 and of the bbox area (|Δexp(-x)| <= x e^-x 2^-22 < 1e-6)."""
        ttol = 1e-9 if dtype == np.float64 else 5e-7
        off = np.array(offset, dtype=np.float64)
        G0 = np.array(gts, dtype=np.float64).reshape(len(gts), n_nodes, 2)
        P0 = np.array(prs, dtype=np.float64).reshape(len(prs), n_nodes, 2)
        G = (G0 + off).astype(dtype)
        Pm = (P0 + off).astype(dtype)
        case = dict(case, dtype=np.dtype(dtype).name, offset=list(offset), call_shape="2-D" if shape2d else "3-D")
        core = squeeze2d(compute_oks_any) if shape2d else compute_oks_any
        f = lambda g, p, sc=scale: core(g, p, scale=sc, stddev=stddev, use_cocoeval=coco)
        base = f(G, Pm)
        visg = ~np.isnan(G).any(-1)
        ok_rows = visg.sum(-1) >= 1
        bad = []
        if len(prs):
            v = base[ok_rows]
            if v.size and not (np.all(v >= -1e-12) and np.all(v <= 1 + 1e-12)):
                bad.append(("range", v.tolist()))
        # self
        if ok_rows.any():
            Gs = G[ok_rows]
            sc = scale if (scale is None or np.isscalar(scale)) else np.asarray(scale)[ok_rows]
            d = np.diag(f(Gs, Gs.copy(), sc))
            if not np.allclose(d, 1, atol=1e-12):
                bad.append(("self", d.tolist()))
        if len(prs) and len(gts):
            # ignores missing gt: perturb every prediction where gt row 0 is missing
            for i in range(len(gts)):
                if not ok_rows[i]:
                    continue
                P2 = Pm.copy()
                P2[:, ~visg[i]] = P2[:, ~visg[i]] + 7.25
                P3 = Pm.copy()
                P3[:, ~visg[i]] = np.nan
                a, b, c = base[i], f(G, P2)[i], f(G, P3)[i]
                if not (np.allclose(a, b, atol=1e-12, equal_nan=True) and np.allclose(a, c, atol=1e-12, equal_nan=True)):
                    bad.append(("ignores_missing_gt", i, a.tolist(), b.tolist(), c.tolist()))
            # missing prediction = complete miss; moving farther never increases
            k = rng.randrange(n_nodes)
            Pmiss = Pm.copy(); Pmiss[:, k] = np.nan
            Pfar = Pm.copy(); Pfar[:, k] = 1e6
            a, b = f(G, Pmiss), f(G, Pfar)
            if not np.allclose(a[ok_rows], b[ok_rows], atol=1e-12):
                bad.append(("missing_pred_is_miss", k))
            if not np.all(a[ok_rows] <= base[ok_rows] + 1e-12):
                bad.append(("missing_pred_not_below", k))
            for j in range(len(prs)):
                for i in range(len(gts)):
                    if not (ok_rows[i] and visg[i, k]) or np.isnan(Pm[j, k]).any():
                        continue
                    dirn = Pm[j, k] - G[i, k]
                    P2 = Pm.copy(); P2[j, k] = G[i, k] + dirn * 1.5 + (0.25 if not dirn.any() else 0)
                    if f(G, P2)[i, j] > base[i, j] + (1e-12 if dtype == np.float64 else 1e-7):
                        bad.append(("antitone", i, j, k))
            # translation of both poses
            t = np.array([q16(rng, -32, 32), q16(rng, -32, 32)])
            # translations are compared only when they are exact operations on the stored inputs (every
            # translated coordinate representable in `dtype`; not so e.g. for the 1/256-lattice "tiny"
            # poses at 65536 px in float32) - otherwise the inputs themselves differ by rounding
            exact = lambda a64: np.array_equal(a64.astype(dtype).astype(np.float64), a64, equal_nan=True)
            stored_exact = exact(G0 + off) and exact(P0 + off)
            if stored_exact and exact(G0 + off + t) and exact(P0 + off + t):
                if not np.allclose(f((G + t).astype(dtype), (Pm + t).astype(dtype)), base, atol=ttol, equal_nan=True):
                    bad.append(("translation", t.tolist()))
            else:
                chk.tag("translation_not_exact_skipped")
            if any(offset) and stored_exact and exact(G0) and exact(P0):
                at0 = f(G0.astype(dtype), P0.astype(dtype))
                if not np.allclose(at0, base, atol=ttol, equal_nan=True):
                    bad.append(("translation by the large common offset", at0.tolist(), base.tolist()))
            # instance reordering
            pg = list(range(len(gts))); rng.shuffle(pg)
            pp = list(range(len(prs))); rng.shuffle(pp)
            sc = scale if (scale is None or np.isscalar(scale)) else np.asarray(scale)[pg]
            if not np.array_equal(f(G[pg], Pm[pp], sc), base[np.ix_(pg, pp)], equal_nan=True):
                bad.append(("perm", pg, pp))
        # the *data* of a keypoint that is missing in the gt must not matter: vary the surviving
        # coordinate of every half-NaN gt keypoint (x, NaN) / (NaN, y)
        if len(prs) and len(gts):
            half = np.isnan(G).sum(-1) == 1
            if half.any():
                G2 = G.copy()
                G2[half] = np.where(np.isnan(G2[half]), np.nan, G2[half] + 37.5).astype(dtype)
                moved = f(G2, Pm)
                rows = half.any(-1) & ok_rows
                if not np.allclose(moved[rows], base[rows], atol=ttol, equal_nan=True):
                    chk.fail("OKS changes with the stored coordinate of a keypoint that is missing in the ground truth",
                             case, observed={"before": base[rows].tolist(), "after": moved[rows].tolist(),
                                             "half_nan_gt_points": G[half].tolist()},
                             signatures=[SIG_HALFNAN] if scale is None else [])
                chk.tag("half_nan_gt_oracle")
        for b in bad:
            chk.fail("OKS contract violated: " + str(b[0]), case, observed=b, signatures=[])
        return not bad

    def big_offset(dtype):
        """integer offsets at which the k/16 lattice (|coords| < 128) is still exact in `dtype`"""
        if dtype == np.float32:
            return rng.choice([(1024.0, 768.0), (4096.0, 2048.0), (65536.0, 4096.0), (1000.0, 3000.0)])
        return rng.choice([(1024.0, 768.0), (1e5, 3e4), (2.0 ** 27, 2.0 ** 26), (1e8, 1e8), (1e8, 0.0)])

    def oks_history_oracle(gts, prs, scale, stddev, coco, n_nodes, case):
        """`compute_oks` must be a pure function: the same argument objects are passed three times;
        every argument must be bit-identical afterwards and every result equal to the first."""
        G = np.array(gts, dtype=np.float64).reshape(len(gts), n_nodes, 2)
        Pm = np.array(prs, dtype=np.float64).reshape(len(prs), n_nodes, 2)
        args = {"points_gt": G, "points_pr": Pm}
        if scale is not None and not np.isscalar(scale):
            args["scale"] = scale
        if not np.isscalar(stddev):
            args["stddev"] = stddev
        before = {k: v.copy() for k, v in args.items()}
        outs = []
        for _ in range(3):
            r = call(compute_oks_any, G, Pm, scale=scale, stddev=stddev, use_cocoeval=coco)
            outs.append(r)
        bad = []
        for k, v in args.items():
            if v.dtype != before[k].dtype or not np.array_equal(v, before[k], equal_nan=True):
                bad.append((f"argument `{k}` was modified by the call", before[k].tolist(), v.tolist()))
        if all(o[0] == "ok" for o in outs):
            for i in (1, 2):
                if not np.array_equal(outs[0][1], outs[i][1], equal_nan=True):
                    bad.append((f"call {i + 1} with the same arguments returned a different result",
                                outs[0][1].tolist(), outs[i][1].tolist()))
                    break
        for b in bad:
            chk.fail("compute_oks is not a pure function: " + b[0], case, observed=b[1:], signatures=[])
        # leave the caller's arrays as they were, whatever happened
        for k, v in args.items():
            v[...] = before[k]
        return not bad

    n_oks = (1 if REPLAY.get("oks") else 0) if REPLAY else chk.n(260, 4000)
    lines, metas = [], []
    for it in range(n_oks):
        n_nodes = rng.choice([1, 2, 3, 3, 4, 5, 6, 9])
        n_gt = rng.choice([0, 1, 1, 1, 2, 2, 3, 4])
        n_pr = rng.choice([0, 1, 1, 1, 2, 3, 4])
        # storage variant: float64 at small coordinates (default), or float32 / float64 poses translated
        # to ordinary image coordinates (1e3..6e4 px) / far from the origin (up to 1e8) - exactly
        u = rng.random()
        if u < 0.6:
            dt, off = np.float64, (0.0, 0.0)
        elif u < 0.7:
            dt, off = np.float32, (0.0, 0.0)
        else:
            dt = rng.choice([np.float32, np.float64])
            off = big_offset(dt)
        gts, tags = [], [np.dtype(dt).name, "offset:" + ("0" if not any(off) else f"1e{len(str(int(max(off)))) - 1}")]
        for _ in range(n_gt):
            g, k = nan_pattern(rng, gen_instance(rng, n_nodes))
            gts.append(g); tags.append("gtnan:" + k)
        prs = []
        for _ in range(n_pr):
            p, k = nan_pattern(rng, gen_pred(rng, gts, n_nodes))
            prs.append(p); tags.append("prnan:" + k)
        coco = rng.random() < 0.6
        smode = rng.choice(["none", "none", "scalar", "array", "zero"])
        if smode == "none":
            scale, scales = None, [None] * n_gt
        elif smode == "scalar":
            s = q16(rng, 1, 900); scale, scales = s, [s] * n_gt
        elif smode == "zero":
            scale, scales = 0.0, [0.0] * n_gt
        else:
            scales = [q16(rng, 1, 900) for _ in range(n_gt)]; scale = np.array(scales, dtype=np.float64)
        if rng.random() < 0.6:
            sd = rng.choice([0.025, 0.05, 0.072, 0.107, 0.5]); stddev, sds = sd, [sd] * n_nodes
        else:
            sds = [rng.choice([0.025, 0.05, 0.072, 0.107, 0.25]) for _ in range(n_nodes)]
            stddev = np.array(sds, dtype=np.float64)
        if REPLAY.get("oks"):   # `bin/check C15 --replay <file>`: the recorded compute_oks case only
            c = REPLAY["oks"]
            gts = [np.array(g, dtype=np.float64) for g in c["gt"]]
            prs = [np.array(q, dtype=np.float64) for q in c["pr"]]
            n_gt, n_pr = len(gts), len(prs)
            n_nodes = len(c["stddev"]) if isinstance(c["stddev"], list) else (len((gts + prs)[0]) if gts + prs else 1)
            coco = c["use_cocoeval"]
            dt = np.float32 if c.get("dtype") == "float32" else np.float64
            off = tuple(c.get("offset", (0.0, 0.0)))
            sc = c.get("scale")
            if sc is None:
                smode, scale, scales = "none", None, [None] * n_gt
            elif isinstance(sc, list):
                smode, scale, scales = "array", np.array(sc, dtype=np.float64), list(sc)
            else:
                smode, scale, scales = "scalar", float(sc), [float(sc)] * n_gt
            if isinstance(c["stddev"], list):
                sds = list(c["stddev"]); stddev = np.array(sds, dtype=np.float64)
            else:
                stddev = float(c["stddev"]); sds = [stddev] * n_nodes
            tags = ["replay"]
        tags += ["scale:" + smode, "coco" if coco else "paper", f"gt{n_gt}", f"pr{n_pr}"]
        offa = np.array(off)
        garr = [(g + offa).astype(dt) for g in gts]
        parr = [(p_ + offa).astype(dt) for p_ in prs]
        exact_op = dt != np.float64 or any(off)
        lines.append(oks_line(coco, sds, garr, scales, parr, op="oksr" if exact_op else "oks"))
        metas.append((gts, prs, scale, stddev, coco, n_nodes, tags, smode, dt, off, garr, parr))
        # exact sub-quantities
        for g in gts:
            lines.append("area " + fpts(g)); metas.append(("area", g))
    outs = run_driver("C15.lean", lines)
    worst = worst32 = 0.0
    idx = -1
    for line, meta, out in zip(lines, metas, outs):
        if meta[0] == "area":
            g = meta[1]
            r = call(ev.compute_instance_area, g)
            model = unrat(out)
            impl = nan2none(r[1][0]) if r[0] == "ok" else r
            good = (model is None and impl is None) or (model is not None and isinstance(impl, float)
                                                         and abs(Fraction(impl) - model) <= Fraction(1, 10**12) * max(1, abs(model)))
            chk.case(None)
            if not good:
                chk.disagree("compute_instance_area vs Oks.area", {"points": g.tolist()}, str(impl), str(model))
            continue
        gts, prs, scale, stddev, coco, n_nodes, tags, smode, dt, off, garr, parr = meta
        idx += 1
        case = {"gt": [g.tolist() for g in gts], "pr": [p.tolist() for p in prs], "scale": smode and (
            None if scale is None else (scale if np.isscalar(scale) else scale.tolist())),
            "stddev": stddev if np.isscalar(stddev) else stddev.tolist(), "use_cocoeval": coco,
            "dtype": np.dtype(dt).name, "offset": list(off)}
        # call history first (fresh argument objects): compute_oks must not touch its arguments
        if not np.isscalar(stddev) or (scale is not None and not np.isscalar(scale)) or idx % 5 == 0:
            oks_history_oracle(gts, prs, scale, stddev, coco, n_nodes, case)
        tol = TOL if dt == np.float64 else 5e-7   # float32 inputs: d2 and the bbox area are rounded to float32 (bound 2.6e-7, observed <= 8e-9)
        r = call(lambda: compute_oks_any(np.array(garr, dtype=dt).reshape(len(garr), n_nodes, 2),
                                         np.array(parr, dtype=dt).reshape(len(parr), n_nodes, 2),
                                         scale=scale, stddev=stddev, use_cocoeval=coco))
        model = parse_oks(out)
        if state.get("last_direct_raise"):
            chk.disagree("compute_oks raised IndexError (n_pr != 1) where the model returns the matrix", case, "raise", "ok")
        if r[0] != "ok":
            chk.case(None, tags=tags)
            chk.disagree("compute_oks raised", case, r, "ok")
            continue
        impl = [[nan2none(v) for v in row] for row in r[1]]
        same = (len(impl) == len(model)) and all(
            len(a) == len(b) and all(close(x, y, tol) for x, y in zip(a, b)) for a, b in zip(impl, model))
        for a, b in zip(impl, model):
            for x, y in zip(a, b):
                if x is not None and y is not None and dt == np.float64:
                    worst = max(worst, abs(x - y))
                elif x is not None and y is not None:
                    worst32 = max(worst32, abs(x - y))
        nontrivial = len(gts) and len(prs)
        chk.case(("oks", line) if nontrivial else None,
                 sample={"op": "compute_oks", **case, "impl": impl} if nontrivial and idx % 40 == 0 else None, tags=tags)
        if not same:
            chk.disagree("compute_oks vs Oks.oksMatrix (" + line.split()[0] + ")", case, impl, model)
        # the oracle is cheap: every 4th case and every disagreement at the stored dtype/offset; every
        # translated / float32 case additionally at its own storage variant
        if not same or idx % 4 == 0:
            oks_property_oracle(gts, prs, scale, stddev, coco, n_nodes, case)
        if dt != np.float64 or any(off):
            oks_property_oracle(gts, prs, scale, stddev, coco, n_nodes, case, dtype=dt, offset=off)
        # the tracker's calling convention: 2-D arguments for a single instance (both, or mixed with 3-D)
        if (len(garr) == 1 or len(parr) == 1) and r[0] == "ok":
            G3 = np.array(garr, dtype=dt).reshape(len(garr), n_nodes, 2)
            P3 = np.array(parr, dtype=dt).reshape(len(parr), n_nodes, 2)
            kw = dict(scale=scale, stddev=stddev, use_cocoeval=coco)
            variants = [(G3[0] if len(garr) == 1 else G3, P3[0] if len(parr) == 1 else P3)]
            if len(garr) == 1 and len(parr) == 1:
                variants += [(G3[0], P3), (G3, P3[0])]
            for Gv, Pv in variants:
                r2 = call(compute_oks_any, Gv, Pv, **kw)
                chk.tag(f"call_shape:{Gv.ndim}D-{Pv.ndim}D")
                if r2[0] != "ok" or r2[1].shape != r[1].shape or not np.array_equal(r2[1], r[1], equal_nan=True):
                    chk.disagree("compute_oks with 2-D (n_nodes, 2) arguments vs the (1, n_nodes, 2) call / model",
                                 dict(case, call_shape=f"{Gv.ndim}D-{Pv.ndim}D"),
                                 str(r2[1].tolist() if r2[0] == "ok" else r2)[:300], str(impl)[:300])
            if idx % 2 == 0:
                oks_property_oracle(gts, prs, scale, stddev, coco, n_nodes, case, dtype=dt, offset=off, shape2d=True)
    chk.extra["oks_max_abs_diff"] = worst
    chk.extra["oks_max_abs_diff_float32_inputs"] = worst32

    # ================================================================== 2. match_instances
    n_match = (1 if REPLAY.get("match") else 0) if REPLAY else chk.n(220, 3000)
    lines, metas = [], []
    for it in range(n_match):
        n_nodes = rng.choice([2, 3, 3, 4, 5])
        n_gt = rng.choice([0, 1, 2, 2, 3, 3, 4])
        n_pr = rng.choice([0, 1, 2, 2, 3, 4, 5])
        crowded = rng.random() < 0.5
        centre = (q16(rng, 16, 48), q16(rng, 16, 48))
        gts = []
        for i in range(n_gt):
            if gts and rng.random() < 0.15:
                g = gts[rng.randrange(len(gts))].copy()  # duplicated animal → exact OKS ties
            else:
                g, _ = nan_pattern(rng, gen_instance(rng, n_nodes, box=centre if crowded else None),
                                   allow_all=rng.random() < 0.3)
            gts.append(g)
        prs = []
        for j in range(n_pr):
            if prs and rng.random() < 0.15:
                prs.append(prs[rng.randrange(len(prs))].copy())
            else:
                prs.append(nan_pattern(rng, gen_pred(rng, gts, n_nodes))[0])
        # scores incl. exactly 0.0 (valid, the sleap-io default), -0.0, denormal / tiny positives and 1.0; 12 % of the
        # frames have ALL scores 0.0.  The score orders the predictions, it does not decide which ones take part.
        u_sc = rng.random()
        if u_sc < 0.12:
            scores = [0.0] * n_pr
        elif u_sc < 0.4:
            scores = [rng.choice([0.0, 0.0, -0.0, 5e-324, 1e-12, 1.0, 0.5, rng.random()]) for _ in range(n_pr)]
        else:
            scores = [rng.choice([0.25, 0.5, 0.5, 0.75, 0.9, rng.random()]) for _ in range(n_pr)]
        thr = rng.choice([0, 0, 0, 0.1, 0.3, 0.5])
        scale = rng.choice([None, None, q16(rng, 1, 400)])
        stddev = rng.choice([0.025, 0.05, 0.107, 0.5])
        if REPLAY.get("match"):   # the recorded match_instances case only
            c = REPLAY["match"]
            gts = [np.array(g, dtype=np.float64) for g in c["gt"]]
            prs = [np.array(q, dtype=np.float64) for q in c["pr"]]
            n_gt, n_pr = len(gts), len(prs)
            n_nodes = len((gts + prs)[0]) if gts + prs else 2
            scores, thr, scale, stddev = list(c["scores"]), c["threshold"], c["scale"], c["stddev"]
        vis_style = (REPLAY.get("match") or {}).get("invisible_style", rng.choice([0, 0, 1, 2]))
        fg, fp, gi, pi = frames_of(gts, prs, scores, n_nodes, style=vis_style)
        # what match_instances sees is Instance.numpy() (sleap_io turns a point whose x is NaN into
        # (NaN, NaN) and keeps (x, NaN)); the model gets exactly those arrays
        gts = [g.numpy() for g in gi]
        prs = [p_.numpy() for p_ in pi]
        if n_gt and n_pr:
            M = compute_oks_any(np.stack(gts), np.stack(prs), scale=scale, stddev=stddev)
        else:
            M = np.zeros((n_gt, n_pr))
        flat = [nan2none(v) for v in M.reshape(-1)]
        lines.append(f"match {rat(thr)} {lst(scores, rat)} {n_gt} {n_pr} " + " ".join(rat(v) for v in flat))
        metas.append((gts, prs, scores, thr, scale, stddev, fg, fp, gi, pi, M, vis_style))
    outs = run_driver("C15.lean", lines)
    frame_results = []
    for line, meta, out in zip(lines, metas, outs):
        gts, prs, scores, thr, scale, stddev, fg, fp, gi, pi, M, vis_style = meta
        case = {"gt": [g.tolist() for g in gts], "pr": [p.tolist() for p in prs], "scores": scores,
                "threshold": thr, "scale": scale, "stddev": stddev, "invisible_style": vis_style}
        asis, ppart, fpart = [s.strip() for s in out.split("|")]
        pt = ppart.split()
        m_pairs = [(int(pt[1 + 3 * k]), int(pt[2 + 3 * k]), float(unrat(pt[3 + 3 * k]))) for k in range(int(pt[0]))]
        m_fn = [int(x) for x in fpart.split()[1:]]
        r = call(ev.match_instances, fg, fp, stddev=stddev, scale=scale, threshold=thr)
        tags = [f"gt{len(gts)}", f"pr{len(prs)}", f"thr{thr}", f"invisible_style{vis_style}"] + (
            ["has_score_exactly_0"] if any(s_ == 0.0 for s_ in scores) else []) + (
            ["all_scores_0"] if scores and all(s_ == 0.0 for s_ in scores) else [])
        if r[0] == "ok":
            pairs, fns = r[1]
            gidx = lambda mi: next(i for i, x in enumerate(gi) if x is mi.instance)
            pidx = lambda mi: next(i for i, x in enumerate(pi) if x is mi.instance)
            i_pairs = [(gidx(a), pidx(b), float(v)) for a, b, v in pairs]
            i_fn = [gidx(a) for a in fns]
            impl = ("ok", i_pairs, i_fn)
        else:
            impl = r
        model = ("ok", m_pairs, m_fn)
        # margins (for the record; decisions are exact on identical floats)
        nontrivial = len(gts) >= 1 and len(prs) >= 1
        chk.case(("match", line) if nontrivial else None,
                 sample={"op": "match_instances", **case, "impl": str(impl)[:300]} if nontrivial and it % 50 == 0 else None,
                 tags=tags + [f"matched{len(m_pairs)}"])
        frame_results.append((fg, fp, impl, (stddev, scale, thr)))
        if impl == model:
            pass
        else:
            chk.disagree("match_instances vs Oks.matchInstances@Rat", case, impl, model)
        # identical poses: exact copies of the (pairwise distinguishable) gt instances, listed in another order and
        # carrying this case's scores (0.0 included), must all be matched at OKS 1, whatever their score
        visn = lambda g: ~np.isnan(g).any(-1)
        real = [i for i, g in enumerate(gts) if visn(g).any()]
        disting = all(not np.array_equal(gts[i][visn(gts[i])], gts[j][visn(gts[i])], equal_nan=False)
                      for i in real for j in real if i != j)
        if real and disting and thr < 1:
            order = list(range(len(gts))); rng.shuffle(order)
            sc_c = [(scores[k % len(scores)] if scores else 0.0) for k in range(len(gts))]
            cfg, cfp, cgi, cpi = frames_of(gts, [gts[i] for i in order], sc_c, gts[0].shape[0], style=vis_style)
            rc_ = call(ev.match_instances, cfg, cfp, stddev=stddev, scale=scale, threshold=thr)
            chk.tag("copies_oracle")
            okc = rc_[0] == "ok" and len(rc_[1][0]) == len(real) and all(float(v) == 1.0 for _, _, v in rc_[1][0]) \
                and len(rc_[1][1]) == len(gts) - len(real)
            if not okc:
                chk.fail("predictions identical to the ground truth are not all matched at OKS 1",
                         {**case, "pr": [gts[i].tolist() for i in order], "scores": sc_c},
                         observed=str(rc_ if rc_[0] != "ok" else ([float(v) for _, _, v in rc_[1][0]], len(rc_[1][1])))[:300])
        # property oracle (independent of the model)
        if impl[0] == "ok":
            _, ip, ifn = impl
            gs = [a for a, _, _ in ip]
            ps = [b for _, b, _ in ip]
            bad = []
            if len(set(gs)) != len(gs):
                bad.append("gt matched twice")
            if len(set(ps)) != len(ps):
                bad.append("prediction matched twice")
            if sorted(gs + ifn) != list(range(len(gts))):
                bad.append("matched + missed != all gt")
            if any(not (v > thr) for _, _, v in ip):
                bad.append("pair at or below threshold")
            if any(M[a, b] != v for a, b, v in ip):
                bad.append("reported OKS is not compute_oks(gt, pr)")
            for b in bad:
                chk.fail("matching contract violated: " + b, case, observed=impl, signatures=[])
        else:
            sig = [SIG_EMPTY_GT] if (len(gts) == 0 and len(prs) >= 1 and impl[1] == "ValueError"
                                     and "at least one array" in impl[2]) else []
            chk.fail("match_instances raised", case, observed=impl, signatures=sig)
    # match_frame_pairs(frame_pairs, stddev, scale, threshold) = concatenation of the per-frame results:
    # frames are grouped by the (stddev, scale, threshold) they were matched with, so the pass-through
    # of all three arguments is compared (identity of the instances, OKS values, order)
    groups = {}
    for fg, fp, im, params in frame_results:
        if im[0] == "ok":
            groups.setdefault(params, []).append((fg, fp, im))
    for params, members in groups.items():
        stddev_, scale_, thr_ = params
        for k in range(0, len(members), 4):
            chunk = members[k:k + 4]
            r = call(ev.match_frame_pairs, [(a, b) for a, b, _ in chunk], stddev=stddev_, scale=scale_, threshold=thr_)
            chk.case(None, tags=["frame_pairs"])
            if r[0] != "ok":
                chk.disagree("match_frame_pairs raised", {"params": params}, r, "ok")
                continue
            got_p = [(id(a.instance), id(b.instance), float(v)) for a, b, v in r[1][0]]
            got_f = [id(a.instance) for a in r[1][1]]
            exp_p, exp_f = [], []
            for a, b, im in chunk:
                res = ev.match_instances(a, b, stddev=stddev_, scale=scale_, threshold=thr_)
                exp_p += [(id(x.instance), id(y.instance), float(v)) for x, y, v in res[0]]
                exp_f += [id(x.instance) for x in res[1]]
            if got_p != exp_p or got_f != exp_f:
                chk.disagree("match_frame_pairs vs concatenated match_instances (stddev/scale/threshold pass-through)",
                             {"params": params, "n_frames": len(chunk)}, (len(got_p), len(got_f)), (len(exp_p), len(exp_f)))
                chk.fail("match_frame_pairs does not equal the per-frame matching with the same stddev/scale/threshold",
                         {"params": params, "frames": [[i_.numpy().tolist() for i_ in a.instances] for a, _, _ in chunk],
                          "predictions": [[(float(i_.score), i_.numpy().tolist()) for i_ in b.instances] for _, b, _ in chunk]},
                         observed={"pairs": [v for _, _, v in got_p], "expected": [v for _, _, v in exp_p],
                                   "n_fn": len(got_f), "expected_n_fn": len(exp_f)})

    # ================================================================== 3. tracking/utils
    n_g = 0 if REPLAY else chk.n(150, 2000)
    lines, metas = [], []
    for it in range(n_g):
        n, m = rng.randrange(0, 6), rng.randrange(0, 6)
        if rng.random() < 0.8:
            vals = rng.sample(range(-40, 200), n * m)  # distinct costs
            C = [[vals[i * m + j] / 8.0 for j in range(m)] for i in range(n)]
        else:
            C = [[rng.randrange(0, 4) / 2.0 for j in range(m)] for i in range(n)]  # ties
        if rng.random() < 0.2:
            # infeasible pairs: `scores_to_cost_matrix` (tracker.py) writes inf for them
            for i in range(n):
                for j in range(m):
                    if rng.random() < 0.25:
                        C[i][j] = float("inf")
        BIG = 10 ** 9  # the model orders inf as a cost above every finite one (ties among infs = cost ties)
        lines.append(f"greedy {n} {m} " + " ".join(rat(BIG if c == float("inf") else c) for row in C for c in row))
        metas.append(("greedy", C, n, m))
    outs = run_driver("C15.lean", lines)
    lsa_lines, lsa_meta = [], []
    for gidx_, (line, (_, C, n, m), out) in enumerate(zip(lines, metas, outs)):
        A = np.array(C, dtype=np.float64).reshape(n, m)
        t = out.split()
        model = [(int(t[1 + 2 * k]), int(t[2 + 2 * k])) for k in range(int(t[0]))]
        r = call(tu.greedy_matching, A)
        flatc = [c for row in C for c in row]
        tie = len(set(flatc)) != len(flatc)
        case = {"cost": C}
        if r[0] == "ok":
            impl = list(zip([int(x) for x in r[1][0]], [int(x) for x in r[1][1]]))
        else:
            impl = r
        chk.case(("greedy", line) if n and m else None,
                 tags=["greedy", "greedy_tie" if tie else "greedy_distinct"] + (["cost_inf"] if np.isinf(A).any() else []),
                 sample={"op": "greedy_matching", **case, "impl": impl} if it == 3 else None)
        if impl != model:
            if tie and r[0] == "ok":
                chk.knife_edges += 1  # argsort (quicksort) leaves the order among equal costs open
            else:
                chk.disagree("greedy_matching vs Oks.greedyMatching@Rat", case, impl, model)
        if r[0] == "ok":
            rows = [a for a, _ in impl]; cols = [b for _, b in impl]
            bad = []
            if len(set(rows)) != len(rows) or len(set(cols)) != len(cols):
                bad.append("row or column used twice")
            if len(impl) != min(n, m):
                bad.append("not maximal")
            used_r, used_c = set(), set()
            for a, b in impl:
                free = [A[i, j] for i in range(n) for j in range(m) if i not in used_r and j not in used_c]
                if free and A[a, b] > min(free):
                    bad.append("not the cheapest free edge")
                used_r.add(a); used_c.add(b)
            for b in bad:
                chk.fail("greedy_matching contract violated: " + b, case, observed=impl)
        # Hungarian: the solver is a parameter of the model; its contract is checked on scipy's output
        if gidx_ < chk.n(100, 800):
            rh = call(tu.hungarian_matching, A)
            feasible = n == 0 or m == 0 or min(
                sum(A[r_, c_] for r_, c_ in zip(rs, cs))
                for rs in itertools.combinations(range(n), min(n, m))
                for cs in itertools.permutations(range(m), min(n, m))) < float("inf")
            if rh[0] == "raise" and not feasible and rh[1] == "ValueError" and "infeasible" in rh[2]:
                chk.tag("hungarian_infeasible")   # scipy's documented behaviour; no assignment exists
            elif rh[0] == "ok":
                hp = list(zip([int(x) for x in rh[1][0]], [int(x) for x in rh[1][1]]))
                lsa_lines.append(f"lsa {n} {m} " + lst(hp, lambda e: f"{e[0]} {e[1]}"))
                lsa_meta.append((C, n, m, hp, A))
            else:
                chk.disagree("hungarian_matching raised", case, rh, "ok")
    outs = run_driver("C15.lean", lsa_lines)
    for (C, n, m, hp, A), out in zip(lsa_meta, outs):
        chk.case(None, tags=["hungarian"])
        if out.strip() != "1":
            chk.disagree("hungarian_matching output is not an assignment (LsaSpec)", {"cost": C}, hp, "isAssignment=false")
            chk.fail("hungarian_matching is not one-to-one / complete", {"cost": C}, observed=hp)
        elif n and m and n <= 4 and m <= 4:
            cost = sum(A[a, b] for a, b in hp)
            k = min(n, m)
            best = min(sum(A[r_, c_] for r_, c_ in zip(rs, cs))
                       for rs in itertools.combinations(range(n), k) for cs in itertools.permutations(range(m), k))
            if cost > best + 1e-9:
                chk.fail("hungarian_matching is not optimal", {"cost": C}, observed=(hp, cost, best))

    # IoU / cosine / euclid
    lines, metas = [], []
    for it in range(0 if REPLAY else chk.n(150, 2000)):
        def box():
            x0, y0 = rng.randrange(0, 80) / 4.0, rng.randrange(0, 80) / 4.0
            w, h = rng.choice([0, 0.25, 1, 3, 7.5, 20]), rng.choice([0, 0.25, 1, 3, 7.5, 20])
            return [x0, y0, x0 + w, y0 + h]
        a = box()
        b = rng.choice([box(), list(a), [a[0] + 1, a[1], a[2] + 1, a[3]]])
        lines.append("iou " + " ".join(rat(v) for v in a + b)); metas.append(("iou", a, b))
        n = rng.randrange(1, 6)
        u = [rng.randrange(-32, 33) / 4.0 for _ in range(n)]
        v = rng.choice([[rng.randrange(-32, 33) / 4.0 for _ in range(n)], list(u), [-x for x in u]])
        if any(u) and any(v):
            lines.append("cosine " + lst(u, rat) + " " + lst(v, rat)); metas.append(("cosine", u, v))
        lines.append("euclid " + lst(u, rat) + " " + lst(v, rat)); metas.append(("euclid", u, v))
    outs = run_driver("C15.lean", lines)
    for (op, a, b), out in zip(metas, outs):
        case = {"op": op, "a": a, "b": b}
        if op == "iou":
            impl = call(tu.compute_iou, np.array(a), np.array(b))
            model = unrat(out)
            ok = impl[0] == "ok" and abs(Fraction(float(impl[1])) - model) <= Fraction(1, 10**12)
            chk.case(("iou", tuple(a), tuple(b)), tags=["iou"])
            if not ok:
                chk.disagree("compute_iou vs Oks.iou@Rat", case, str(impl), str(model))
            if impl[0] == "ok":
                v = float(impl[1]); w = float(tu.compute_iou(np.array(b), np.array(a)))
                s = float(tu.compute_iou(np.array(a), np.array(a)))
                if not (0 <= v <= 1) or v != w or s != 1.0:
                    chk.fail("IoU contract violated (range/symmetry/self)", case, observed=(v, w, s))
        else:
            fn = tu.compute_cosine_sim if op == "cosine" else tu.compute_euclidean_distance
            impl = call(fn, np.array(a), np.array(b))
            model = unrat(out)
            chk.case(None, tags=[op])
            if not (impl[0] == "ok" and close(float(impl[1]), model)):
                chk.disagree(f"{fn.__name__} vs model@Float", case, str(impl), str(model))
            elif op == "cosine":
                v = float(impl[1]); w = float(tu.compute_cosine_sim(np.array(b), np.array(a)))
                if not (-1 - 1e-12 <= v <= 1 + 1e-12) or abs(v - w) > 1e-12:
                    chk.fail("cosine similarity outside [-1,1] or asymmetric", case, observed=(v, w))
            else:
                A, B = np.array(a), np.array(b)
                Cv = np.array([rng.randrange(-32, 33) / 4.0 for _ in a])
                d = lambda x, y: -float(tu.compute_euclidean_distance(x, y))
                bad = []
                if d(A, B) < 0 or d(A, B) != d(B, A):
                    bad.append("negative or asymmetric")
                if (d(A, B) == 0) != (a == b):
                    bad.append("zero iff equal")
                if d(A, Cv) > d(A, B) + d(B, Cv) + 1e-9:
                    bad.append("triangle inequality")
                for x in bad:
                    chk.fail("euclidean distance contract violated: " + x, {**case, "c": Cv.tolist()},
                             observed=(d(A, B), d(B, A), d(A, Cv), d(B, Cv)))


if __name__ == "__main__":
    chk = Check(
        "C15", module="SleapVerif.Props.C15", theorems=THEOREMS,
        build_targets=["SleapVerif.Model.Proto", "SleapVerif.Model.Oks"],
        trusted=[
            "Lean 4 kernel + Mathlib; the hand-written model SleapVerif.Oks mirrors evaluation.py / tracking/utils.py "
            "(tied by this correspondence run, not by construction)",
            "float64 arithmetic behaves like field arithmetic up to 1e-9 on the explored inputs (measured: oks_max_abs_diff); "
            "float32 inputs: up to 1e-6 (d2 and bbox area are formed in float32; measured: oks_max_abs_diff_float32_inputs)",
            "exp enters as a parameter with the Transc laws (realTransc shows they are satisfiable); Float.exp ~ np.exp",
            "scipy.optimize.linear_sum_assignment is a parameter (LsaSpec); its output is checked against the spec each run",
            "match_instances reads instances through Instance.numpy() (invisible nodes -> NaN); instances are built through the "
            "sleap-io API with missing nodes stored as NaN or as finite coordinates + visible=False, the model works on the "
            "numpy() abstraction",
            "the matching correspondence runs the model on the OKS matrix the real compute_oks returns for the frame "
            "(a compute_oks defect is the business of part 1, the matching part would not see it)",
        ],
        rule="seeded generator: 0-4 gt x 0-5 predictions x 1-9 nodes on the k/16 lattice, stored as float64 or float32, at the "
             "origin or translated by a large common offset (1e3..6.5e4 px float32, up to 1e8 float64); call histories that "
             "reuse the same argument objects; NaN patterns (point, single "
             "coordinate, whole instance), degenerate boxes (line, point, tiny), scale None/scalar/array/0, stddev scalar/array, "
             "both normalisations; distinct = distinct driver line with >=1 gt and >=1 prediction (oks, match) or non-empty "
             "cost matrix (greedy) or distinct box pair (iou)",
        assumptions=[
            "prediction frames contain only PredictedInstance objects (a user Instance in the prediction frame shifts the "
            "score index in match_instances; outside the property's quantifier)",
            "2-D points; finite coordinates; stddev > 0; scale >= 0 (at stddev = 0 or scale + eps = 0 the code computes 0/0 = NaN "
            "where the field model has x/0 = 0; the theorems carry the positivity hypotheses)",
            "a ground-truth instance without any visible keypoint has OKS NaN (0/0) against every prediction: outside the [0,1] "
            "clause by hypothesis (`oks_none_iff`), such rows are never matched (`match_nan_row_is_false_negative`)",
            "len(stddev) = n_nodes and equal node counts of gt and predictions (the code raises in reshape, the model zips)",
            "detection scores are finite numbers (NaN scores are not generated)",
        ],
    )
    run_check(chk, main, replay)
