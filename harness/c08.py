"""C08 — peak grouping always terminates with a partition of the detected peaks.

Model: lean/SleapVerif/Model/Grouping.lean; theorems: lean/SleapVerif/Props/C08.lean.

Correspondence (every run, real code in-process):
  * `PAFScorer.predict` on whole batches and, per sample, `PAFScorer.score_paf_lines` →
    `match_candidates` → `group_instances` vs the Lean driver (`sample` op): candidate list,
    the cost matrix scipy actually received, per-edge matches, final instances (NaN pattern and
    coordinates exactly, instance scores to float32 accumulation tolerance).
  * `assign_connections_to_instances` + `make_predicted_instances` on arbitrary connection dicts
    (not only tree-ordered ones: all four code cases, the KeyError/assert paths) vs the `assign` op.
  * scipy's `linear_sum_assignment` is the model's *parameter*: a recording wrapper captures
    (matrix, answer) for every call, the answer is validated against the assumed contract `LsaSpec`
    by brute force and then fed to the model as its `lsa`.
The line scores are inputs of the model (their arithmetic is C03's); they are read off the
implementation's own `score_paf_lines` output, exactly (float32 → rational).
"""
import itertools
import json
import math
from fractions import Fraction

from common import CORPUS, Check, call, import_repo, lst, rat, run_check, run_driver

THEOREMS = [
    "SleapVerif.C08.assign_only_cases_1_2",
    "SleapVerif.C08.assign_classes_eq_components",
    "SleapVerif.C08.instance_one_peak_per_node",
    "SleapVerif.C08.peaks_disjoint",
    "SleapVerif.C08.instance_peaks_are_inputs",
    "SleapVerif.C08.min_score_filtered",
    "SleapVerif.C08.small_instances_dropped_whole",
    "SleapVerif.C08.instance_score_sum",
    "SleapVerif.C08.assert_never_fires",
    "SleapVerif.C08.tree_conns",
    "SleapVerif.C08.matches_one_to_one",
    "SleapVerif.C08.matches_optimal",
    "SleapVerif.C08.matches_fixed_eq_asIs_when_valid",
    "SleapVerif.C08.matches_fixed_optimal_when_feasible",
    "SleapVerif.C08.matches_fixed_lex_optimal",
    "SleapVerif.C08.matches_any_size_counterexample",
    "SleapVerif.C08.run_matches_lex_optimal",
    "SleapVerif.C08.run_matches_optimal",
    "SleapVerif.C08.run_instances",
    "SleapVerif.C08.assigned_peak_in_row",
    "SleapVerif.C08.min_peaks_code_rule",
    "SleapVerif.C08.grouping_call_independent",
    "SleapVerif.C08.exLsaOK",
    "SleapVerif.C08.ex2LsaOK",
    "SleapVerif.C08.final_classes_eq_components",
    "SleapVerif.C08.grouping_total",
    "SleapVerif.C08.grouping_total_batch",
    "SleapVerif.C08.candidates_complete",
    "SleapVerif.C08.grouping_total_partial",
    "SleapVerif.C08.grouping_infeasible_counterexample",
]

SIG = "coincident_src_dst_peak"
WITNESS = {"part_names": ["a", "b"], "edges": [["a", "b"]], "pafs_stride": 2, "paf_hw": [8, 8],
           "peaks": [[4.0, 4.0], [4.0, 4.0]], "vals": [1.0, 1.0], "channels": [0, 1]}


# ------------------------------------------------------------------ small helpers
def F(x):
    x = float(x)
    return None if (x != x or math.isinf(x)) else Fraction(x)


def brute_matchings(nr, nc, size):
    """all one-to-one assignments of exactly `size` (row, col) pairs"""
    for rows in itertools.combinations(range(nr), size):
        for cols in itertools.permutations(range(nc), size):
            yield list(zip(rows, cols))


def lsa_contract(matrix, ans):
    """LsaSpec on one recorded scipy call.  matrix: list of rows of Fraction|None (None = inf).
    ans: list of (i, j) or None (raised infeasible).  Returns an error string or None."""
    nr = len(matrix)
    nc = len(matrix[0]) if nr else 0
    m = min(nr, nc)
    best = None
    for M in brute_matchings(nr, nc, m):
        if all(matrix[i][j] is not None for i, j in M):
            c = sum(matrix[i][j] for i, j in M)
            if best is None or c < best:
                best = c
    if ans is None:
        return None if best is None else f"raised although a finite saturating matching of cost {best} exists"
    if best is None:
        return "returned a matching although none is feasible"
    rows = [i for i, _ in ans]
    cols = [j for _, j in ans]
    if len(ans) != m or len(set(rows)) != m or len(set(cols)) != m:
        return f"not a saturating one-to-one matching: {ans}"
    if any(not (0 <= i < nr and 0 <= j < nc) for i, j in ans):
        return f"out of range: {ans}"
    if any(matrix[i][j] is None for i, j in ans):
        return f"uses an infinite entry: {ans}"
    c = sum(matrix[i][j] for i, j in ans)
    if c - best > Fraction(1, 10**9) * (1 + abs(best)):
        return f"cost {float(c)} is not minimal ({float(best)})"
    return None


# ------------------------------------------------------------------ generators
def random_tree(rng, n):
    order = list(range(n))
    rng.shuffle(order)
    shape = rng.choice(["uniform", "path", "star", "bushy"])
    edges = []
    for i in range(1, n):
        p = {"path": i - 1, "star": 0, "bushy": rng.randrange(max(0, i - 2), i)}.get(shape, rng.randrange(i))
        edges.append((order[p], order[i]))
    rng.shuffle(edges)
    return edges


def new_val(rng, used):
    """a peak value not yet used for this node type (the oracle identifies a peak by (node, value), so
    that peaks of one node type may coincide in space)"""
    while True:
        v = rng.randrange(1, 257) / 256.0
        if v not in used:
            used.add(v)
            return v


PATTERNS = ["E", "EE", "EEE", "EP", "PE", "PEP", "EPE", "PPE", "EPP", "PEEP", "S", "SP", "PS", "PSP", "SS",
            "ESP", "NP", "PN", "PNP", "EN"]


def gen_case(rng, big=False, pattern=None):
    """`pattern`: one letter per frame — P populated, E no peak at all, S peaks of a single node type,
    N peaks only on node types no two of which share an edge (no candidate connection either)."""
    n = rng.choice([2, 2, 3, 3, 4, 5, 6] if not big else [4, 5, 6, 7])
    if pattern and "N" in pattern:
        n = max(n, 3)
    edges = random_tree(rng, n)
    stride = rng.choice([1, 2, 2, 4])
    H, W = rng.randrange(3, 10), rng.randrange(3, 10)
    B = len(pattern) if pattern else rng.choice([1, 1, 2, 3, 4])
    mode = rng.choice(["noise", "field", "field", "mixed", "zero", "planted", "planted", "planted"])
    kmax = rng.choice([1, 2, 3, 4])
    E = len(edges)
    dirs = [(rng.choice([-1, 0, 1, 0.5, -0.5]), rng.choice([-1, 0, 1, 0.5, -0.5])) for _ in range(E)]
    samples = []
    for fi in range(B):
        if (pattern[fi] == "E") if pattern else (rng.random() < 0.12):
            samples.append({"peaks": [], "vals": [], "channels": []})
            continue
        if mode == "planted":
            # animals laid out along the PAF directions (so that true pairs score high), with missing
            # detections, a zero-length limb now and then (coincident peaks), and spurious peaks
            dsts = {v for _, v in edges}
            root = next(u for u, _ in edges if u not in dsts)
            per_node = {u: [] for u in range(n)}
            for _a in range(rng.choice([1, 2, 2, 3, 4])):
                pos = {root: (rng.randrange(0, 4 * W * stride) / 4.0, rng.randrange(0, 4 * H * stride) / 4.0)}
                todo = edges[:]
                while todo:
                    for e in todo:
                        if e[0] in pos:
                            k = edges.index(e)
                            L = rng.choice([0, 1, 2, 2, 3, 4, 6]) * stride if rng.random() < 0.9 else 0
                            pos[e[1]] = (pos[e[0]][0] + L * dirs[k][0], pos[e[0]][1] + L * dirs[k][1])
                            todo.remove(e)
                            break
                for u, xy in pos.items():
                    if rng.random() < 0.85 and (xy not in per_node[u] or rng.random() < 0.3):
                        per_node[u].append(xy)
            for u in range(n):
                if rng.random() < 0.15:
                    xy = (rng.randrange(0, 4 * W * stride) / 4.0, rng.randrange(0, 4 * H * stride) / 4.0)
                    if xy not in per_node[u]:
                        per_node[u].append(xy)
            pts, vals, chs = [], [], []
            for u in range(n):
                uv = set()
                for xy in per_node[u][:5]:
                    pts.append([float(xy[0]), float(xy[1])]); vals.append(new_val(rng, uv)); chs.append(u)
            perm = list(range(len(pts)))
            rng.shuffle(perm)
            samples.append({"peaks": [pts[i] for i in perm], "vals": [vals[i] for i in perm],
                            "channels": [chs[i] for i in perm]})
            continue
        pts, vals, chs = [], [], []
        for node in range(n):
            k = rng.choice([0, 1, 1, 2, 3, 4])
            k = min(k, kmax)
            seen = set()
            uv = set()
            for _ in range(k):
                r = rng.random()
                if r < 0.22 and pts:
                    # bias from the proof: a peak exactly on a peak of another node type
                    xy = tuple(rng.choice(pts))
                elif r < 0.30:
                    xy = (rng.randrange(-8, 4 * (W * stride + 8)) / 4.0, rng.randrange(-8, 4 * (H * stride + 8)) / 4.0)
                else:
                    xy = (rng.randrange(0, 4 * W * stride) / 4.0, rng.randrange(0, 4 * H * stride) / 4.0)
                if xy in seen and rng.random() < 0.7:
                    continue  # peaks of one node type are usually distinct local maxima (not always: generated too)
                seen.add(xy)
                pts.append(list(xy))
                vals.append(new_val(rng, uv))
                chs.append(node)
        # the peak finder emits peaks grouped by sample, not necessarily by channel: shuffle sometimes
        if rng.random() < 0.5:
            perm = list(range(len(pts)))
            rng.shuffle(perm)
            pts, vals, chs = [pts[i] for i in perm], [vals[i] for i in perm], [chs[i] for i in perm]
        samples.append({"peaks": pts, "vals": vals, "channels": chs})
    if pattern:
        for fi, kind in enumerate(pattern):
            sm = samples[fi]
            if kind == "P" and len(set(sm["channels"])) < 2:
                # make sure a populated frame has at least one candidate connection
                u, v = edges[0]
                for node, xy in ((u, [1.0, 1.0]), (v, [1.0 + 2 * stride, 1.0])):
                    have = [i for i, c in enumerate(sm["channels"]) if c == node]
                    while any(sm["peaks"][i] == xy for i in have):
                        xy = [xy[0] + 0.25, xy[1]]
                    sm["peaks"].append(xy)
                    sm["vals"].append(new_val(rng, {sm["vals"][i] for i in have}))
                    sm["channels"].append(node)
            if kind in "SN":
                if kind == "S":
                    keep = {rng.choice(sm["channels"])} if sm["channels"] else {rng.randrange(n)}
                else:
                    keep = set()
                    for u in rng.sample(range(n), n):
                        if all((u, w) not in edges and (w, u) not in edges for w in keep):
                            keep.add(u)
                idx = [i for i, c in enumerate(sm["channels"]) if c in keep]
                for u in keep:
                    if not any(sm["channels"][i] == u for i in idx):
                        sm["peaks"].append([rng.randrange(0, 4 * W * stride) / 4.0, rng.randrange(0, 4 * H * stride) / 4.0])
                        sm["vals"].append(new_val(rng, {sm["vals"][i] for i, c in enumerate(sm["channels"]) if c == u}))
                        sm["channels"].append(u)
                        idx.append(len(sm["channels"]) - 1)
                for key_ in ("peaks", "vals", "channels"):
                    sm[key_] = [sm[key_][i] for i in idx]
    paf = []
    for b in range(B):
        img = []
        for r in range(H):
            row = []
            for c in range(W):
                px = []
                for e in range(E):
                    if mode == "zero":
                        v = (0.0, 0.0)
                    elif mode in ("field", "planted") or (mode == "mixed" and rng.random() < 0.5):
                        v = dirs[e]
                    else:
                        v = (rng.randrange(-12, 13) / 8.0, rng.randrange(-12, 13) / 8.0)
                    px += [float(v[0]), float(v[1])]
                row.append(px)
            img.append(row)
        paf.append(img)
    nonfinite = rng.random() < 0.2
    if nonfinite:
        # "arbitrary PAF tensors": NaN / ±inf entries give NaN / ±inf line scores in any cell of a cost matrix
        # (the only way to force the solver through an invalid cell in a matrix larger than 1×1)
        for b in range(B):
            for _ in range(rng.choice([1, 2, 4, 8, 16])):
                paf[b][rng.randrange(H)][rng.randrange(W)][rng.randrange(2 * E)] = rng.choice(
                    [float("nan"), float("nan"), float("inf"), float("-inf")])
    # floats: dyadic and non-dyadic (int(q * n_nodes) is a float64 product: 0.6 * 5 -> 3, (1/3) * 9 -> 3)
    mip = rng.choice([0, 0, 1, 2, 3, 2, 0.5, 0.25, 1.0, 0.75, 0.375, -1, 7,
                      0.6, 0.7, 1 / 3, 0.3, 0.9, 0.8, 0.4, 0.2, 0.29, 2 / 3, -0.5])
    return {
        "n": n, "edges": edges, "stride": stride, "pafs": paf, "samples": samples, "nonfinite": nonfinite,
        "n_points": rng.choice([1, 2, 3, 5, 10]),
        "min_line_scores": rng.choice([-4.0, -0.5, 0.0, 0.25, 0.25, 0.5, "pick"]),
        "min_instance_peaks": mip,
        "max_edge_length_ratio": rng.choice([0.25, 0.5, 1.0, 0.125]),
        "dist_penalty_weight": rng.choice([1.0, 1.0, 2.0, 0.5]),
    }


def gen_assign_case(rng):
    """arbitrary connection dicts for assign_connections_to_instances / make_predicted_instances"""
    n = rng.randrange(2, 6)
    kind = rng.choice(["tree_ordered", "tree_shuffled", "any", "any", "dag"])
    if kind.startswith("tree"):
        edges = random_tree(rng, n)
        if kind == "tree_ordered":
            # parent-first order
            done, out, rest = set(), [], edges[:]
            dsts = {v for _, v in edges}
            done = {u for u, _ in edges if u not in dsts}
            while rest:
                for e in rest:
                    if e[0] in done:
                        out.append(e); done.add(e[1]); rest.remove(e)
                        break
            edges = out
    else:
        allp = [(u, v) for u in range(n) for v in range(n) if u != v and (kind == "any" or u < v)]
        rng.shuffle(allp)
        edges = allp[: rng.randrange(1, min(len(allp), 6) + 1)]
    k = rng.randrange(1, 4)
    groups = []
    for (u, v) in edges:
        m = rng.randrange(0, k + 1)
        one_to_one = rng.random() < 0.7
        if one_to_one:
            srcs = rng.sample(range(k), m)
            dsts = rng.sample(range(k), m)
        else:
            srcs = [rng.randrange(k) for _ in range(m)]
            dsts = [rng.randrange(k) for _ in range(m)]
        groups.append([u, v, [[s, d, rng.randrange(-8, 17) / 8.0] for s, d in zip(srcs, dsts)]])
    return {"n": n, "k": k, "groups": groups, "kind": kind,
            "min_instance_peaks": rng.choice([0, 0, 1, 2, 3, 0.5, 0.25, 1.0, 0.75, -2])}


# ------------------------------------------------------------------ model line builders
def mp_tok(mip):
    return f"f {rat(float(mip))}" if isinstance(mip, float) else f"i {int(mip)}"


def sample_line(fixed, n, edges, min_line, mip, channels, mats, answers):
    parts = ["sample", "1" if fixed else "0", str(n), lst(edges, lambda e: f"{e[0]} {e[1]}"),
             rat(float(min_line)), mp_tok(mip), lst(channels)]
    for M in mats:
        nr = len(M)
        nc = len(M[0]) if nr else 0
        parts.append(f"{nr} {nc}" + "".join(" " + rat(x) for row in M for x in row))
    for a in answers:
        parts.append("r" if a is None else "m " + lst(a, lambda p: f"{p[0]} {p[1]}"))
    return " ".join(parts)


def parse_sections(line):
    secs = [s.strip() for s in line.split("|")]
    out = {"status": secs[0]}
    for s in secs[1:]:
        t = s.split()
        if t:
            out[t[0]] = t[1:]
    return out


# ------------------------------------------------------------------ the check
class Impl:
    """Thin access to the real code + the recording wrapper around scipy's solver."""

    def __init__(self):
        import numpy as np
        import torch
        import sleap_nn.inference.paf_grouping as pg

        self.np, self.torch, self.pg = np, torch, pg
        self.rec = []
        real = pg.linear_sum_assignment
        # keep the genuine scipy function even if the harness is re-entered
        real = getattr(real, "_verif_real", real)

        def recording(cost):
            m = np.array(cost, dtype=np.float64, copy=True)
            try:
                r, c = real(cost)
            except Exception as e:  # noqa
                self.rec.append((m, None, e))
                raise
            self.rec.append((m, [(int(i), int(j)) for i, j in zip(r, c)], None))
            return r, c

        recording._verif_real = real
        pg.linear_sum_assignment = recording
        self.rec_assign = []
        real_a = getattr(pg.assign_connections_to_instances, "_verif_real", pg.assign_connections_to_instances)

        def recording_assign(connections, *a, **k):
            conns = [(int(et.src_node_ind), int(c.src_peak_ind), int(et.dst_node_ind), int(c.dst_peak_ind), float(c.score))
                     for et, cs in connections.items() for c in cs]
            out = real_a(connections, *a, **k)
            self.rec_assign.append((conns, [(int(p_.node_ind), int(p_.peak_ind), int(i)) for p_, i in out.items()]))
            return out

        recording_assign._verif_real = real_a
        pg.assign_connections_to_instances = recording_assign

    def scorer(self, case):
        names = [f"n{i}" for i in range(case["n"])]
        mls = case["min_line_scores"]
        # Twin entry point (added after C08-r9m1): the predictors build the scorer through
        # `PAFScorer.from_config`; a deterministic ~40 % of the cases (chosen from the case's own content, so
        # a replay takes the same route) go that way, the rest through the constructor.
        import zlib
        key = json.dumps([case["n"], case["edges"], case["stride"], case["n_points"], str(case["min_instance_peaks"])])
        if zlib.crc32(key.encode()) % 5 < 2:
            from omegaconf import OmegaConf
            cfg = OmegaConf.create({"confmaps": {"part_names": names},
                                    "pafs": {"edges": [[f"n{u}", f"n{v}"] for u, v in case["edges"]],
                                             "output_stride": int(case["stride"])}})
            self.via_config = getattr(self, "via_config", 0) + 1
            return self.pg.PAFScorer.from_config(
                cfg, max_edge_length_ratio=case["max_edge_length_ratio"],
                dist_penalty_weight=case["dist_penalty_weight"], n_points=case["n_points"],
                min_instance_peaks=case["min_instance_peaks"],
                min_line_scores=0.25 if mls == "pick" else mls)
        return self.pg.PAFScorer(
            part_names=names, edges=[(f"n{u}", f"n{v}") for u, v in case["edges"]],
            pafs_stride=case["stride"], max_edge_length_ratio=case["max_edge_length_ratio"],
            dist_penalty_weight=case["dist_penalty_weight"], n_points=case["n_points"],
            min_instance_peaks=case["min_instance_peaks"],
            min_line_scores=0.25 if mls == "pick" else mls)

    def tensors(self, case, idxs):
        t = self.torch
        pafs = t.tensor([case["pafs"][b] for b in idxs], dtype=t.float32)
        S = [case["samples"][b] for b in idxs]
        peaks = t.nested.nested_tensor([t.tensor(s["peaks"], dtype=t.float32).reshape(-1, 2) for s in S])
        vals = t.nested.nested_tensor([t.tensor(s["vals"], dtype=t.float32).reshape(-1) for s in S])
        chs = t.nested.nested_tensor([t.tensor(s["channels"], dtype=t.int32).reshape(-1) for s in S])
        return pafs, peaks, vals, chs


def score_mats(case, s, edge_inds, edge_peak_inds, line_scores):
    """per edge: n_src × n_dst table of the implementation's own line scores (Fraction | None)"""
    chs = s["channels"]
    byk = {}
    for k, (a, b), sc in zip(edge_inds, edge_peak_inds, line_scores):
        byk[(int(k), int(a), int(b))] = F(sc)
    mats = []
    for k, (u, v) in enumerate(case["edges"]):
        src = [g for g, c in enumerate(chs) if c == u]
        dst = [g for g, c in enumerate(chs) if c == v]
        if not src or not dst:
            mats.append([])
        else:
            mats.append([[byk.get((k, a, b), None) for b in dst] for a in src])
    return mats


def oracle_sample(case, s, mats, impl_matches, min_line, out):
    """Property C08 restated on the implementation's observable output for one sample
    (independent of the Lean model).  Returns a list of failure strings."""
    why = []
    n, edges = case["n"], case["edges"]
    chs = s["channels"]
    node_peaks = {u: [g for g, c in enumerate(chs) if c == u] for u in range(n)}
    # (a) per edge: one-to-one, only valid entries, maximal cardinality, maximal total score
    accepted = []
    for k, (u, v) in enumerate(edges):
        M = mats[k]
        nr = len(M)
        nc = len(M[0]) if nr else 0
        K = impl_matches[k]
        rows, cols = [i for i, _, _ in K], [j for _, j, _ in K]
        if len(set(rows)) != len(rows) or len(set(cols)) != len(cols):
            why.append(f"edge {k}: matches are not one-to-one: {K}")
            continue
        if any(not (0 <= i < nr and 0 <= j < nc) or M[i][j] is None for i, j, _ in K):
            why.append(f"edge {k}: a match uses a candidate without a score: {K}")
            continue
        if any(M[i][j] != sc for i, j, sc in K):
            why.append(f"edge {k}: a match does not carry its candidate's line score")
        best = None
        for size in range(min(nr, nc), -1, -1):
            for X in brute_matchings(nr, nc, size):
                if all(M[i][j] is not None for i, j in X):
                    t = sum(M[i][j] for i, j in X)
                    if best is None or t > best[1]:
                        best = (size, t)
            if best is not None:
                break
        tot = sum(sc for _, _, sc in K)
        if best is not None and (len(K) != best[0] or best[1] - tot > Fraction(1, 10**9) * (1 + abs(best[1]))):
            why.append(f"edge {k}: matches {K} are not a maximum-score one-to-one assignment "
                       f"(best: {best[0]} pairs, total {float(best[1])})")
        for i, j, sc in K:
            if sc >= min_line:
                accepted.append(((u, i), (v, j), sc))
    # (b) the instances are the connected components of the accepted matches (union-find)
    parent = {}

    def find(x):
        parent.setdefault(x, x)
        while parent[x] != x:
            parent[x] = parent[parent[x]]
            x = parent[x]
        return x

    for a, b, _ in accepted:
        parent[find(a)] = find(b)
    comps = {}
    for p in list(parent):
        comps.setdefault(find(p), set()).add(p)
    mip = case["min_instance_peaks"]
    thr = 0
    if mip > 0:
        # a float is a fraction of the node count; the product is a float64 product (correctly rounded),
        # computed here through exact rationals, not with the code's expression
        thr = math.floor(float(Fraction(mip) * n)) if isinstance(mip, float) else mip
    expected = []
    for root, ps in comps.items():
        if len(ps) < thr:
            continue
        sc = sum(x for a, _, x in accepted if find(a) == root)
        expected.append((frozenset(ps), sc))
    inst, pvals, iscores = out
    ni = len(iscores) if getattr(iscores, "ndim", 0) == 1 else -1
    if getattr(inst, "shape", None) != (ni, n, 2) or getattr(pvals, "shape", None) != (ni, n):
        why.append(f"output arrays have shapes {getattr(inst, 'shape', None)}, {getattr(pvals, 'shape', None)}, "
                   f"{getattr(iscores, 'shape', None)} instead of (k,{n},2), (k,{n}), (k,)")
        return why
    got = []
    used = set()
    for r in range(len(inst)):
        ps = set()
        for node in range(n):
            x, y = float(inst[r][node][0]), float(inst[r][node][1])
            pv = float(pvals[r][node])
            if x != x and y != y and pv != pv:
                continue
            hit = [i for i, g in enumerate(node_peaks[node]) if s["vals"][g] == pv]
            if len(hit) != 1 or s["peaks"][node_peaks[node][hit[0]]] != [x, y]:
                why.append(f"instance {r} node {node}: ({x},{y},{pv}) is not an input peak of that node type")
                continue
            if (node, hit[0]) in used:
                why.append(f"peak {(node, hit[0])} appears in two instances")
            used.add((node, hit[0]))
            ps.add((node, hit[0]))
        got.append((frozenset(ps), float(iscores[r])))
    exp_sets = sorted(sorted(ps) for ps, _ in expected)
    got_sets = sorted(sorted(ps) for ps, _ in got)
    if exp_sets != got_sets:
        why.append(f"instances {got_sets} are not the (large enough) connected components {exp_sets} of the accepted matches")
    else:
        ex = {ps: sc for ps, sc in expected}
        for ps, sc in got:
            if abs(float(ex[ps]) - sc) > 1e-4 * (1 + sum(abs(float(x)) for _, _, x in accepted)):
                why.append(f"instance {sorted(ps)} score {sc} is not the sum of its accepted edge scores {float(ex[ps])}")
    for ps, _ in expected:
        nodes = [p[0] for p in ps]
        if len(set(nodes)) != len(nodes):
            why.append(f"component {sorted(ps)} has two peaks of one node type")
    return why


def nt_parts(res, n_tensors, n_samples):
    """Defensive canonicalisation of a `call(...)` result that should be a tuple of `n_tensors`
    nested tensors with `n_samples` components each: ('ok', [[np.ndarray]*n_samples]*n_tensors) or
    ('malformed', description).  Never raises."""
    try:
        out = res[1]
        if not isinstance(out, (tuple, list)) or len(out) < n_tensors:
            return ("malformed", f"expected {n_tensors} outputs, got {type(out).__name__} of length "
                                 f"{len(out) if hasattr(out, '__len__') else '?'}")
        parts = []
        for t in list(out)[:n_tensors]:
            comps = list(t.unbind()) if getattr(t, "is_nested", False) else list(t)
            if len(comps) != n_samples:
                return ("malformed", f"an output holds {len(comps)} samples for a batch of {n_samples}")
            parts.append([c.detach().cpu().numpy() for c in comps])
        return ("ok", parts)
    except Exception as e:  # noqa
        return ("malformed", f"{type(e).__name__}: {str(e)[:120]}")


def snap(tensors):
    """bit-exact snapshot of (nested) tensors, for input-purity checks"""
    out = []
    for t in tensors:
        comps = list(t.unbind()) if getattr(t, "is_nested", False) else [t]
        out.append([(tuple(c.shape), str(c.dtype), c.detach().cpu().numpy().tobytes()) for c in comps])
    return out


INPUT_NAMES = ["peaks", "peak_vals", "peak_channel_inds", "match_edge_inds", "match_src_peak_inds",
               "match_dst_peak_inds", "match_line_scores"]


def small_of(case, b):
    return {"n": case["n"], "edges": case["edges"], "sample": case["samples"][b], "b": b, "pafs": case["pafs"][b],
            "params": {k: case[k] for k in ("stride", "n_points", "min_line_scores", "min_instance_peaks",
                                            "max_edge_length_ratio", "dist_penalty_weight")}}


def inst_agree(t, out, s, n, scale):
    """model `inst` section vs implementation arrays: NaN pattern, coordinates and values exact, score to tolerance"""
    ni = int(t[0])
    inst, pvals, iscores = out
    if not (getattr(inst, "shape", None) == (ni, n, 2) and pvals.shape == (ni, n) and iscores.shape == (ni,)):
        return False
    for r_ in range(ni):
        row = t[1 + r_ * (n + 1): 1 + (r_ + 1) * (n + 1)]
        for node in range(n):
            g = int(row[node])
            x, y, pv = float(inst[r_][node][0]), float(inst[r_][node][1]), float(pvals[r_][node])
            if g < 0:
                if not (x != x and y != y and pv != pv):
                    return False
            elif not (x == s["peaks"][g][0] and y == s["peaks"][g][1] and pv == s["vals"][g]):
                return False
        if abs(float(Fraction(row[n])) - float(iscores[r_])) > 1e-5 * scale:
            return False
    return True


def coincident(case, s):
    chs, pts = s["channels"], s["peaks"]
    for (u, v) in case["edges"]:
        for a, ca in enumerate(chs):
            for b, cb in enumerate(chs):
                if ca == u and cb == v and pts[a] == pts[b]:
                    return True
    return False


def run_witness(impl):
    """F-C08 witness on the real code: returns ('raise', cls, msg) | ('ok', …)"""
    w = WITNESS
    case = {"n": 2, "edges": [(0, 1)], "stride": w["pafs_stride"],
            "pafs": [[[[0.0, 0.0] for _ in range(w["paf_hw"][1])] for _ in range(w["paf_hw"][0])]],
            "samples": [{"peaks": w["peaks"], "vals": w["vals"], "channels": w["channels"]}],
            "n_points": 10, "min_line_scores": 0.25, "min_instance_peaks": 0,
            "max_edge_length_ratio": 0.25, "dist_penalty_weight": 1.0}
    sc = impl.scorer(case)
    return call(lambda: sc.predict(*impl.tensors(case, [0])))


def impl_case(chk, impl, case, fixed):
    """Runs one batch case through the implementation; returns the record `compare_case` needs."""
    np = impl.np
    n, edges = case["n"], [tuple(e) for e in case["edges"]]
    case["edges"] = edges
    r = call(lambda: impl.scorer(case))
    if r[0] == "raise":
        chk.fail("PAFScorer construction raised on a tree skeleton", case, r)
        return None
    scorer = r[1]
    B = len(case["samples"])
    # ---- pick a min_line_scores equal to one of the actual scores (knife-edge of `>=`, on purpose)
    if case["min_line_scores"] == "pick":
        pool = []
        for b in range(B):
            pafs, peaks, vals, chs = impl.tensors(case, [b])
            q = call(lambda: scorer.score_paf_lines(pafs, peaks, chs))
            if q[0] == "ok":
                pool += [float(x) for x in q[1][2][0].numpy().tolist() if x == x and not math.isinf(x)]
        case["min_line_scores"] = chk.rng.choice(sorted(set(pool))) if pool else 0.25
        scorer = impl.scorer(case)
    min_line32 = Fraction(float(np.float32(case["min_line_scores"])))
    per = []
    lines = []
    nE = len(edges)
    for b in range(B):
        s = case["samples"][b]
        pafs, peaks, vals, chs = impl.tensors(case, [b])
        info = {"raise": None}
        q = call(lambda: scorer.score_paf_lines(pafs, peaks, chs))
        qp = nt_parts(q, 3, 1) if q[0] == "ok" else None
        if q[0] == "raise" or qp[0] != "ok":
            info["raise"] = ("score_paf_lines",) + (q[1:] if q[0] == "raise" else ("MalformedOutput", qp[1]))
            per.append(info)
            lines.append(None)
            continue
        e_inds, e_pinds, l_scores = [x[0].tolist() for x in qp[1]]
        if not (len(e_inds) == len(e_pinds) == len(l_scores)) or any(len(x) != 2 for x in e_pinds):
            info["raise"] = ("score_paf_lines", "MalformedOutput", "candidate arrays of different lengths")
            per.append(info)
            lines.append(None)
            continue
        info["cands"] = sorted((int(k), int(a), int(c)) for k, (a, c) in zip(e_inds, e_pinds))
        mats = score_mats(case, s, e_inds, e_pinds, l_scores)
        info["mats"] = mats
        impl.rec.clear()
        m = call(lambda: scorer.match_candidates(*q[1]))
        rec = list(impl.rec)
        info["rec"] = rec
        answers = [a for _, a, _ in rec][:nE] + [None] * max(0, nE - len(rec))
        lines.append(sample_line(fixed, n, edges, float(np.float32(case["min_line_scores"])),
                                 case["min_instance_peaks"], s["channels"], mats, answers))
        mp_ = nt_parts(m, 4, 1) if m[0] == "ok" else None
        if m[0] == "raise" or mp_[0] != "ok":
            info["raise"] = ("match_candidates",) + (m[1:] if m[0] == "raise" else ("MalformedOutput", mp_[1]))
            per.append(info)
            continue
        mk, ms_, md, msc = [x[0].reshape(-1).tolist() for x in mp_[1]]
        if not (len(mk) == len(ms_) == len(md) == len(msc)):
            info["raise"] = ("match_candidates", "MalformedOutput", "match arrays of different lengths")
            per.append(info)
            continue
        info["matches"] = [[(int(i), int(j), F(sc)) for kk, i, j, sc in zip(mk, ms_, md, msc) if kk == k]
                           for k in range(nE)]
        impl.rec_assign.clear()
        ins = [peaks, vals, chs, *m[1]]
        before = snap(ins)
        g = call(lambda: scorer.group_instances(peaks, vals, chs, *m[1]))
        info["assign_rec"] = list(impl.rec_assign)
        after = snap(ins)
        if after != before:
            bad = [INPUT_NAMES[i] for i in range(len(before)) if before[i] != after[i]]
            chk.fail(f"PAFScorer.group_instances modifies its input tensor(s) {bad} in place (so grouping the same "
                     "matches again gives another answer)", small_of(case, b), {"modified": bad}, ["input_mutated"])
        gp = nt_parts(g, 3, 1) if g[0] == "ok" else None
        if g[0] == "raise" or gp[0] != "ok":
            info["raise"] = ("group_instances",) + (g[1:] if g[0] == "raise" else ("MalformedOutput", gp[1]))
            per.append(info)
            continue
        info["out"] = tuple(x[0] for x in gp[1])
        per.append(info)
        # ---- call history: the SAME scorer object and the SAME match tensors grouped again with other
        #      min_line_scores / min_instance_peaks (strict -> loose, loose -> strict); every answer must be
        #      the answer of that call alone
        finite = sorted({float(sc) for mk_ in info["matches"] for _, _, sc in mk_ if sc is not None})
        explicit = case.get("history") if B == 1 else None
        if explicit or (finite and chk.rng.random() < 0.6):
            if explicit:
                history = [tuple(h) for h in explicit]
            else:
                lo = chk.rng.choice([-4.0, finite[0] - 1.0, finite[0]])
                hi = chk.rng.choice(finite + [finite[-1] + 0.5])
                mid = chk.rng.choice(finite)
                thrs = chk.rng.choice([[hi, lo], [lo, hi], [hi, lo, mid], [lo, hi, lo], [hi, mid, lo]])
                history = [(float(np.float32(t_)), chk.rng.choice([case["min_instance_peaks"], 0, 2, 0.6, 3]))
                           for t_ in thrs]
            calls = []
            for ci, (thr, mp2) in enumerate(history):
                before = snap(ins)
                if ci % 2 == 0:
                    scorer.min_line_scores, scorer.min_instance_peaks = thr, mp2
                    gh = call(lambda: scorer.group_instances(peaks, vals, chs, *m[1]))
                else:
                    gh = call(lambda: impl.pg.group_instances_batch(
                        peaks, vals, chs, *m[1], scorer.n_nodes, scorer.sorted_edge_inds, scorer.edge_types, mp2, thr))
                after = snap(ins)
                ghp = nt_parts(gh, 3, 1) if gh[0] == "ok" else None
                res = ("raise",) + tuple(gh[1:]) if gh[0] == "raise" else (
                    ("malformed", ghp[1]) if ghp[0] != "ok" else ("ok", tuple(x[0] for x in ghp[1])))
                calls.append({"thr": thr, "mip": mp2, "res": res, "mutated": [INPUT_NAMES[i] for i in range(len(before))
                                                                               if before[i] != after[i]],
                              "line": sample_line(fixed, n, edges, thr, mp2, s["channels"], mats, answers)})
            scorer.min_line_scores = 0.25 if case["min_line_scores"] == "pick" else case["min_line_scores"]
            scorer.min_instance_peaks = case["min_instance_peaks"]
            info["history"] = calls
    # ---- the whole batch through the batch functions and through predict (the glue)
    any_raise = any(p["raise"] for p in per)
    batch_case = {"case": case}
    tb = impl.tensors(case, list(range(B)))
    impl.rec.clear()
    if not any_raise:
        # stage by stage: score_paf_lines_batch -> match_candidates_batch, every frame must get its own result
        qf = call(lambda: scorer.score_paf_lines(tb[0], tb[1], tb[3]))
        qfp = nt_parts(qf, 3, B) if qf[0] == "ok" else None
        if qf[0] == "raise" or qfp[0] != "ok":
            chk.fail("score_paf_lines_batch fails on a batch whose frames are fine one by one: "
                     + str(qf[1:] if qf[0] == "raise" else qfp[1]), batch_case, None, ["batch_glue"])
        else:
            mf = call(lambda: scorer.match_candidates(*qf[1]))
            mfp = nt_parts(mf, 4, B) if mf[0] == "ok" else None
            if mf[0] == "raise" or mfp[0] != "ok":
                chk.fail("match_candidates_batch does not return one match set per frame: "
                         + str(mf[1:] if mf[0] == "raise" else mfp[1]), batch_case,
                         {"frames": [len(s_["channels"]) for s_ in case["samples"]]}, ["batch_glue"])
            else:
                for b in range(B):
                    mk, ms_, md, msc = [x[b].reshape(-1).tolist() for x in mfp[1]]
                    got = [[(int(i), int(j), F(sc)) for kk, i, j, sc in zip(mk, ms_, md, msc) if kk == k]
                           for k in range(nE)]
                    if got != per[b]["matches"]:
                        chk.fail(f"match_candidates_batch: frame {b} of the batch gets matches that are not those "
                                 "of that frame's peaks", batch_case,
                                 {"frame": b, "batch": str(got), "alone": str(per[b]["matches"])}, ["batch_glue"])
    impl.rec.clear()
    before = snap(tb)
    full = call(lambda: scorer.predict(*tb))
    if snap(tb) != before:
        chk.fail("PAFScorer.predict modifies its input tensors in place", batch_case, None, ["input_mutated"])
    full2 = call(lambda: scorer.predict(*tb))
    if full[0] == "ok" and full2[0] == "ok":
        p1, p2 = nt_parts(("ok", tuple(full[1])[:3]), 3, B), nt_parts(("ok", tuple(full2[1])[:3]), 3, B)
        if p1[0] == "ok" and (p2[0] != "ok" or any(
                p1[1][j][b_].shape != p2[1][j][b_].shape or p1[1][j][b_].tobytes() != p2[1][j][b_].tobytes()
                for j in range(3) for b_ in range(B))):
            chk.fail("a second PAFScorer.predict on the same inputs does not return what the first returned",
                     batch_case, None, ["call_history"])
    elif full[0] != full2[0]:
        chk.fail(f"a second PAFScorer.predict on the same inputs ends differently: {full[0]} then {full2[0]}",
                 batch_case, str(full2[1:])[:200], ["call_history"])
    if full[0] == "raise":
        known = (full[1] == "ValueError" and "infeasible" in full[2]
                 and any(coincident(case, s_) for s_ in case["samples"]))
        chk.fail(f"PAFScorer.predict raises {full[1]}: {full[2]} on a batch of {B} frame(s) with "
                 f"{[len(s_['channels']) for s_ in case['samples']]} peaks"
                 + ("" if any_raise else " although every frame groups fine on its own"),
                 batch_case, full[1:], [SIG] if known else ["batch_glue"])
    else:
        fp = nt_parts(("ok", tuple(full[1])[:3]), 3, B)
        if any_raise:
            chk.disagree("predict(batch) raises iff some sample raises", batch_case, "ok", [p["raise"] for p in per])
        elif fp[0] != "ok":
            chk.fail("PAFScorer.predict does not return one instance set per frame: " + fp[1], batch_case,
                     {"frames": [len(s_["channels"]) for s_ in case["samples"]]}, ["batch_glue"])
        else:
            for b in range(B):
                same = all(fp[1][j][b].shape == per[b]["out"][j].shape and
                           np.array_equal(fp[1][j][b], per[b]["out"][j], equal_nan=True) for j in range(3))
                if not same:
                    outb = tuple(fp[1][j][b] for j in range(3))
                    why = oracle_sample(case, case["samples"][b], per[b]["mats"], per[b]["matches"], min_line32, outb)
                    if why:
                        chk.fail(f"frame {b} of the batch: " + "; ".join(why[:2]), batch_case,
                                 {"frame": b, "inst": outb[0].tolist()}, ["batch_glue"])
                    chk.disagree("predict(batch)[b] == predict(sample b)", {"case": case, "b": b},
                                 [x.tolist() for x in outb], [x.tolist() for x in per[b]["out"]])
    r_ = call(lambda: [int(i) for i in scorer.sorted_edge_inds])
    return {"case": case, "per": per, "lines": lines, "min_line32": min_line32,
            "order": r_[1] if r_[0] == "ok" else r_}


def check_cases(chk, impl, tagged_cases, fixed):
    """implementation on every case, ONE driver run for all model lines, then the comparisons"""
    recs = []
    for tag, case in tagged_cases:
        r = impl_case(chk, impl, case, fixed)
        if r is not None:
            recs.append((tag, r))
    flat = []
    for _, r in recs:
        flat += [l for l in r["lines"] if l is not None]
        flat += [c["line"] for p_ in r["per"] for c in p_.get("history", [])]
    outs = iter(run_driver("C08.lean", flat))
    for tag, r in recs:
        mod = {i: parse_sections(next(outs)) for i, l in enumerate(r["lines"]) if l is not None}
        for p_ in r["per"]:
            for c in p_.get("history", []):
                c["model"] = parse_sections(next(outs))
        compare_case(chk, impl, r, mod, fixed, tag)
        compare_histories(chk, r)


def compare_histories(chk, rec):
    """every call of a history (same scorer, same match tensors, other thresholds) vs the model's answer for
    that call alone; on a difference the property oracle decides and the history is the failing input"""
    import numpy as np
    case = rec["case"]
    n = case["n"]
    for b, info in enumerate(rec["per"]):
        calls = info.get("history")
        if not calls:
            continue
        s = case["samples"][b]
        hist = [[c["thr"], c["mip"]] for c in calls]
        base = small_of(case, b)
        hcase = {"case": {"n": n, "edges": case["edges"], "stride": case["stride"], "pafs": [case["pafs"][b]],
                          "samples": [s], "history": hist, **base["params"]},
                 "history (min_line_scores, min_instance_peaks) applied to the same match tensors": hist}
        scale = 1 + sum(abs(float(sc)) for mk_ in info["matches"] for _, _, sc in mk_ if sc is not None)
        for ci, c in enumerate(calls):
            chk.case(None, tags=["history_call"])
            if c["mutated"]:
                chk.fail(f"call {ci} of the history modifies its input tensor(s) {c['mutated']} in place",
                         {**hcase, "call": ci}, None, ["input_mutated"])
            M = c["model"]
            if c["res"][0] != "ok":
                if M["status"] == "ok":
                    chk.fail(f"call {ci} of the history {hist} on the same match tensors: {c['res'][:3]}",
                             {**hcase, "call": ci}, str(c["res"])[:300], ["call_history"])
                continue
            if M["status"] != "ok" or not inst_agree(M["inst"], c["res"][1], s, n, scale):
                case2 = dict(case, min_instance_peaks=c["mip"])
                why = oracle_sample(case2, s, info["mats"], info["matches"],
                                    Fraction(float(np.float32(c["thr"]))), c["res"][1])
                if why:
                    chk.fail(f"call {ci} of the history {hist} (min_line_scores, min_instance_peaks) on the same "
                             "match tensors: " + "; ".join(why[:2]), {**hcase, "call": ci},
                             {"inst": c["res"][1][0].tolist()}, ["call_history"])
                chk.disagree("group_instances call inside a history == groupSample for that call alone",
                             {**hcase, "call": ci}, [x.tolist() for x in c["res"][1]], " ".join(M.get("inst", [M["status"]])))


def check_case(chk, impl, case, fixed, tag="gen"):
    check_cases(chk, impl, [(tag, case)], fixed)


def compare_case(chk, impl, rec, mod, fixed, tag):
    case, per, lines, min_line32 = rec["case"], rec["per"], rec["lines"], rec["min_line32"]
    n, edges, B = case["n"], case["edges"], len(case["samples"])
    for b in range(B):
        s, info = case["samples"][b], per[b]
        small = {"n": n, "edges": edges, "sample": s, "b": b, "pafs": case["pafs"][b],
                 "params": {k: case[k] for k in ("stride", "n_points", "min_line_scores", "min_instance_peaks",
                                                 "max_edge_length_ratio", "dist_penalty_weight")}}
        tags = [tag, f"nodes{n}", f"peaks{min(len(s['channels']), 9)}"]
        if info["raise"] and info["raise"][0] == "score_paf_lines":
            chk.fail(f"score_paf_lines raised: {info['raise']}", small, info["raise"], ["raise_in_scoring"])
            chk.case(None, tags=tags + ["raise_scoring"])
            continue
        M = mod[b]
        if M["status"] == "bad-op":
            raise RuntimeError("driver rejected line: " + lines[b][:300])
        co = coincident(case, s)
        # LsaSpec validation of every recorded scipy call + cost matrix correspondence
        cm = M.get("cm", [])
        pos = 0
        if len(info["rec"]) > len(edges):
            chk.disagree("one linear_sum_assignment call per edge type", small, len(info["rec"]), len(edges))
        for k, (mat, ans, exc) in enumerate(info["rec"][:len(edges)]):
            if mat.ndim != 2 or pos + 2 > len(cm):
                chk.disagree("cost matrix passed to linear_sum_assignment == costMatrix", small, mat.tolist(), cm)
                break
            nr, nc = mat.shape
            fm = [[F(mat[i, j]) for j in range(nc)] for i in range(nr)]
            if exc is not None and not (isinstance(exc, ValueError) and "infeasible" in str(exc)):
                chk.fail(f"linear_sum_assignment raised {type(exc).__name__}: {exc}", small, str(exc), ["solver_raise"])
            err = lsa_contract(fm, ans)
            chk.tag("lsa_calls")
            chk.tag(f"lsa_mindim{min(nr, nc)}" + ("_rect" if nr != nc else ""))
            if ans and info["mats"][k]:
                inv = [(i, j) for i, j in ans if i < nr and j < nc and info["mats"][k][i][j] is None]
                if inv:
                    chk.tag("forced_invalid" if min(nr, nc) > 1 else "forced_invalid_1x1")
                    if len(inv) < len(ans):
                        chk.tag("mixed_answer")
            if err:
                chk.broken.append(f"assumed contract LsaSpec violated by scipy on {mat.tolist()}: {err}")
            mr, mc = int(cm[pos]), int(cm[pos + 1])
            ent = cm[pos + 2: pos + 2 + mr * mc]
            pos += 2 + mr * mc
            ok = (mr, mc) == (nr, nc)
            if ok:
                valid = [[x is not None for x in row] for row in info["mats"][k]] if info["mats"][k] else []
                for i in range(nr):
                    for j in range(nc):
                        e = ent[i * nc + j]
                        if valid[i][j]:
                            ok &= (e != "nan" and fm[i][j] is not None and Fraction(e) == fm[i][j])
                        elif fixed:
                            ok &= (e != "nan" and fm[i][j] is not None and
                                   abs(Fraction(e) - fm[i][j]) <= Fraction(1, 10**6) * (1 + abs(Fraction(e))))
                        else:
                            ok &= (e == "nan" and fm[i][j] is None)
            if not ok:
                chk.disagree("cost matrix passed to linear_sum_assignment == costMatrix", small,
                             mat.tolist(), cm[pos - 2 - mr * mc: pos])
        # candidates
        ct = M.get("cand", ["0"])
        mc_ = sorted((int(ct[1 + 3 * i]), int(ct[2 + 3 * i]), int(ct[3 + 3 * i])) for i in range(int(ct[0])))
        if mc_ != info["cands"]:
            chk.disagree("get_connection_candidates == candidates", small, info["cands"], mc_)
        impl_status = "raise" if info["raise"] else "ok"
        key = None
        keyd = {k: v for k, v in small.items() if k != "pafs"}
        if impl_status == "raise":
            cls, msg = info["raise"][1], info["raise"][2]
            want = {"ValueError": "raise infeasible", "KeyError": "raise keyError", "AssertionError": "raise assertion"}.get(cls)
            if M["status"] != want:
                chk.disagree("grouping raises exactly where the model does", small, info["raise"], M["status"])
            sigs = [SIG] if (co and cls == "ValueError" and "infeasible" in msg) else ["other_raise"]
            chk.fail(f"grouping raised {cls}: {msg}", small, info["raise"], sigs)
            chk.tag("excluded_region_cases")
            tags.append("impl_raise")
            key = ("raise", json.dumps(keyd, sort_keys=True, default=str))
        else:
            if M["status"] != "ok":
                chk.disagree("grouping raises exactly where the model does", small, "ok", M["status"])
            else:
                # matches
                t = M["mt"]
                p, mm = 0, []
                for k in range(len(edges)):
                    c = int(t[p]); p += 1
                    mm.append([(int(t[p + 3 * i]), int(t[p + 3 * i + 1]),
                                None if t[p + 3 * i + 2] == "nan" else Fraction(t[p + 3 * i + 2])) for i in range(c)])
                    p += 3 * c
                if mm != info["matches"]:
                    chk.disagree("match_candidates_sample == matchAll", small,
                                 str(info["matches"]), str(mm))
                # sorted_edge_inds, and the connection dict / instance dict seen at assign_connections_to_instances
                if [int(x) for x in M.get("order", [])] != rec["order"]:
                    chk.disagree("PAFScorer.sorted_edge_inds == Toposort.toposort (C17 model)", small,
                                 rec["order"], M.get("order"))
                ar = info.get("assign_rec", [])
                if len(ar) != 1:
                    chk.disagree("one assign_connections_to_instances call per sample", small, len(ar), 1)
                else:
                    t = M["conn"]
                    mconn = [(int(t[1 + 5 * i]), int(t[2 + 5 * i]), int(t[3 + 5 * i]), int(t[4 + 5 * i]),
                              Fraction(t[5 + 5 * i])) for i in range(int(t[0]))]
                    iconn = [(u, si, v, di, Fraction(sc)) for u, si, v, di, sc in ar[0][0]]
                    if mconn != iconn:
                        chk.disagree("connections dict (edge order, match order, scores) == connections", small,
                                     str(iconn), str(mconn))
                    t = M["asg"]
                    masg = [(int(t[1 + 3 * i]), int(t[2 + 3 * i]), int(t[3 + 3 * i])) for i in range(int(t[0]))]
                    if masg != ar[0][1]:
                        chk.disagree("instance_assignments dict (insertion order, ids) == assignConnections", small,
                                     str(ar[0][1]), str(masg))
                # instances
                t = M["inst"]
                ni = int(t[0])
                inst, pvals, iscores = info["out"]
                okc = inst.shape == (ni, n, 2) and pvals.shape == (ni, n) and iscores.shape == (ni,)
                scale = 1 + sum(abs(float(sc)) for mk_ in info["matches"] for _, _, sc in mk_)
                if okc:
                    for r_ in range(ni):
                        row = t[1 + r_ * (n + 1): 1 + (r_ + 1) * (n + 1)]
                        for node in range(n):
                            g = int(row[node])
                            x, y, pv = float(inst[r_][node][0]), float(inst[r_][node][1]), float(pvals[r_][node])
                            if g < 0:
                                okc &= (x != x and y != y and pv != pv)
                            else:
                                okc &= (x == s["peaks"][g][0] and y == s["peaks"][g][1] and pv == s["vals"][g])
                        okc &= abs(float(Fraction(row[n])) - float(iscores[r_])) <= 1e-5 * scale
                if not okc:
                    chk.disagree("group_instances_sample == groupSample (instances)", small,
                                 {"inst": inst.tolist(), "vals": pvals.tolist(), "scores": iscores.tolist()}, " ".join(t))
                for c_ in M.get("cases", []):
                    chk.tag("case" + c_)
                if ni:
                    tags.append(f"inst{min(ni, 5)}")
                if co:
                    tags.append("coincident_ok")
                    chk.tag("excluded_region_cases")
                if s["channels"]:
                    key = ("ok", json.dumps(keyd, sort_keys=True, default=str))
            # the property itself on the implementation
            why = oracle_sample(case, s, info["mats"], info["matches"], min_line32, info["out"])
            if why:
                chk.fail("C08 fails: " + "; ".join(why[:3]), small,
                         {"matches": str(info["matches"]), "inst": info["out"][0].tolist()}, ["partition_broken"])
        chk.case(key, {"n": n, "edges": edges, "channels": s["channels"], "impl": impl_status,
                       "model": M["status"], "n_inst": int(M["inst"][0]) if "inst" in M else None}, tags)


def check_assign_cases(chk, impl, cases):
    np, pg = impl.np, impl.pg
    lines = []
    impls = []
    for c in cases:
        n, k = c["n"], c["k"]
        conns = {}
        for u, v, l in c["groups"]:
            conns[pg.EdgeType(u, v)] = [pg.EdgeConnection(np.int32(s), np.int32(d), np.float32(sc)) for s, d, sc in l]
        mip = c["min_instance_peaks"]
        a = call(lambda: pg.assign_connections_to_instances(conns, min_instance_peaks=mip, n_nodes=n))
        if a[0] == "raise":
            impls.append(("raise-assign",) + a[1:])
        else:
            items = [(int(p.node_ind), int(p.peak_ind), int(i)) for p, i in a[1].items()]
            peaks = [np.array([[node, j] for j in range(k)], dtype="float32") for node in range(n)]
            pvals = [np.array([node * 10 + j for j in range(k)], dtype="float32") for node in range(n)]
            m = call(lambda: pg.make_predicted_instances(peaks, pvals, conns, dict(a[1])))
            if m[0] == "raise":
                impls.append((items, "raise " + {"KeyError": "keyError", "AssertionError": "assertion"}.get(m[1], m[1])))
            else:
                inst, pv, isc = m[1]
                rows = []
                for r in range(len(inst)):
                    row = []
                    for node in range(n):
                        x = float(inst[r][node][1])
                        okp = (x != x) == (float(pv[r][node]) != float(pv[r][node]))
                        row.append(-1 if x != x else int(x))
                        if x == x and (float(inst[r][node][0]) != node or float(pv[r][node]) != node * 10 + int(x) or not okp):
                            row[-1] = -2
                    rows.append((row, Fraction(float(isc[r]))))
                impls.append((items, rows))
        parts = ["assign", str(n), mp_tok(mip), str(len(c["groups"]))]
        for u, v, l in c["groups"]:
            parts.append(f"{u} {v} " + lst(l, lambda x: f"{x[0]} {x[1]} {rat(float(x[2]))}"))
        lines.append(" ".join(parts))
    outs = run_driver("C08.lean", lines)
    for c, i, o in zip(cases, impls, outs):
        secs = [s.strip() for s in o.split("|")]
        if secs[0] == "bad-op":
            raise RuntimeError("driver rejected assign line")
        t = secs[0].split()
        items = [(int(t[2 + 3 * j]), int(t[3 + 3 * j]), int(t[4 + 3 * j])) for j in range(int(t[1]))]
        cases_t = secs[1].split()[1:]
        for x in cases_t:
            chk.tag("unit_case" + x)
        res = secs[2].split()
        if res[0] == "raise":
            mres = "raise " + res[1]
        else:
            ni, n = int(res[2]), c["n"]
            mres = [([int(x) for x in res[3 + r * (n + 1): 3 + r * (n + 1) + n]], Fraction(res[3 + r * (n + 1) + n]))
                    for r in range(ni)]
        model = (items, mres)
        chk.case(("assign", json.dumps(c, sort_keys=True)), None,
                 ["assign_" + c["kind"], "assign_raise" if isinstance(mres, str) else "assign_ok"])
        if i[0] == "raise-assign" or tuple(i) != model:
            chk.disagree("assign_connections_to_instances/make_predicted_instances == assignConnections/makeInstances",
                         c, str(i), str(model))


def main(chk: Check):
    chk.build_and_audit()
    import_repo()
    impl = Impl()
    rng = chk.rng
    impl.torch.manual_seed(rng.randrange(2**31))

    # ---- known finding F-C08: replay the witness on the real code; it also tells which tree we face
    w = run_witness(impl)
    as_is = w[0] == "raise" and w[1] == "ValueError" and "infeasible" in w[2]
    fixed = not as_is
    chk.extra["tree_variant"] = "repaired (fixes/C08-infeasible.patch applied)" if fixed else "as pinned (F-C08 present)"
    if any(f["id"] == "F-C08" for f in chk.known):
        chk.known_replay("F-C08", still_fails=(w[0] == "raise"), detail="the witness returns instances" if w[0] == "ok" else str(w)[:200])
    elif w[0] == "raise":
        chk.fail("F-C08 witness raises and no known-finding entry exists", WITNESS, w, [SIG])

    # ---- corpus first
    cases = []
    cdir = CORPUS / "C08"
    if cdir.is_dir():
        for f in sorted(cdir.glob("*.json")):
            cases.append(("corpus", json.loads(f.read_text())))
    for _ in range(chk.n(1200, 8000)):
        cases.append(("gen", gen_case(rng)))
    for _ in range(chk.n(60, 600)):
        cases.append(("big", gen_case(rng, big=True)))
    # frames without any candidate connection before / between / after populated frames, all-empty batches
    for pat in PATTERNS:
        for _ in range(chk.n(3, 30)):
            cases.append(("pattern_" + pat, gen_case(rng, pattern=pat)))
    check_cases(chk, impl, cases, fixed)
    # report a whole-batch failure first (only the first three failing inputs get a replay file)
    chk.failing.sort(key=lambda f: 0 if "call_history" in f["signatures"] and "history" in str(f["what"])
                     else 1 if "batch_glue" in f["signatures"] else 2 if "input_mutated" in f["signatures"] else 3)
    check_assign_cases(chk, impl, [gen_assign_case(rng) for _ in range(chk.n(3000, 20000))])


def replay(chk: Check, payload):
    import_repo()
    impl = Impl()
    w = run_witness(impl)
    fixed = not (w[0] == "raise" and w[1] == "ValueError")
    case = payload.get("case") or payload["disagreements"][0]["case"]
    if "case" in case and "sample" not in case:
        case = case["case"]
    if "sample" in case:  # a per-sample case as written by compare_case
        p = case["params"]
        case = {"n": case["n"], "edges": case["edges"], "stride": p["stride"], "samples": [case["sample"]],
                "pafs": [case["pafs"]], **{k: p[k] for k in p if k != "stride"}}
    if "groups" in case:
        check_assign_cases(chk, impl, [case])
    else:
        check_case(chk, impl, case, fixed, "replay")
    print(f"replayed: disagreements={len(chk.disagreements)} failing={len(chk.failing)}")


if __name__ == "__main__":
    chk = Check(
        "C08", module="SleapVerif.Props.C08", theorems=THEOREMS,
        build_targets=["SleapVerif.Model.Grouping", "SleapVerif.Model.Toposort", "SleapVerif.Model.Proto"],
        trusted=[
            "Lean 4.33 kernel; axioms ⊆ {propext, Classical.choice, Quot.sound} (audited per run)",
            "hand-written model Grouping.lean of get_connection_candidates / match_candidates_sample / "
            "group_instances_sample / assign_connections_to_instances / make_predicted_instances; tied to /repo by "
            "the correspondence on the explored inputs only",
            "scipy.optimize.linear_sum_assignment is a parameter with contract LsaSpec (saturating min-cost matching "
            "avoiding inf entries; raises iff none exists): validated by brute force on every recorded call, not proved",
            "line scores are inputs of the model (their arithmetic is C03's); float32 instance-score accumulation is "
            "compared to the exact rational sum with tolerance 1e-5·(1+Σ|score|)",
            "sorted_edge_inds comes from the C17 model (Toposort.toposort), whose theorems supply the parent-first order",
        ],
        rule="tree skeletons of 2..7 nodes in random listings x batches of 1..4 frames, plus every run the frame patterns "
             "E EE EEE EP PE PEP EPE PPE EPP PEEP S SP PS PSP SS ESP NP PN PNP EN (P populated, E empty, S one node type "
             "only, N only pairwise non-adjacent node types) through score/match/group_instances_batch and predict "
             "(empty frames, 0..5 peaks per "
             "node on a 1/4-pixel lattice, peaks outside the PAF extent, peaks coinciding with a peak of another node "
             "type or of the same node type, shuffled channel order) x PAF tensors (noise on a 1/8 lattice, constant fields, mixed, zero) "
             "(20 % of the cases with NaN/±inf entries) x scorer "
             "parameters (n_points, min_line_scores incl. one equal to an actual score, min_instance_peaks int / dyadic "
             "and non-dyadic float, "
             "max_edge_length_ratio, dist_penalty_weight); plus arbitrary (also non-tree, non-one-to-one) connection "
             "dicts at unit level. distinct = distinct (skeleton, sample peaks, parameters) with at least one peak / "
             "distinct connection dict; empty samples are trivial",
        assumptions=[
            "peak coordinates are finite; PAF entries are arbitrary float32 incl. NaN/±inf (magnitudes ≤ 2: with huge "
            "magnitudes scipy's float64 optimum is only optimal up to rounding and the contract check would need a "
            "magnitude-dependent tolerance)",
            "the peak values of one node type are pairwise distinct (the oracle identifies a peak by (node, value); "
            "coordinates of one node type may coincide)",
            "min_line_scores is passed to the model as the float32 value NumPy compares against; a float "
            "min_instance_peaks as the exact rational of the double, the model rounds the product to float64 itself",
            "skeleton is a tree without duplicate edges (C17's Arbo)",
        ],
    )
    run_check(chk, main, replay)
