"""C12 — a frame's predictions are independent of batch-mates and carry its indices.

Model: lean/SleapVerif/Model/Decode.lean (batch plumbing); theorems: lean/SleapVerif/Props/C12.lean.
Correspondence: the REAL TopDownPredictor / SingleInstancePredictor (`make_pipeline`, reader threads,
`_predict_generator` batching, CentroidCrop.forward/_generate_crops, FindInstancePeaks,
TopDownInferenceModel, SingleInstanceInferenceModel) around ideal-network stubs, on frame lists of
mixed composition (0…4 animals, several videos, shuffled labeled frames), for batch sizes 1…5,
max_instances ∈ {None, 1, 2}, both refinements; the batch composition is controlled through the order
of the labeled frames and the batch size.  Every run is compared with the Lean driver
(`predictGen B (centroidCrop mi)`) and — independently of the model — with per-frame runs (B = 1)
and a permuted run.  Which frame a row was computed from is read from the pixels by the stub, never
from the pipeline's `frame_idx` / `video_idx`.
"""
import json

import numpy as np

from common import CORPUS, Check, import_repo, run_check, run_driver, rat
import stubs
import c02
from c02 import frames_of, gen_single_case, gen_topdown_case, impl_single, impl_topdown

THEOREMS = [
    "SleapVerif.Decode.centroidCrop_eq",
    "SleapVerif.Decode.sel_flatFrom",
    "SleapVerif.Decode.replicated_rows",
    "SleapVerif.Decode.flatten_chunks",
    "SleapVerif.C12.centroidcrop_per_frame",
    "SleapVerif.C12.frame_alone",
    "SleapVerif.C12.forward_append",
    "SleapVerif.C12.topdown_perm_equivariant",
    "SleapVerif.C12.topdown_reverse",
    "SleapVerif.C12.single_perm_equivariant",
    "SleapVerif.C12.indices_carried",
    "SleapVerif.C12.empty_frames_neutral",
    "SleapVerif.C12.all_empty_none",
    "SleapVerif.C12.batchsize_irrelevant",
    "SleapVerif.C12.batchsize_irrelevant_single",
    "SleapVerif.C12.topk_keeps_highest",
]
TOL = 1e-6      # same input ⇒ same float32 arithmetic; coordinates/values compared at 1e-6
VAL_TIE = 1e-6


# ------------------------------------------------------------------ canonical forms
def pts_close(a, b, tol=TOL):
    if len(a) != len(b):
        return False
    for p, q in zip(a, b):
        if (p is None) != (q is None):
            return False
        if p is not None and (abs(p[0] - q[0]) > tol or abs(p[1] - q[1]) > tol):
            return False
    return True


def topdown_groups(rows):
    """[[(code, fidx, vidx, eff, animal, cval, pts, vals)…]…] from impl rows"""
    groups = {}
    for r in rows:
        groups.setdefault(r["group"], []).append(r)
    return [groups[g] for g in sorted(groups)]


def rows_by_code(rows):
    d = {}
    for r in rows:
        d.setdefault(r["code"], []).append(r)
    return d


def same_rows(a, b, topdown):
    if len(a) != len(b):
        return False
    for x, y in zip(a, b):
        if (x["fidx"], x["vidx"]) != (y["fidx"], y["vidx"]) or abs(x["eff"] - y["eff"]) > TOL:
            return False
        if topdown and (x["animal"] != y["animal"] or abs(x["cval"] - y["cval"]) > TOL
                        or max(abs(x["bbox_tl"][0] - y["bbox_tl"][0]), abs(x["bbox_tl"][1] - y["bbox_tl"][1])) > TOL):
            return False
        if not pts_close(x["pts"], y["pts"]) or any(abs(u - v) > TOL for u, v in zip(x["vals"], y["vals"])):
            return False
    return True


def brief(rows, topdown):
    return [[r["code"], r["fidx"], r["vidx"]] + ([r["animal"], round(r["cval"], 6)] if topdown else []) + [r["pts"]]
            for r in rows][:8]


# ------------------------------------------------------------------ top-down
def frame_peaks(fr, cen_entry, case):
    """harness's own reading of the centroid map of one frame: [(animal, cellx, celly, value)] in
    row-major cell order (what find_local_peaks yields for that sample)"""
    eff = float(stubs.eff_scale_nominal(fr.H, fr.W, case["max_hw"][0], case["max_hw"][1]))
    out = []
    for ai, an in enumerate(fr.animals):
        gx = an.centroid[0] * eff * case["sc"] / case["os_c"]
        gy = an.centroid[1] * eff * case["sc"] / case["os_c"]
        cx, cy, v = stubs.argmax_near(cen_entry["cms"], gx, gy)
        out.append((ai, cx, cy, float(v)))
    out.sort(key=lambda t: (t[2], t[1]))
    return out, eff


def check_topdown(chk, case):
    vids = frames_of(case)
    by_code = {f.code: f for v in vids for f in v}
    order = [tuple(o) for o in case["order"]]
    frames = [vids[v][k] for v, k in order]
    mi, B = case["max_instances"], case["batch"]
    small = {k: v for k, v in case.items()}
    try:
        rows_b, gsz_b, cen_b = impl_topdown(case, "LabelsReader", vids)
        rows_1, gsz_1, cen_1 = impl_topdown({**case, "batch": 1}, "LabelsReader", vids)
        perm = [tuple(o) for o in case["perm"]]
        rows_p, gsz_p, cen_p = impl_topdown({**case, "order": perm}, "LabelsReader", vids)
    except stubs.StubAmbiguous:
        chk.tag("stub_ambiguous_skipped")
        return
    except Exception as e:  # the real pipeline raised on a well-formed frame list
        chk.disagree("implementation raised where the model does not", small, f"raise:{type(e).__name__}: {str(e)[:200]}", "ok")
        chk.fail(f"C12: TopDownPredictor raised {type(e).__name__} on a well-formed frame list: {str(e)[:200]}", small, None)
        return
    if [c["code"] for c in cen_b] != [f.code for f in frames]:
        chk.disagree("every frame reaches the centroid network once, in reader order", small,
                     [c["code"] for c in cen_b], [f.code for f in frames])
        chk.fail("C12/C13: frames reach the network out of order / not exactly once", small, None)
        return
    # ---- model
    peaks, tie = [], False
    for fr, ce in zip(frames, cen_b):
        pk, eff = frame_peaks(fr, ce, case)
        vals = sorted(v for _, _, _, v in pk)
        if mi is not None and len(pk) > mi and any(b - a < VAL_TIE for a, b in zip(vals, vals[1:])):
            tie = True
        if len({(cx, cy) for _, cx, cy, _ in pk}) != len(pk):
            tie = True
        peaks.append((fr, pk, eff))
    if tie:
        chk.knife_edges += 1
        return
    fl = f"{len(frames)} " + " ".join(
        f"{fr.frame_idx} {fr.video} {rat(stubs.eff_scale_nominal(fr.H, fr.W, *case['max_hw']))} {len(pk)} "
        + " ".join(f"{ai} {rat(v)}" for ai, _, _, v in pk) for fr, pk, eff in peaks)
    lines = [f"gen {B} {'-' if mi is None else mi} {fl}", f"cc {'-' if mi is None else mi} {fl}",
             f"gen 1 {'-' if mi is None else mi} {fl}"]
    m_gen, m_cc, m_gen1 = (yield lines)

    def parse_groups(line):
        t = line.split()
        assert t[0] == "ok", line
        ng, pos, out = int(t[1]), 2, []
        for _ in range(ng):
            n = int(t[pos]); pos += 1
            g = []
            for _ in range(n):
                g.append((int(t[pos]), int(t[pos + 1]), float(c02.unrat(t[pos + 2])), int(t[pos + 3]),
                          float(c02.unrat(t[pos + 4]))))
                pos += 5
            out.append(g)
        return out
    mg = parse_groups(m_gen)
    if m_gen != m_cc or m_gen != m_gen1:
        chk.disagree("model: predictGen B = predictGen 1 = one batch (batchsize_irrelevant)", small, m_gen, m_cc)
    ig = [[(r["fidx"], r["vidx"], r["eff"], r["animal"], r["cval"]) for r in g] for g in topdown_groups(rows_b)]
    n_an = [len(f.animals) for f in frames]
    chk.case(("topdown", json.dumps(small, sort_keys=True)),
             {"case": "topdown", "B": B, "max_instances": mi, "refine": case["refine"], "animals_per_frame": n_an,
              "order": order, "impl_groups": [[list(x[:2]) + [x[3]] for x in g] for g in ig][:6], "model": m_gen[:300]},
             tags=["topdown", f"B={B}", f"mi={mi}", f"refine={case['refine']}",
                   "has_empty_frame" if 0 in n_an else "no_empty_frame",
                   "topk_active" if (mi is not None and any(n > mi for n in n_an)) else "topk_inactive",
                   f"videos={len(vids)}"])
    ok = len(ig) == len(mg) and all(
        len(a) == len(b) and all(x[:2] == y[:2] and x[3] == y[3] and abs(x[2] - y[2]) <= TOL and abs(x[4] - y[4]) <= TOL
                                 for x, y in zip(a, b)) for a, b in zip(ig, mg))
    if not ok:
        chk.disagree("TopDownPredictor groups == Decode.predictGen B (centroidCrop mi)", small,
                     [[list(x) for x in g] for g in ig][:8], m_gen[:600])
    # ---- property oracles on the implementation (independent of the model)
    why = []
    bb, b1, bp = rows_by_code(rows_b), rows_by_code(rows_1), rows_by_code(rows_p)
    for fr in frames:
        a, b, c = bb.get(fr.code, []), b1.get(fr.code, []), bp.get(fr.code, [])
        if not same_rows(a, b, True):
            why.append(f"frame (video {fr.video}, idx {fr.frame_idx}): records in a batch of {B} differ from the frame alone")
        if not same_rows(a, c, True):
            why.append(f"frame (video {fr.video}, idx {fr.frame_idx}): records change when the frame order is permuted")
        for r in a:
            if (r["fidx"], r["vidx"]) != (fr.frame_idx, fr.video):
                why.append(f"row computed from the image of (video {fr.video}, idx {fr.frame_idx}) carries "
                           f"(video {r['vidx']}, idx {r['fidx']})")
        if not fr.animals and a:
            why.append(f"empty frame (video {fr.video}, idx {fr.frame_idx}) produced {len(a)} rows")
        # the animals kept are the highest-scoring ones (values read by the harness from the rendered map)
        pk = next(p for f, p, _ in peaks if f is fr)
        want_n = len(pk) if mi is None else min(mi, len(pk))
        kept = sorted(r["animal"] for r in a)
        best = sorted(ai for ai, _, _, v in sorted(pk, key=lambda t: -t[3])[:want_n])
        if kept != best:
            why.append(f"frame (video {fr.video}, idx {fr.frame_idx}): kept animals {kept}, highest-scoring {best} "
                       f"(max_instances={mi}, values {[(ai, round(v, 4)) for ai, _, _, v in pk]})")
    n_groups_want = sum(1 for fr in frames if fr.animals)
    if len(gsz_b) != n_groups_want:
        why.append(f"{len(gsz_b)} output groups for {n_groups_want} frames with detections")
    if why:
        chk.fail("C12 fails on TopDownPredictor: " + "; ".join(why[:3]), small,
                 {"batch": brief(rows_b, True), "alone": brief(rows_1, True)})
    elif not ok:
        pass  # correspondence broken, property holds on this input: reported as no-failing-input by finish()


# ------------------------------------------------------------------ single instance
def check_single(chk, case):
    vids = frames_of(case)
    order = [tuple(o) for o in case["order"]]
    frames = [vids[v][k] for v, k in order]
    B = case["batch"]
    small = dict(case)
    try:
        rows_b, sizes_b = impl_single(case, "LabelsReader", vids)
        rows_1, sizes_1 = impl_single({**case, "batch": 1}, "LabelsReader", vids)
        rows_p, sizes_p = impl_single({**case, "order": [tuple(o) for o in case["perm"]]}, "LabelsReader", vids)
        rows_v, sizes_v = impl_single({**case, "order": None}, "VideoReader", vids)
        rows_v1, _ = impl_single({**case, "order": None, "batch": 1}, "VideoReader", vids)
    except stubs.StubAmbiguous:
        chk.tag("stub_ambiguous_skipped")
        return
    except Exception as e:
        chk.disagree("implementation raised where the model does not", small, f"raise:{type(e).__name__}: {str(e)[:200]}", "ok")
        chk.fail(f"C12: SingleInstancePredictor raised {type(e).__name__} on a well-formed frame list: {str(e)[:200]}", small, None)
        return
    (m_chunks, m_chunks_v) = (yield [f"chunks {B} {len(frames)}", f"chunks {B} {len(vids[0])}"])
    chk.case(("single", json.dumps(small, sort_keys=True)),
             {"case": "single", "B": B, "order": order, "sizes": sizes_b, "model": m_chunks},
             tags=["single", f"B={B}", f"refine={case['refine']}", f"videos={len(vids)}"])
    if "ok " + " ".join(map(str, sizes_b)) != m_chunks.strip() and not (not sizes_b and m_chunks.strip() == "ok"):
        chk.disagree("_predict_generator rows per output dict == Decode.chunks", small, sizes_b, m_chunks)
    if "ok " + " ".join(map(str, sizes_v)) != m_chunks_v.strip():
        chk.disagree("_predict_generator (VideoReader) rows per output dict == Decode.chunks", small, sizes_v, m_chunks_v)
    why = []
    if [r["code"] for r in rows_b] != [f.code for f in frames]:
        why.append("rows are not the frames in reader order")
    bb, b1, bp = rows_by_code(rows_b), rows_by_code(rows_1), rows_by_code(rows_p)
    for fr in frames:
        a, b, c = bb.get(fr.code, []), b1.get(fr.code, []), bp.get(fr.code, [])
        if len(a) != 1:
            why.append(f"frame (video {fr.video}, idx {fr.frame_idx}) has {len(a)} rows")
            continue
        if not same_rows(a, b, False):
            why.append(f"frame (video {fr.video}, idx {fr.frame_idx}): row in a batch of {B} differs from the frame alone")
        if not same_rows(a, c, False):
            why.append(f"frame (video {fr.video}, idx {fr.frame_idx}): row changes when the frame order is permuted")
        if (a[0]["fidx"], a[0]["vidx"]) != (fr.frame_idx, fr.video):
            why.append(f"row computed from the image of (video {fr.video}, idx {fr.frame_idx}) carries "
                       f"(video {a[0]['vidx']}, idx {a[0]['fidx']})")
    # VideoReader: video 0 in natural order, index = position
    if [r["code"] for r in rows_v] != [f.code for f in vids[0]] or \
            [(r["fidx"], r["vidx"]) for r in rows_v] != [(f.frame_idx, 0) for f in vids[0]]:
        why.append("VideoReader rows are not video 0's frames in order with their own indices")
    if not same_rows(rows_v, rows_v1, False):
        why.append(f"VideoReader: rows with batch size {B} differ from batch size 1")
    if why:
        chk.fail("C12 fails on SingleInstancePredictor: " + "; ".join(why[:3]), small,
                 {"batch": brief(rows_b, False), "alone": brief(rows_1, False)})


# ------------------------------------------------------------------ generators
def add_order(rng, case, subset=True):
    universe = [(vi, k) for vi, v in enumerate(case["videos"]) for k in range(len(v))]
    order = universe[:]
    rng.shuffle(order)
    if subset and len(order) > 2 and rng.random() < 0.3:
        order = order[:-1]
    perm = order[:]
    if len(perm) > 1:
        while perm == order:
            rng.shuffle(perm)
    case["order"], case["perm"] = [list(o) for o in order], [list(o) for o in perm]
    case["batch"] = rng.randrange(1, 6)
    return case


def gen_topdown(rng, i):
    refine = "integral" if (i // 3) % 2 else None
    mi = [None, 1, 2][i % 3]
    case = gen_topdown_case(rng, refine=refine, max_instances=mi, counts=(0, 0, 1, 2, 3, 3, 4))
    # more frames per video than C02 uses: 2-4
    for v in case["videos"]:
        while len(v) < 2:
            v.append(json.loads(json.dumps(v[0])))
    return add_order(rng, case)


def gen_single(rng, i):
    case = gen_single_case(rng, refine=("integral" if i % 3 == 2 else None))
    for v in case["videos"]:
        while len(v) < 2:
            v.append(json.loads(json.dumps(v[0])))
        # make duplicated frames distinguishable
        for k, f in enumerate(v):
            for a in f["animals"]:
                a["pts"] = [None if p is None else [min(p[0] + 0.5 * k, f["W"] - 1.5), p[1]] for p in a["pts"]]
    return add_order(rng, case)


def case_gen(chk, case):
    return check_single(chk, case) if case["pipeline"] == "single" else check_topdown(chk, case)


def run_cases(chk, cases, chunk=30):
    for c0 in range(0, len(cases), chunk):
        active = []
        for case in cases[c0:c0 + chunk]:
            g = case_gen(chk, case)
            try:
                active.append((g, next(g)))
            except StopIteration:
                pass
        while active:
            all_lines = [l for _, ls in active for l in ls]
            out = run_driver("C12.lean", all_lines) if all_lines else []
            nxt, pos = [], 0
            for g, ls in active:
                res = out[pos:pos + len(ls)]
                pos += len(ls)
                try:
                    nxt.append((g, g.send(res)))
                except StopIteration:
                    pass
            active = nxt


def main(chk: Check):
    chk.build_and_audit()
    import_repo()
    rng = chk.rng
    np.random.seed(rng.randrange(2 ** 31))
    import torch
    torch.manual_seed(rng.randrange(2 ** 31))
    cases = []
    for f in sorted((CORPUS / "C12").glob("*.json")) if (CORPUS / "C12").exists() else []:
        cases.append(json.loads(f.read_text()))
    for i in range(chk.n(45, 600)):
        cases.append(gen_topdown(rng, i))
    for i in range(chk.n(20, 300)):
        cases.append(gen_single(rng, i))
    run_cases(chk, cases)
    # model-only sanity of the chunking (cheap, exact): sizes of chunks B n
    lines = [f"chunks {b} {n}" for b in range(1, 6) for n in range(0, 12)]
    for line, out in zip(lines, run_driver("C12.lean", lines)):
        _, b, n = line.split()
        b, n = int(b), int(n)
        want = [min(b, n - i) for i in range(0, n, b)]
        if out.split()[1:] != [str(w) for w in want]:
            chk.disagree("Decode.chunks sizes", {"B": b, "n": n}, want, out)


def replay(chk: Check, payload):
    import_repo()
    case = payload.get("case") or payload["disagreements"][0]["case"]
    print("replay case:", json.dumps(case)[:400])
    run_cases(chk, [case])


if __name__ == "__main__":
    chk = Check(
        "C12", module="SleapVerif.Props.C12", theorems=THEOREMS,
        build_targets=["SleapVerif.Model.Decode", "SleapVerif.Model.Proto", "SleapVerif.Lemmas.DecodeBatch"],
        trusted=[
            "Lean 4.33 kernel; axioms ⊆ {propext, Classical.choice, Quot.sound} (audited per run)",
            "hand-written model of the batch plumbing in Decode.lean; tied to /repo by comparison on the explored batches only",
            "the network is sample-wise (a frame's maps depend on its own image only): true of the stubs by construction; "
            "for real conv nets in eval mode by design, not checked here",
            "find_local_peaks returns a frame's peaks in row-major cell order, one per separated animal (C06); the per-frame "
            "peak list the model receives is the harness's own reading of the rendered centroid map",
            "torch.topk order among exactly equal values is unspecified: ties are skipped and counted",
            "harness/stubs.py (frame identification from pixel intensity; in-memory sio.Video/Labels)",
        ],
        rule="frame lists of 2-8 labeled frames over 1-2 videos (sizes, size-matching, scales, strides, crop as in C02), 0-4 "
             "animals per frame mixed incl. empty frames, shuffled reader order with arbitrary frame indices, batch size 1..5, "
             "max_instances in {None,1,2}, refinement {none, integral}; each case = batch run + per-frame run (B=1) + permuted "
             "run (+ VideoReader B vs 1 for single-instance); distinct = distinct full case",
        assumptions=["bottom-up (its max_instances = sort by score, take k) is C03's pipeline and is not exercised here",
                     "max_instances = 0 is outside the model (the code raises in crop_bboxes)",
                     "animals of one frame are ≥ 7 centroid-grid cells apart (one local peak each)"],
    )
    run_check(chk, main, replay)
