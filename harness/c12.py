"""C12 — a frame's predictions are independent of batch-mates and carry its indices.

Model: lean/SleapVerif/Model/Decode.lean (batch plumbing); theorems: lean/SleapVerif/Props/C12.lean.
Correspondence: the REAL TopDownPredictor / SingleInstancePredictor (`make_pipeline`, reader threads,
`_predict_generator` batching, CentroidCrop.forward/_generate_crops, FindInstancePeaks,
TopDownInferenceModel, SingleInstanceInferenceModel) around ideal-network stubs, on frame lists of
mixed composition (0…4 animals, several videos, shuffled labeled frames), for batch sizes 1…5,
max_instances ∈ {None, 1, 2}, both refinements; the batch composition is controlled through the order
of the labeled frames and the batch size.  Every run is compared with the Lean driver
(`predictGen B (centroidCrop mi)`) and — independently of the model — with per-frame runs (B = 1)
and a permuted run.  Which frame a row was computed from is read from the pixels by the stub, never
from the pipeline's `frame_idx` / `video_idx`.
"""
import json
import math

import numpy as np

from common import CORPUS, Check, import_repo, run_check, run_driver, rat
import stubs
import c02
from c02 import frames_of, gen_single_case, gen_topdown_case, impl_single, impl_topdown

THEOREMS = [
    "SleapVerif.Decode.centroidCrop_eq",
    "SleapVerif.Decode.sel_flatFrom",
    "SleapVerif.Decode.replicated_rows",
    "SleapVerif.Decode.flatten_chunks",
    "SleapVerif.C12.centroidcrop_per_frame",
    "SleapVerif.C12.frame_alone",
    "SleapVerif.C12.forward_append",
    "SleapVerif.C12.topdown_perm_equivariant",
    "SleapVerif.C12.topdown_reverse",
    "SleapVerif.C12.single_perm_equivariant",
    "SleapVerif.C12.indices_carried",
    "SleapVerif.C12.empty_frames_neutral",
    "SleapVerif.C12.all_empty_none",
    "SleapVerif.C12.batchsize_irrelevant",
    "SleapVerif.C12.batchsize_irrelevant_single",
    "SleapVerif.C12.topk_keeps_highest",
    "SleapVerif.C12.bottomup_per_frame",
    "SleapVerif.C12.bottomup_perm_equivariant",
    "SleapVerif.C12.bottomup_batchsize_irrelevant",
    "SleapVerif.C12.keepTop_keeps_highest",
    "SleapVerif.C12.forward_mode_eval",
    "SleapVerif.C12.forward_mode_eval_append",
    "SleapVerif.C12.topdown_mode_per_frame",
    "SleapVerif.C12.forward_mode_asIs_counterexample",
    "SleapVerif.C12.forward_mode_eval_head",
    "SleapVerif.C12.gt_peaks_per_frame",
    "SleapVerif.C12.gt_peaks_append",
    "SleapVerif.C12.gt_peaks_perm",
    "SleapVerif.C12.gt_pad_rows",
    "SleapVerif.C12.single_indices_carried",
    "SleapVerif.C12.gt_indices_carried",
]
ULPS = 8        # same input ⇒ (today) the same float32 arithmetic; values are compared within a few float32 ulps
VAL_TIE = 1e-6


def tol_of(a, b=0.0):
    """tolerance for comparing two float32-computed numbers: ULPS ulps of their magnitude (floor 1.0)"""
    return ULPS * 2.0 ** -23 * max(1.0, abs(a), abs(b))


def close(a, b):
    return abs(a - b) <= tol_of(a, b)


TOL = tol_of(1.0)   # for values of magnitude ≤ 1 (confidences, eff_scale)


# ------------------------------------------------------------------ canonical forms
def pts_close(a, b, tol=None):
    if len(a) != len(b):
        return False
    for p, q in zip(a, b):
        if (p is None) != (q is None):
            return False
        if p is not None:
            for u, w in zip(p, q):
                if abs(u - w) > (tol if tol is not None else tol_of(u, w)):
                    return False
    return True


def topdown_groups(rows):
    """[[(code, fidx, vidx, eff, animal, cval, pts, vals)…]…] from impl rows"""
    groups = {}
    for r in rows:
        groups.setdefault(r["group"], []).append(r)
    return [groups[g] for g in sorted(groups)]


def rows_by_code(rows):
    d = {}
    for r in rows:
        d.setdefault(r["code"], []).append(r)
    return d


def same_rows(a, b, topdown):
    if len(a) != len(b):
        return False
    for x, y in zip(a, b):
        if (x["fidx"], x["vidx"]) != (y["fidx"], y["vidx"]) or not close(x["eff"], y["eff"]):
            return False
        if topdown and (x["animal"] != y["animal"] or not close(x["cval"], y["cval"])
                        or not close(x["bbox_tl"][0], y["bbox_tl"][0]) or not close(x["bbox_tl"][1], y["bbox_tl"][1])):
            return False
        if not pts_close(x["pts"], y["pts"]) or any(not close(u, v) for u, v in zip(x["vals"], y["vals"])):
            return False
    return True


def brief(rows, topdown):
    return [[r["code"], r["fidx"], r["vidx"]] + ([r["animal"], round(r["cval"], 6)] if topdown else []) + [r["pts"]]
            for r in rows][:8]


# ------------------------------------------------------------------ top-down
def frame_peaks(fr, cen_entry, case):
    """harness's own reading of the centroid map of one frame: [(bump, cellx, celly, value)] in row-major
    cell order (what find_local_peaks yields for that sample).  bump = index of a rendered labelled animal,
    or ("ph", j) for an unlabelled extra bump.  None = knife edge (a tied maximum is no strict local peak;
    two bumps on one cell merge into one peak)."""
    eff = float(stubs.eff_scale_nominal(fr.H, fr.W, case["max_hw"][0], case["max_hw"][1]))
    bumps = [(ai, an.centroid) for ai, an in enumerate(fr.animals) if an.rendered] + \
            [(("ph", j), ph) for j, ph in enumerate(fr.phantoms)]
    out = []
    cm = cen_entry["cms"]
    for bid, c in bumps:
        gx = c[0] * eff * case["sc"] / case["os_c"]
        gy = c[1] * eff * case["sc"] / case["os_c"]
        cx, cy, v = stubs.argmax_near(cm, gx, gy)
        y0, y1, x0, x1 = max(0, cy - 1), min(cm.shape[0], cy + 2), max(0, cx - 1), min(cm.shape[1], cx + 2)
        if int((cm[y0:y1, x0:x1] >= v - 1e-6).sum()) > 1:
            return None, eff
        if abs(v - c02.THR) < 1e-3:
            return None, eff                      # on the detection threshold
        if v > c02.THR:
            out.append((bid, cx, cy, float(v)))
    if len({(cx, cy) for _, cx, cy, _ in out}) != len(out):
        return None, eff
    out.sort(key=lambda t: (t[2], t[1]))
    return out, eff


def consumer_frames(predictor_outputs_fn):
    """run a REAL `_make_labeled_frames_from_generator` under the sleap-io 0.9.2 kwarg shim"""
    import sleap_io as sio
    orig = sio.PredictedInstance.from_numpy

    def shim(*a, **k):
        if "points" in k:
            k["points_data"] = k.pop("points")
        if "instance_score" in k:
            k["score"] = k.pop("instance_score")
        return orig(*a, **k)
    sio.PredictedInstance.from_numpy = shim
    try:
        return predictor_outputs_fn()
    finally:
        sio.PredictedInstance.from_numpy = orig


SIG_F32 = "frame_idx_float32_rounding"


def f32_rounded(fr, got_fidx):
    """structural predicate of F-C12c: the frame's index is not representable in float32 and the record
    carries exactly its float32 rounding"""
    return fr.frame_idx > 2 ** 24 and int(np.float32(fr.frame_idx)) == got_fidx and got_fidx != fr.frame_idx


def check_topdown(chk, case):
    vids = frames_of(case)
    order = [tuple(o) for o in case["order"]]
    frames = [vids[v][k] for v, k in order]
    mi, B = case["max_instances"], case["batch"]
    small = {k: v for k, v in case.items()}
    cc = {**case, "consumer": True}
    try:
        rows_b, gsz_b, cen_b = impl_topdown(cc, "LabelsReader", vids)
        lfs_b = c02.LAST.get("labeled_frames", [])
        rows_1, gsz_1, cen_1 = impl_topdown({**case, "batch": 1}, "LabelsReader", vids)
        perm = [tuple(o) for o in case["perm"]]
        rows_p, gsz_p, cen_p = impl_topdown({**case, "order": perm}, "LabelsReader", vids)
    except stubs.StubAmbiguous:
        chk.tag("stub_ambiguous_skipped")
        return
    except Exception as e:  # the real pipeline raised on a well-formed frame list
        chk.disagree("implementation raised where the model does not", small, f"raise:{type(e).__name__}: {str(e)[:200]}", "ok")
        chk.fail(f"C12: TopDownPredictor raised {type(e).__name__} on a well-formed frame list: {str(e)[:200]}", small, None)
        return
    if [c["code"] for c in cen_b] != [f.code for f in frames]:
        chk.disagree("every frame reaches the centroid network once, in reader order", small,
                     [c["code"] for c in cen_b], [f.code for f in frames])
        chk.fail("C12/C13: frames reach the network out of order / not exactly once", small, None)
        return
    n_an = [len(f.animals) for f in frames]
    big = any(f.frame_idx > 2 ** 24 for f in frames)
    for c0 in range(0, len(frames), B):
        if not any(n_an[c0:c0 + B]):
            chk.tag("all_empty_batch")
    # ---- model-free oracles first (they need no tie handling)
    why, why_f32 = [], []
    bb, b1, bp = rows_by_code(rows_b), rows_by_code(rows_1), rows_by_code(rows_p)
    for fr in frames:
        a, b, c = bb.get(fr.code, []), b1.get(fr.code, []), bp.get(fr.code, [])
        if not same_rows(a, b, True):
            why.append(f"frame (video {fr.video}, idx {fr.frame_idx}): records in a batch of {B} differ from the frame alone")
        if not same_rows(a, c, True):
            why.append(f"frame (video {fr.video}, idx {fr.frame_idx}): records change when the frame order is permuted")
        for r in a:
            if (r["fidx"], r["vidx"]) != (fr.frame_idx, fr.video):
                msg = (f"row computed from the image of (video {fr.video}, idx {fr.frame_idx}) carries "
                       f"(video {r['vidx']}, idx {r['fidx']})")
                (why_f32 if (r["vidx"] == fr.video and f32_rounded(fr, r["fidx"])) else why).append(msg)
        if not fr.animals and a:
            why.append(f"empty frame (video {fr.video}, idx {fr.frame_idx}) produced {len(a)} rows")
    n_groups_want = sum(1 for fr in frames if fr.animals)
    if len(gsz_b) != n_groups_want:
        why.append(f"{len(gsz_b)} output groups for {n_groups_want} frames with detections")
    # ---- the real consumer: one LabeledFrame per frame with detections, with that frame's (video, index),
    #      holding exactly the instances of the raw rows (peak + bbox top-left)
    want_lf = {}
    for fr in frames:
        if bb.get(fr.code):
            want_lf[(fr.video, fr.frame_idx)] = [r["pts"] for r in bb[fr.code]]
    got_lf = {}
    for v, f, insts in lfs_b:
        got_lf.setdefault((v, f), []).extend(insts)
    if len(lfs_b) != len(got_lf):
        why.append("the consumer produced two LabeledFrames for one (video, frame)")
    for key, insts in want_lf.items():
        g = got_lf.get(key)
        if g is None:
            fr = next(f for f in frames if (f.video, f.frame_idx) == key)
            alt = (key[0], int(np.float32(key[1])))
            msg = f"no LabeledFrame for (video {key[0]}, frame {key[1]}); consumer has {sorted(got_lf)[:6]}"
            (why_f32 if (key[1] > 2 ** 24 and alt in got_lf) else why).append(msg)
        elif len(g) != len(insts) or not all(pts_close(x, y, 1e-4) for x, y in zip(g, insts)):
            why.append(f"LabeledFrame (video {key[0]}, frame {key[1]}) does not hold the frame's {len(insts)} instances")
    extra = [k for k in got_lf if k not in want_lf]
    if extra:
        (why_f32 if all(k[1] >= 2 ** 24 for k in extra) and big else why).append(f"LabeledFrames for frames that have no rows: {extra[:4]}")
    chk.tag("consumer_topdown")
    # ---- model (needs the harness's reading of the centroid maps; knife edges skip only this part)
    peaks, tie = [], False
    for fr, ce in zip(frames, cen_b):
        pk, eff = frame_peaks(fr, ce, case)
        if pk is None:
            tie = True
            break
        vals = sorted(v for _, _, _, v in pk)
        if mi is not None and len(pk) > mi and any(b - a < VAL_TIE for a, b in zip(vals, vals[1:])):
            tie = True
        peaks.append((fr, pk, eff))
    ok = True
    if tie:
        chk.knife_edges += 1
    else:
        fl = f"{len(frames)} " + " ".join(
            f"{fr.frame_idx} {fr.video} {rat(stubs.eff_scale_nominal(fr.H, fr.W, *case['max_hw']))} {len(pk)} "
            + " ".join(f"{ai} {rat(v)}" for ai, _, _, v in pk) for fr, pk, eff in peaks)
        lines = [f"gen {B} {'-' if mi is None else mi} {fl}", f"cc {'-' if mi is None else mi} {fl}",
                 f"gen 1 {'-' if mi is None else mi} {fl}"]
        m_gen, m_cc, m_gen1 = (yield lines)

        def parse_groups(line):
            t = line.split()
            assert t[0] == "ok", line
            ng, pos, out = int(t[1]), 2, []
            for _ in range(ng):
                n = int(t[pos]); pos += 1
                g = []
                for _ in range(n):
                    g.append((int(t[pos]), int(t[pos + 1]), float(c02.unrat(t[pos + 2])), int(t[pos + 3]),
                              float(c02.unrat(t[pos + 4]))))
                    pos += 5
                out.append(g)
            return out
        mg = parse_groups(m_gen)
        if m_gen != m_cc or m_gen != m_gen1:
            chk.disagree("model: predictGen B = predictGen 1 = one batch (batchsize_irrelevant)", small, m_gen, m_cc)
        ig = [[(r["fidx"], r["vidx"], r["eff"], r["animal"], r["cval"]) for r in g] for g in topdown_groups(rows_b)]
        idx_ok = (lambda x, y: x[:2] == y[:2]) if not why_f32 else (lambda x, y: x[1] == y[1])
        ok = len(ig) == len(mg) and all(
            len(a) == len(b) and all(idx_ok(x, y) and x[3] == y[3] and close(x[2], y[2]) and close(x[4], y[4])
                                     for x, y in zip(a, b)) for a, b in zip(ig, mg))
        if not ok:
            chk.disagree("TopDownPredictor groups == Decode.predictGen B (centroidCrop mi)", small,
                         [[list(x) for x in g] for g in ig][:8], m_gen[:600])
        # the animals kept are the highest-scoring ones (values read by the harness from the rendered map)
        for fr in frames:
            pk = next(p for f, p, _ in peaks if f is fr)
            want_n = len(pk) if mi is None else min(mi, len(pk))
            kept = sorted(r["animal"] for r in bb.get(fr.code, []))
            best = sorted(ai for ai, _, _, v in sorted(pk, key=lambda t: -t[3])[:want_n])
            if kept != best:
                why.append(f"frame (video {fr.video}, idx {fr.frame_idx}): kept animals {kept}, highest-scoring {best} "
                           f"(max_instances={mi}, values {[(ai, round(v, 4)) for ai, _, _, v in pk]})")
            # … and every kept record is a (centroid, score) record of the unrestricted detection: the score it
            # carries is the value of ITS OWN centroid's peak (read by the harness from the rendered map)
            own = {ai: v for ai, _, _, v in pk}
            for r in bb.get(fr.code, []):
                if r["animal"] in own and not close(r["cval"], own[r["animal"]]):
                    why.append(f"frame (video {fr.video}, idx {fr.frame_idx}): the record of animal {r['animal']} carries "
                               f"centroid score {r['cval']:.6f}, its own detection has {own[r['animal']]:.6f} "
                               f"(max_instances={mi})")
    gains = sorted({a.gain for f in frames for a in f.animals})
    chk.case(("topdown", json.dumps(small, sort_keys=True)),
             {"case": "topdown", "B": B, "max_instances": mi, "refine": case["refine"], "animals_per_frame": n_an,
              "order": order, "frame_idx": [f.frame_idx for f in frames], "labeled_frames": [list(k) for k in got_lf][:6]},
             tags=["topdown", f"B={B}", f"mi={mi}", f"refine={case['refine']}",
                   "has_empty_frame" if 0 in n_an else "no_empty_frame",
                   "topk_active" if (mi is not None and any(n > mi for n in n_an)) else "topk_inactive",
                   "peak_heights_varied" if len(gains) > 1 else "peak_heights_equal",
                   "frame_idx>2^24" if big else "frame_idx_small",
                   f"videos={len(vids)}"] + ([f"bias={case['bias']}"] if case.get("bias") else [])
             + (["videos_share_filename"] if case.get("same_filename") else []))
    if why_f32 and not why:
        chk.fail("C12: top-down records of frames with index > 2^24 carry the float32 rounding of the index: "
                 + "; ".join(why_f32[:2]), small, {"frame_idx": [f.frame_idx for f in frames],
                                                    "rows": sorted({(r["vidx"], r["fidx"]) for r in rows_b})}, [SIG_F32])
    if why:
        chk.fail("C12 fails on TopDownPredictor: " + "; ".join(why[:3]), small,
                 {"batch": brief(rows_b, True), "alone": brief(rows_1, True)})


# ------------------------------------------------------------------ single instance
def check_single(chk, case):
    vids = frames_of(case)
    order = [tuple(o) for o in case["order"]]
    frames = [vids[v][k] for v, k in order]
    B = case["batch"]
    small = dict(case)
    try:
        rows_b, sizes_b = impl_single({**case, "consumer": True}, "LabelsReader", vids)
        lfs_b = c02.LAST.get("labeled_frames", [])
        rows_1, sizes_1 = impl_single({**case, "batch": 1}, "LabelsReader", vids)
        rows_p, sizes_p = impl_single({**case, "order": [tuple(o) for o in case["perm"]]}, "LabelsReader", vids)
        dense = [f.frame_idx for f in vids[0]] == list(range(len(vids[0])))
        if dense:    # VideoReader walks range(0, n_frames): only for videos without index gaps
            rows_v, sizes_v = impl_single({**case, "order": None}, "VideoReader", vids)
            rows_v1, _ = impl_single({**case, "order": None, "batch": 1}, "VideoReader", vids)
        else:
            rows_v = rows_v1 = sizes_v = None
    except stubs.StubAmbiguous:
        chk.tag("stub_ambiguous_skipped")
        return
    except Exception as e:
        chk.disagree("implementation raised where the model does not", small, f"raise:{type(e).__name__}: {str(e)[:200]}", "ok")
        chk.fail(f"C12: SingleInstancePredictor raised {type(e).__name__} on a well-formed frame list: {str(e)[:200]}", small, None)
        return
    (m_chunks, m_chunks_v) = (yield [f"chunks {B} {len(frames)}", f"chunks {B} {len(vids[0])}"])
    chk.case(("single", json.dumps(small, sort_keys=True)),
             {"case": "single", "B": B, "order": order, "sizes": sizes_b, "model": m_chunks},
             tags=["single", f"B={B}", f"refine={case['refine']}", f"videos={len(vids)}",
                   "frame_idx>2^24" if any(f.frame_idx > 2 ** 24 for f in frames) else "frame_idx_small"]
             + ([f"bias={case['bias']}"] if case.get("bias") else [])
             + (["videos_share_filename"] if case.get("same_filename") else []))
    if "ok " + " ".join(map(str, sizes_b)) != m_chunks.strip() and not (not sizes_b and m_chunks.strip() == "ok"):
        chk.disagree("_predict_generator rows per output dict == Decode.chunks", small, sizes_b, m_chunks)
    if sizes_v is not None and "ok " + " ".join(map(str, sizes_v)) != m_chunks_v.strip():
        chk.disagree("_predict_generator (VideoReader) rows per output dict == Decode.chunks", small, sizes_v, m_chunks_v)
    why = []
    if [r["code"] for r in rows_b] != [f.code for f in frames]:
        why.append("rows are not the frames in reader order")
    bb, b1, bp = rows_by_code(rows_b), rows_by_code(rows_1), rows_by_code(rows_p)
    for fr in frames:
        a, b, c = bb.get(fr.code, []), b1.get(fr.code, []), bp.get(fr.code, [])
        if len(a) != 1:
            why.append(f"frame (video {fr.video}, idx {fr.frame_idx}) has {len(a)} rows")
            continue
        if not same_rows(a, b, False):
            why.append(f"frame (video {fr.video}, idx {fr.frame_idx}): row in a batch of {B} differs from the frame alone")
        if not same_rows(a, c, False):
            why.append(f"frame (video {fr.video}, idx {fr.frame_idx}): row changes when the frame order is permuted")
        if (a[0]["fidx"], a[0]["vidx"]) != (fr.frame_idx, fr.video):
            why.append(f"row computed from the image of (video {fr.video}, idx {fr.frame_idx}) carries "
                       f"(video {a[0]['vidx']}, idx {a[0]['fidx']})")
    # VideoReader: video 0 in natural order, index = position
    if rows_v is not None:
        if [r["code"] for r in rows_v] != [f.code for f in vids[0]] or \
                [(r["fidx"], r["vidx"]) for r in rows_v] != [(f.frame_idx, 0) for f in vids[0]]:
            why.append("VideoReader rows are not video 0's frames in order with their own indices")
        if not same_rows(rows_v, rows_v1, False):
            why.append(f"VideoReader: rows with batch size {B} differ from batch size 1")
    # the real consumer: one LabeledFrame per frame, in order, with the frame's (video, index) and its row
    chk.tag("consumer_single")
    if [(v, f) for v, f, _ in lfs_b] != [(fr.video, fr.frame_idx) for fr in frames]:
        why.append(f"consumer LabeledFrames {[(v, f) for v, f, _ in lfs_b][:6]} are not the frames "
                   f"{[(fr.video, fr.frame_idx) for fr in frames][:6]} in order")
    else:
        for (v, f, insts), r in zip(lfs_b, rows_b):
            if len(insts) != 1 or not pts_close(insts[0], r["pts"], 1e-4):
                why.append(f"LabeledFrame (video {v}, frame {f}) does not hold the frame's row")
                break
    if why:
        chk.fail("C12 fails on SingleInstancePredictor: " + "; ".join(why[:3]), small,
                 {"batch": brief(rows_b, False), "alone": brief(rows_1, False)})


# ------------------------------------------------------------------ top-down with ground-truth CENTROIDS
def impl_gtc(case, vids):
    return c02.impl_gtc(case, vids)


def check_gtc(chk, case):
    if False:
        yield []        # (a generator like the other checks; this one has no model query)
    vids = frames_of(case)
    order = [tuple(o) for o in case["order"]]
    frames = [vids[v][k] for v, k in order]
    B = case["batch"]
    small = dict(case)
    try:
        rows_b, lfs_b = impl_gtc(case, vids)
        rows_1, _ = impl_gtc({**case, "batch": 1}, vids)
        rows_p, _ = impl_gtc({**case, "order": [tuple(o) for o in case["perm"]]}, vids)
    except stubs.StubAmbiguous:
        chk.tag("stub_ambiguous_skipped")
        return
    except Exception as e:
        chk.disagree("implementation raised where the model does not", small, f"raise:{type(e).__name__}: {str(e)[:200]}", "ok")
        chk.fail(f"C12: top-down with ground-truth centroids raised {type(e).__name__} on a well-formed frame list: {str(e)[:200]}",
                 small, None)
        return
    n_an = [len(f.animals) for f in frames]
    chk.case(("gtc", json.dumps(small, sort_keys=True)),
             {"case": "gt_centroids", "B": B, "animals_per_frame": n_an, "order": order, "rows": len(rows_b)},
             tags=["gt_centroids", f"B={B}", "frame_idx>2^24" if any(f.frame_idx > 2 ** 24 for f in frames) else "frame_idx_small"])
    why, why_f32 = [], []
    bb, b1, bp = rows_by_code(rows_b), rows_by_code(rows_1), rows_by_code(rows_p)
    for fr in frames:
        a, b, c = bb.get(fr.code, []), b1.get(fr.code, []), bp.get(fr.code, [])
        if not same_rows(a, b, True):
            why.append(f"frame (video {fr.video}, idx {fr.frame_idx}): records in a batch of {B} differ from the frame alone")
        if not same_rows(a, c, True):
            why.append(f"frame (video {fr.video}, idx {fr.frame_idx}): records change when the frame order is permuted")
        if sorted(r["animal"] for r in a) != list(range(len(fr.animals))):
            why.append(f"frame (video {fr.video}, idx {fr.frame_idx}): crops for animals {sorted(r['animal'] for r in a)}, "
                       f"{len(fr.animals)} labelled")
        for r in a:
            if (r["fidx"], r["vidx"]) != (fr.frame_idx, fr.video):
                msg = (f"row computed from the image of (video {fr.video}, idx {fr.frame_idx}) carries "
                       f"(video {r['vidx']}, idx {r['fidx']})")
                (why_f32 if (r["vidx"] == fr.video and f32_rounded(fr, r["fidx"])) else why).append(msg)
    got = {}
    for v, f, insts in lfs_b:
        got.setdefault((v, f), []).extend(insts)
    for fr in frames:
        key = (fr.video, fr.frame_idx)
        rws = bb.get(fr.code, [])
        g = got.get(key)
        if g is None:
            (why_f32 if fr.frame_idx > 2 ** 24 and (fr.video, int(np.float32(fr.frame_idx))) in got else why).append(
                f"no LabeledFrame for (video {key[0]}, frame {key[1]})")
        elif len(g) != len(rws) or not all(pts_close(x, r["pts"], 1e-4) for x, r in zip(g, rws)):
            why.append(f"LabeledFrame (video {key[0]}, frame {key[1]}) does not hold the frame's {len(rws)} instances")
    if why_f32 and not why:
        chk.fail("C12: top-down records of frames with index > 2^24 carry the float32 rounding of the index: "
                 + "; ".join(why_f32[:2]), small, None, [SIG_F32])
    if why:
        chk.fail("C12 fails on top-down with ground-truth centroids: " + "; ".join(why[:3]), small,
                 {"batch": brief(rows_b, True), "alone": brief(rows_1, True)})


def gen_gtc(rng, i):
    """centred-instance-only predictor: crops around GROUND-TRUTH centroids (bbox midpoint of the visible
    nodes); every instance-stage scale (F-C02c fixed in 27bfe14); 1…4 animals mixed"""
    for _ in range(60):
        case = gen_topdown_case(rng, refine=("integral" if i % 2 else None), max_instances=None, counts=(1, 2, 2, 3, 4))
        case["videos"] = case["videos"][:1]
        v = case["videos"][0]
        while len(v) < 3:
            v.append(json.loads(json.dumps(v[rng.randrange(len(v))])))
        if all(f["animals"] for f in v) and len({len(f["animals"]) for f in v}) > 1:
            break
    for f in v:
        for a in f["animals"]:
            if all(p is None for p in a["pts"]):
                a["pts"][0] = list(a["centroid"])
            vis = [p for p in a["pts"] if p is not None]
            a["centroid"] = [(min(p[0] for p in vis) + max(p[0] for p in vis)) / 2,
                             (min(p[1] for p in vis) + max(p[1] for p in vis)) / 2]
    case["pipeline"] = "gtc"
    if i % 3 == 2:
        sparse_indices(rng, case)
    return add_order(rng, case, subset=False)


# ------------------------------------------------------------------ top-down with ground-truth peaks
SIG_GT_EFF = "gt_peaks_match_mixes_eff_scale"


def impl_gt(case, vids):
    """REAL TopDownPredictor(centroid model only) → CentroidCrop(return_crops=False) +
    FindInstancePeaksGroundTruth, LabelsReader with `instances_key=True`."""
    flat = [f for v in vids for f in v]
    scene = stubs.Scene(flat, case["n_nodes"])
    labels, _ = stubs.make_labels(vids, node_names=[f"n{i}" for i in range(case["n_nodes"])], order=case.get("order"),
                                  same_name=bool(case.get("same_filename")))
    p, cnet = stubs.build_topdown_gt(scene, labels.skeletons, sc=case["sc"], os_c=case["os_c"], ms_c=case["ms_c"],
                                     max_hw=tuple(case["max_hw"]), batch_size=case["batch"], refinement=case["refine"],
                                     max_instances=case.get("max_instances"), threshold=c02.THR)
    out = stubs.run_predict(p, "LabelsReader", labels)
    rows, sizes = [], []
    for di, o in enumerate(out):
        n = len(o["frame_idx"])
        sizes.append(n)
        for b in range(n):
            insts = []
            for inst in o["pred_instance_peaks"][b]:
                insts.append(None if np.isnan(inst).all() else
                             [None if np.isnan(q).any() else [float(q[0]), float(q[1])] for q in inst])
            rows.append({"code": cnet.log[di][b]["code"], "fidx": int(o["frame_idx"][b]), "vidx": int(o["video_idx"][b]),
                         "insts": insts, "cms": cnet.cms_log[di][b, 0]})
    return rows, sizes


def gt_same(a, b):
    if (a["fidx"], a["vidx"]) != (b["fidx"], b["vidx"]):
        return False
    # compare the non-NaN rows in order (the amount of NaN padding legitimately depends on the labels' maximum)
    xa, xb = [i for i in a["insts"] if i is not None], [i for i in b["insts"] if i is not None]
    return len(xa) == len(xb) and all(pts_close(p, q) for p, q in zip(xa, xb))


def which_animal(fr, inst):
    """index of the labelled animal of frame `fr` whose points `inst` reproduces (1e-3 px), else None"""
    for ai, an in enumerate(fr.animals):
        if pts_close(inst, [None if p is None else list(p) for p in an.pts], 1e-3):
            return ai
    return None


def gt_expected(fr, pk, case, eff):
    """which labelled animal every detected centroid is paired with: the nearest instance (min over its
    visible nodes) to the centroid estimate `cell·os/s/eff`, in original-image coordinates (HEAD, f7807c8)"""
    ids = []
    for _, cx, cy, _ in pk:
        c = (cx * case["os_c"] / case["sc"] / eff, cy * case["os_c"] / case["sc"] / eff)
        d = [min(math.hypot(p[0] - c[0], p[1] - c[1]) for p in an.pts if p is not None) for an in fr.animals]
        srt = sorted(d)
        if len(srt) > 1 and srt[1] - srt[0] < 1e-3:
            return None
        ids.append(int(np.argmin(d)))
    return ids


def check_gt(chk, case):
    vids = frames_of(case)
    order = [tuple(o) for o in case["order"]]
    frames = [vids[v][k] for v, k in order]
    B, mi = case["batch"], case.get("max_instances")
    small = dict(case)
    try:
        rows_b, sizes_b = impl_gt(case, vids)
        rows_1, _ = impl_gt({**case, "batch": 1}, vids)
        rows_p, _ = impl_gt({**case, "order": [tuple(o) for o in case["perm"]]}, vids)
    except stubs.StubAmbiguous:
        chk.tag("stub_ambiguous_skipped")
        return
    except Exception as e:
        chk.disagree("implementation raised where the model does not", small, f"raise:{type(e).__name__}: {str(e)[:200]}", "ok")
        chk.fail(f"C12: top-down with ground-truth peaks raised {type(e).__name__} on a well-formed frame list: {str(e)[:200]}",
                 small, None)
        return
    max_inst = max(len(f.animals) for v in vids for f in v)     # the reader pads to the labels' maximum
    n_an = [len(f.animals) for f in frames]
    n_bumps = [sum(a.rendered for a in f.animals) + len(f.phantoms) for f in frames]
    plain = all(a.rendered for f in frames for a in f.animals) and not any(f.phantoms for f in frames)
    # ---- model-free oracles first
    why, contract = [], {}
    if len(rows_b) != len(frames):
        chk.disagree("one output row block per frame", small, len(rows_b), len(frames))
        why.append(f"{len(rows_b)} row blocks for {len(frames)} frames")
    bb, b1, bp = rows_by_code(rows_b), rows_by_code(rows_1), rows_by_code(rows_p)
    for fr in frames:
        a, b, c = bb.get(fr.code, []), b1.get(fr.code, []), bp.get(fr.code, [])
        if len(a) != 1 or len(b) != 1 or len(c) != 1:
            why.append(f"frame (video {fr.video}, idx {fr.frame_idx}) has {len(a)}/{len(b)}/{len(c)} row blocks")
            continue
        a, b, c = a[0], b[0], c[0]
        if not gt_same(a, b):
            why.append(f"frame (video {fr.video}, idx {fr.frame_idx}): instances in a batch of {B} differ from the frame alone")
        if not gt_same(a, c):
            why.append(f"frame (video {fr.video}, idx {fr.frame_idx}): instances change when the frame order is permuted")
        if (a["fidx"], a["vidx"]) != (fr.frame_idx, fr.video):
            why.append(f"rows computed from the image of (video {fr.video}, idx {fr.frame_idx}) carry (video {a['vidx']}, idx {a['fidx']})")
        # every returned instance is one of THIS frame's labelled animals (a frame never gets another frame's)
        ids = [which_animal(fr, inst) for inst in a["insts"] if inst is not None]
        if None in ids:
            why.append(f"frame (video {fr.video}, idx {fr.frame_idx}) returns instances that are not its own labelled animals: {ids}")
        contract[fr.code] = sorted(ids)
    # ---- model: per frame the matched animals in centroid order (row-major cells, top-k by value when limited)
    per, tie = [], False
    for fr, r in zip(frames, rows_b):
        pk, eff = frame_peaks(fr, r, case)
        if pk is None:
            tie = True
            break
        if mi is not None and len(pk) > mi:
            vals = sorted(v for _, _, _, v in pk)
            if any(b - a < VAL_TIE for a, b in zip(vals, vals[1:])):
                tie = True
                break
            pk = sorted(pk, key=lambda t: -t[3])[:mi]
        ids = gt_expected(fr, pk, case, eff)
        if ids is None:
            tie = True
            break
        per.append(ids)
    if tie or len(rows_b) != len(frames):
        if tie:
            chk.knife_edges += 1
    else:
        # beyond C12's text (the matching contract of the GT path, C02's side; needs the knife-edge guard
        # above: every labelled animal detected exactly once): with no limit each animal is returned once
        if plain and mi is None:
            for fr in frames:
                if fr.code in contract and contract[fr.code] != list(range(len(fr.animals))):
                    why.append(f"[matching contract, beyond C12] frame (video {fr.video}, idx {fr.frame_idx}) returns "
                               f"animals {contract[fr.code]} of {len(fr.animals)} labelled")
        (ml,) = (yield [f"gtparse {max_inst} {len(per)} " + " ".join(f"{len(m)} " + " ".join(map(str, m)) for m in per)])
        toks = ml.split()[1:]
        for i, (fr, r) in enumerate(zip(frames, rows_b)):
            want = toks[i * max_inst:(i + 1) * max_inst]
            got = ["-" if inst is None else str(which_animal(fr, inst)) for inst in r["insts"]]
            if got != want:
                chk.disagree("FindInstancePeaksGroundTruth rows == Decode.gtPeaks", {**small, "position": i}, got, want)
                break
    chk.case(("gt", json.dumps(small, sort_keys=True)),
             {"case": "gt_peaks", "B": B, "max_instances": mi, "animals_per_frame": n_an, "centroids_per_frame": n_bumps,
              "order": order, "frame_idx": [f.frame_idx for f in frames]},
             tags=["gt_peaks", f"B={B}", f"mi={mi}", "gt_eff=1" if case["max_hw"][0] is None else "gt_eff!=1",
                   "fewer_than_max_before_another" if any(n < max_inst for n in n_an[:-1]) else "no_short_frame_first",
                   "gt_frame_without_match" if 0 in n_bumps else "gt_all_frames_matched",
                   "gt_more_centroids_than_slots" if any(n > max_inst for n in n_bumps) else "gt_centroids_fit",
                   "frame_idx>2^24" if any(f.frame_idx > 2 ** 24 for f in frames) else "frame_idx_small"]
             + ([f"bias={case['bias']}"] if case.get("bias") else [])
             + (["videos_share_filename"] if case.get("same_filename") else []))
    if why:
        chk.fail("C12 fails on top-down with ground-truth peaks: " + "; ".join(why[:3]), small,
                 {"batch": [[r["code"], r["fidx"], ["-" if i is None else "inst" for i in r["insts"]]] for r in rows_b][:8]})


BIG_IDX = [2 ** 24 + 1, 2 ** 24 + 5, 40_000, 7, 0, 2 ** 24 + 11, 123_456_789, 2 ** 24 + 17]


def sparse_indices(rng, case):
    """sparse / large frame indices (incl. values float32 cannot represent), distinct within a video"""
    for v in case["videos"]:
        picks = rng.sample(BIG_IDX, min(len(v), len(BIG_IDX)))
        for k, f in enumerate(v):
            f["frame_idx"] = picks[k % len(picks)] + (0 if k < len(picks) else 1000 * k)
    return case


def gen_gt(rng, i):
    """mixed animal counts (1…4), no empty frame (the reader cannot stack zero instances), keypoints
    close to the centroid (= node 0) so the nearest-instance match is the animal itself.  Variants:
    size matching (eff ≠ 1), frames whose animals the network does not see, extra unlabelled centroids
    (more centroids than labelled slots), varied bump heights, sparse/large frame indices."""
    variant = ["plain", "eff", "gains_mi", "hidden", "phantom", "sparse"][i % 6]

    def hw_fn(r, sizes):
        if variant == "eff" or (variant in ("hidden", "phantom") and r.random() < 0.5):
            e = r.choice([0.5, 0.75, 1.5, 2.0])
            return [int(sizes[0][0] * e), int(sizes[0][1] * e) + r.choice([0, 8])]
        return [None, None]
    for _ in range(80):
        case = gen_topdown_case(rng, refine=("integral" if i % 3 == 2 else None),
                                max_instances=(2 if variant == "gains_mi" else None),
                                counts=(1, 1, 2, 3, 4), max_hw_fn=hw_fn)
        case["videos"] = case["videos"][:1]
        v = case["videos"][0]
        while len(v) < 3:
            v.append(json.loads(json.dumps(v[rng.randrange(len(v))])))
        counts = [len(f["animals"]) for f in v]
        if all(counts) and len(set(counts)) > 1 and (variant != "phantom" or counts.count(max(counts)) == 1):
            break
    for f in v:
        for a in f["animals"]:
            cx, cy = a["centroid"]
            pts = [[cx, cy]]
            for _ in range(case["n_nodes"] - 1):
                pts.append(None if rng.random() < 0.25 else
                           [min(max(cx + rng.choice([-1, 1]) * (0.5 + rng.random()), 0.5), f["W"] - 1.5),
                            min(max(cy + rng.choice([-1, 1]) * (0.5 + rng.random()), 0.5), f["H"] - 1.5)])
            a["pts"] = [pts[0]] + [None if p is None else [round(p[0] * 16) / 16 + 1 / 64, round(p[1] * 16) / 16 + 1 / 64]
                                   for p in pts[1:]]
            a["centroid"] = a["pts"][0]
            if variant == "gains_mi":
                a["gain"] = rng.choice([0.35, 0.5, 0.7, 1.0])
    if variant == "hidden":        # a frame none of whose animals the network sees, and one seen only in part
        k = rng.randrange(len(v))
        for a in v[k]["animals"]:
            a["rendered"] = False
        k2 = (k + 1) % len(v)
        if len(v[k2]["animals"]) > 1:
            v[k2]["animals"][0]["rendered"] = False
    if variant == "phantom":       # the largest frame loses one LABEL but keeps the bump: centroids > labelled slots
        counts = [len(f["animals"]) for f in v]
        k = counts.index(max(counts))
        if counts[k] >= 2 and counts.count(counts[k]) == 1:
            gone = v[k]["animals"].pop(rng.randrange(counts[k]))
            v[k]["phantoms"] = [gone["centroid"]]
    case["pipeline"] = "gt"
    case["variant"] = variant
    if variant == "sparse":
        sparse_indices(rng, case)
    add_order(rng, case, subset=False)
    if i % 2 == 0:   # bias: a frame with FEWER animals than the maximum placed BEFORE another frame, one batch
        order = sorted(case["order"], key=lambda o: len(v[o[1]]["animals"]))
        case["order"], case["perm"], case["batch"] = order, order[::-1], len(order)
        case["bias"] = "short_frame_first_in_batch"
    return case


# ------------------------------------------------------------------ network mode (BatchNorm / Dropout in the stub)
SIG_MODE = "inference_model_does_not_force_eval"
CUR = {"fresh": "train", "eval_set": "eval", "train_after_build": "train", "after_train_forward": "train"}


def mode_verdict(chk, kind, history, observed_train, stats_changed, differs, small, model_line, detail):
    """Common bookkeeping of one (model kind, call history) run: `observed_train` = the stub saw
    training=True during a wrapper forward."""
    want, asis = model_line.split()[1:3]            # mode under the repaired wrapper / as coded
    obs = "train" if observed_train else "eval"
    chk.tag(f"mode:{kind}:{history}:{obs}")
    if obs != want:
        if obs == asis and kind in ("single", "bottomup"):
            # structural predicate of F-C12: this wrapper never switches the network to eval mode
            chk.fail(f"C12: {kind} inference ran the network in TRAIN mode (history {history}): "
                     f"running statistics moved: {stats_changed}; frame result depends on batch-mates: {differs}",
                     small, detail, [SIG_MODE])
            return
        chk.disagree("network mode during inference == Decode.modeOf (forward_mode_eval)", small, obs, model_line)
    why = []
    if observed_train:
        why.append("the network ran in train mode during inference")
    if stats_changed:
        why.append("predicting changed the network's running statistics")
    if differs:
        why.append(f"history {history}: " + differs)
    if why:
        chk.fail(f"C12 fails on {kind}: " + "; ".join(why[:3]), small, detail)


def check_modes(chk, case):
    """Stub = renderer → BatchNorm → Dropout.  For every call history: batch ≡ frames alone ≡ permuted,
    the network is seen in eval mode, its running statistics do not move."""
    kind = "single" if case["pipeline"] == "single" else "topdown"
    vids = frames_of(case)
    order = [tuple(o) for o in case["order"]]
    frames = [vids[v][k] for v, k in order]
    impl = impl_single if kind == "single" else impl_topdown
    td = kind == "topdown"
    lines = [f"mode {kind} {CUR[h]}" for h in stubs.HISTORIES]
    model = yield lines
    for h, ml in zip(stubs.HISTORIES, model):
        small = {**case, "history": h}
        c = {**case, "mode_layers": True, "history": h}
        info, runs = {"modes": [], "stats_changed": False}, []
        try:
            for variant in (c, {**c, "batch": 1}, {**c, "order": [tuple(o) for o in case["perm"]]}):
                r = impl(variant, "LabelsReader", vids)
                runs.append(r[0])
                info["modes"] += c02.LAST.get("modes", [])
                info["stats_changed"] = info["stats_changed"] or c02.LAST.get("stats_changed", False)
            differs = ""
            bb, b1, bp = (rows_by_code(r) for r in runs)
            for fr in frames:
                if not same_rows(bb.get(fr.code, []), b1.get(fr.code, []), td):
                    differs = f"frame (video {fr.video}, idx {fr.frame_idx}) in a batch of {case['batch']} differs from the frame alone"
                    break
                if not same_rows(bb.get(fr.code, []), bp.get(fr.code, []), td):
                    differs = f"frame (video {fr.video}, idx {fr.frame_idx}) changes when the batch is permuted"
                    break
        except stubs.StubAmbiguous:
            chk.tag("stub_ambiguous_skipped")
            continue
        except Exception as e:
            info["modes"] += c02.LAST.get("modes", [])
            differs = f"raised {type(e).__name__}: {str(e)[:120]}"
            if not info["modes"]:
                info["modes"] = [True] if h != "eval_set" else [False]   # raised before the log was read
        chk.case((kind, "modes", h, json.dumps(case, sort_keys=True)),
                 {"case": "modes", "kind": kind, "history": h, "modes_seen": sorted(set(info["modes"])),
                  "stats_changed": info["stats_changed"], "differs": differs},
                 tags=["mode_layers", kind])
        mode_verdict(chk, kind, h, any(info["modes"]), info["stats_changed"], differs, small, ml,
                     {"modes_seen": sorted(set(info["modes"])), "stats_changed": info["stats_changed"]})


# ------------------------------------------------------------------ video provider with a frame range
def check_video_ranges(chk, case):
    """VideoReader driven with `video_start_idx` / `video_end_idx`: ranges that start after frame 0 and/or end
    before the last frame.  Every frame's pixels carry its own code, so each output row is tied to the
    CONTENT it was computed from: the rows must be exactly the frames start … end−1, in order, each carrying
    the TRUE frame index of the frame whose pixels produced it, and equal to that frame's rows of the full run."""
    if False:
        yield []
    kind = "single" if case["pipeline"] == "single" else "topdown"
    impl = impl_single if kind == "single" else impl_topdown
    td = kind == "topdown"
    vids = frames_of(case)
    v0 = vids[0]
    n = len(v0)
    base = {**case, "order": None}
    try:
        full = impl(base, "VideoReader", vids)[0]
    except stubs.StubAmbiguous:
        chk.tag("stub_ambiguous_skipped")
        return
    except Exception as e:
        chk.fail(f"C12: {kind} VideoReader run raised {type(e).__name__}: {str(e)[:160]}", case, None)
        return
    full_by = rows_by_code(full)
    ranges = [(1, None), (3, None), (n - 2, None), (1, n - 1), (None, n - 1), (2, 4)]
    for (a, b) in ranges:
        lo, hi = (0 if a is None else a), (n if b is None else b)
        if not (0 <= lo < hi <= n):
            continue
        small = {**case, "video_range": [a, b]}
        try:
            rows = impl({**base, "video_range": (a, b)}, "VideoReader", vids)[0]
        except stubs.StubAmbiguous:
            chk.tag("stub_ambiguous_skipped")
            continue
        except Exception as e:
            chk.disagree("implementation raised where the model does not", small, f"raise:{type(e).__name__}: {str(e)[:200]}", "ok")
            chk.fail(f"C12: {kind} VideoReader with frame range [{a}, {b}) raised {type(e).__name__}: {str(e)[:160]}", small, None)
            continue
        want = v0[lo:hi]
        chk.case((kind, "video_range", a, b, json.dumps(case, sort_keys=True)),
                 {"case": "video_range", "kind": kind, "range": [a, b], "n_frames": n, "B": case["batch"],
                  "rows": [[r["code"], r["fidx"]] for r in rows][:8]},
                 tags=["video_range", kind, "range_starts_after_0" if lo > 0 else "range_starts_at_0",
                       "range_ends_early" if hi < n else "range_to_the_end"])
        why = []
        by = rows_by_code(rows)
        seen_codes = [r["code"] for r in rows]
        want_codes = [f.code for f in want if (not td or f.animals)]
        uniq = [c for i, c in enumerate(seen_codes) if i == 0 or seen_codes[i - 1] != c]
        if uniq != want_codes:
            why.append(f"range [{a}, {b}) of {n} frames: rows were computed from frames "
                       f"{[next(f.frame_idx for f in v0 if f.code == c) for c in uniq]}, expected {[f.frame_idx for f in want if (not td or f.animals)]}")
        for fr in want:
            for r in by.get(fr.code, []):
                if (r["fidx"], r["vidx"]) != (fr.frame_idx, 0):
                    why.append(f"range [{a}, {b}): row computed from the pixels of frame {fr.frame_idx} carries frame_idx {r['fidx']}")
                    break
            ra, rb = by.get(fr.code, []), full_by.get(fr.code, [])
            if len(ra) == len(rb) and ra and any(x["fidx"] != y["fidx"] for x, y in zip(ra, rb)):
                continue     # already reported above
            if not same_rows(ra, rb, td):
                why.append(f"range [{a}, {b}): records of frame {fr.frame_idx} differ from the same frame in the full run")
        if why:
            chk.fail(f"C12 fails on {kind} inference through VideoReader with a frame range: " + "; ".join(why[:3]), small,
                     {"rows": [[r["code"], r["fidx"], r["vidx"]] for r in rows][:10]})


def gen_video_range(rng, i):
    """one video of 5–6 distinguishable frames, dense indices, for the video provider's frame ranges"""
    case = gen_single(rng, i) if i % 2 == 0 else gen_topdown(rng, i)
    case["videos"] = case["videos"][:1]
    v = case["videos"][0]
    for f in v:
        f.pop("frame_idx", None)
    while len(v) < 5 + (i % 2):
        f = json.loads(json.dumps(v[rng.randrange(len(v))]))
        if case["pipeline"] == "single":
            for a in f["animals"]:
                a["pts"] = [None if p is None else [min(max(p[0] + rng.choice([-1.5, 1.0, 2.5]), 1.0), f["W"] - 2.0), p[1]]
                            for p in a["pts"]]
        v.append(f)
    case.pop("same_filename", None)
    case["max_hw"] = case["max_hw"]
    case["ranges"] = True
    case["batch"] = rng.randrange(1, 4)
    return case


# ------------------------------------------------------------------ generators
def add_order(rng, case, subset=True):
    universe = [(vi, k) for vi, v in enumerate(case["videos"]) for k in range(len(v))]
    order = universe[:]
    rng.shuffle(order)
    if subset and len(order) > 2 and rng.random() < 0.3:
        order = order[:-1]
    perm = order[:]
    if len(perm) > 1:
        while perm == order:
            rng.shuffle(perm)
    case["order"], case["perm"] = [list(o) for o in order], [list(o) for o in perm]
    case["batch"] = rng.randrange(1, 6)
    if len(case["videos"]) > 1 and rng.random() < 0.6:
        case["same_filename"] = True      # the videos share one filename string: identity = position in labels.videos
    return case


def gen_topdown(rng, i):
    refine = "integral" if (i // 3) % 2 else None
    mi = [None, 1, 2][i % 3]
    case = gen_topdown_case(rng, refine=refine, max_instances=mi, counts=(0, 0, 1, 2, 3, 3, 4),
                            nv=(3 if i % 5 == 4 else None))
    if i % 5 in (2, 4):     # weak and strong detections: top-k decides between clearly different scores
        for v in case["videos"]:
            for f in v:
                for a in f["animals"]:
                    a["gain"] = rng.choice([0.35, 0.5, 0.7, 0.85, 1.0])
    # more frames per video than C02 uses: 2-4
    for v in case["videos"]:
        while len(v) < 2:
            v.append(json.loads(json.dumps(v[0])))
    if i % 5 == 3:
        sparse_indices(rng, case)
    return add_order(rng, case)


def gen_single(rng, i):
    case = gen_single_case(rng, refine=("integral" if i % 3 == 2 else None))
    for v in case["videos"]:
        while len(v) < 2:
            v.append(json.loads(json.dumps(v[0])))
        # make duplicated frames distinguishable
        for k, f in enumerate(v):
            for a in f["animals"]:
                a["pts"] = [None if p is None else [min(p[0] + 0.5 * k, f["W"] - 1.5), p[1]] for p in a["pts"]]
    if i % 4 == 1:
        sparse_indices(rng, case)
    return add_order(rng, case)


def natural_order(case, B=None):
    order = [[vi, k] for vi, v in enumerate(case["videos"]) for k in range(len(v))]
    case["order"] = order
    case["perm"] = order[::-1] if len(order) > 1 else order[:]
    case["batch"] = B if B is not None else max(2, min(5, len(order)))
    return case


def bias_empty_first(rng, i):
    """an EMPTY frame BEFORE a non-empty one in the same batch (a `continue` that desynchronises the
    zipped lists shows here)"""
    for _ in range(50):
        case = gen_topdown_case(rng, refine=("integral" if i % 2 else None), max_instances=[None, 2][i % 2],
                                counts=(1, 2, 3))
        case["videos"] = case["videos"][:1]
        v = case["videos"][0]
        while len(v) < 3:
            v.append(json.loads(json.dumps(v[-1])))
        if all(f["animals"] for f in v[1:]):
            break
    v[0]["animals"] = []
    if len(v) > 3:
        v[2]["animals"] = []
    case["bias"] = "empty_frame_first_in_batch"
    return natural_order(case, B=rng.choice([2, 3, len(v)]))


def bias_topk_after_detections(rng, i):
    """`max_instances` with a frame EXCEEDING it placed AFTER a frame with detections in the same
    batch (top-k gathered from the batch-wide tensor instead of the frame's rows shows here)"""
    mi = 1 + i % 2
    for _ in range(80):
        case = gen_topdown_case(rng, refine=("integral" if (i // 2) % 2 else None), max_instances=mi,
                                counts=(2, 3, 3, 4))
        case["videos"] = case["videos"][:1]
        v = case["videos"][0]
        while len(v) < 2:
            v.append(json.loads(json.dumps(v[-1])))
        if len(v[0]["animals"]) >= 1 and any(len(f["animals"]) > mi for f in v[1:]):
            break
    case["bias"] = "topk_frame_after_frame_with_detections"
    return natural_order(case, B=len(v))


def bias_nan_batchmate(rng, i):
    """integral refinement with a batch-mate that has a below-threshold (invisible) node"""
    for _ in range(100):
        case = gen_single_case(rng, refine="integral")
        case["videos"] = case["videos"][:1]
        if any(f["animals"] for f in case["videos"][0]):
            break
    v = case["videos"][0]
    v[:] = [f for f in v if f["animals"]]
    while len(v) < 3:
        v.append(json.loads(json.dumps(v[-1])))
    for k, f in enumerate(v):
        if not f["animals"]:
            f["animals"] = json.loads(json.dumps(next(g["animals"] for g in v if g["animals"])))
    H, W = v[0]["H"], v[0]["W"]
    for k, f in enumerate(v):
        pts = f["animals"][0]["pts"]
        for n in range(len(pts)):
            if pts[n] is None:
                pts[n] = [c02.lattice(rng, 4, W - 5), c02.lattice(rng, 4, H - 5)]
    v[1]["animals"][0]["pts"][0] = None          # the batch-mate with an invisible node
    case["bias"] = "integral_with_nan_batchmate"
    return natural_order(case, B=len(v))


def bias_undershoot(rng, i):
    """integral refinement, some frames of the batch have a small negative undershoot around their
    bumps, others none: a batch-wide statistic of the refinement patches shows as batch dependence"""
    for _ in range(60):
        case = gen_single_case(rng, refine="integral") if i % 2 == 0 else \
            gen_topdown_case(rng, refine="integral", max_instances=None, counts=(1, 2, 2, 3))
        case["videos"] = case["videos"][:1]
        v = case["videos"][0]
        v[:] = [f for f in v if f["animals"]]
        if v:
            break
    while len(v) < 3:
        v.append(json.loads(json.dumps(v[-1])))
    for k, f in enumerate(v):
        f["undershoot"] = [0.0, rng.choice([0.01, 0.02, 0.03, 0.05]), rng.choice([0.0, 0.04])][k % 3]
    case["bias"] = "integral_with_undershoot_batchmate"
    return natural_order(case, B=len(v))


def case_gen(chk, case):
    if case.get("ranges"):
        return check_video_ranges(chk, case)
    if case.get("modes"):
        return check_modes(chk, case)
    if case["pipeline"] == "gt":
        return check_gt(chk, case)
    if case["pipeline"] == "gtc":
        return check_gtc(chk, case)
    return check_single(chk, case) if case["pipeline"] == "single" else check_topdown(chk, case)


def run_cases(chk, cases, chunk=30):
    for c0 in range(0, len(cases), chunk):
        active = []
        for case in cases[c0:c0 + chunk]:
            g = case_gen(chk, case)
            try:
                active.append((g, next(g)))
            except StopIteration:
                pass
        while active:
            all_lines = [l for _, ls in active for l in ls]
            out = run_driver("C12.lean", all_lines) if all_lines else []
            nxt, pos = [], 0
            for g, ls in active:
                res = out[pos:pos + len(ls)]
                pos += len(ls)
                try:
                    nxt.append((g, g.send(res)))
                except StopIteration:
                    pass
            active = nxt


# ------------------------------------------------------------------ bottom-up
def bu_forward(sc, idxs, fidxs, vidxs, us=None, history=None, info=None):
    """The REAL BottomUpInferenceModel.forward (find_local_peaks, _generate_cms_peaks, PAFScorer.predict,
    decode) on the sub-batch `idxs` of scene `sc`, around harness/c03.py's ideal-network stub; the
    batch dictionary carries frame/video indices exactly as `_predict_generator` builds it."""
    import torch
    import c03
    import sleap_nn.inference.bottomup as bu
    import sleap_nn.inference.paf_grouping as pg
    from sleap_nn.data.confidence_maps import generate_multiconfmaps
    from sleap_nn.data.edge_maps import generate_pafs
    from sleap_nn.inference.predictors import BottomUpPredictor
    sub = dict(sc)
    sub["frames"] = [sc["frames"][i] for i in idxs]
    sub["effs"] = [sc["effs"][i] for i in idxs]
    names = [f"n{i}" for i in range(sc["n_nodes"])]
    scorer = pg.PAFScorer(part_names=names, edges=[(f"n{u}", f"n{v}") for u, v in sc["edges"]],
                          pafs_stride=sc["ps"], max_edge_length_ratio=sc["ratio"],
                          dist_penalty_weight=sc["weight"], n_points=sc["n_points"],
                          min_instance_peaks=sc["min_peaks"], min_line_scores=sc["min_line"])
    stub = c03.make_stub(torch, sub, generate_multiconfmaps, generate_pafs)
    if us is not None and any(us[i] for i in idxs):
        stub = stubs.UndershootNet(stub, [us[i] for i in idxs], head="MultiInstanceConfmapsHead", sigma=sc["sigma_c"])
    if history is not None:
        stub = stubs.ModeNet(stub, sc["n_nodes"], head="MultiInstanceConfmapsHead")
    model = bu.BottomUpInferenceModel(
        torch_model=stub, paf_scorer=scorer,
        cms_output_stride=sc["cs"], pafs_output_stride=sc["ps"], peak_threshold=sc["threshold"],
        refinement=sc["refinement"], integral_patch_size=sc["patch"], return_confmaps=False,
        return_pafs=False, return_paf_graph=True, input_scale=sc["scale"])
    B = len(idxs)
    flat = {}
    o_flp = bu.find_local_peaks

    def w_flp(*a, **k):
        r = o_flp(*a, **k)
        flat["peaks"] = tuple(t.clone() for t in r)
        return r
    bu.find_local_peaks = w_flp
    try:
        inputs = {"image": torch.zeros(B, 1, sc["Hin"], sc["Win"]),
                  "frame_idx": torch.tensor([fidxs[i] for i in idxs], dtype=torch.int32),
                  "video_idx": torch.tensor([vidxs[i] for i in idxs], dtype=torch.int32),
                  "eff_scale": torch.tensor(sub["effs"], dtype=torch.float32)}
        before = None
        if history is not None:          # wrapper built first, then the call history of the inner network
            stub.apply_history(history)
            before = stub.stats()
        try:
            outs = model(inputs)
        finally:
            if history is not None and info is not None:
                after = stub.stats()
                info["modes"] = info.get("modes", []) + list(stub.mode_log)
                info["stats_changed"] = info.get("stats_changed", False) or not (
                    before[0].equal(after[0]) and before[1].equal(after[1]) and before[2] == after[2])
    finally:
        bu.find_local_peaks = o_flp
    assert len(outs) == 1
    out = BottomUpPredictor()._convert_tensors_to_numpy(outs[0])   # the real tensor → numpy step
    recs = []
    for b in range(B):
        insts = []
        for pts, pv, sc_ in zip(out["pred_instance_peaks"][b], out["pred_peak_values"][b], out["instance_scores"][b]):
            insts.append({"pts": [None if (np.isnan(q).all()) else [float(q[0]), float(q[1])] for q in pts],
                          "score": float(sc_)})
        recs.append({"frame": idxs[b], "fidx": int(out["frame_idx"][b]), "vidx": int(out["video_idx"][b]),
                     "insts": insts, "line_scores": [float(x) for x in np.asarray(out["line_scores"][b]).reshape(-1)], "peaks": np.asarray(out["peaks"][b], dtype=np.float64),
                     "peak_vals": np.asarray(out["peak_vals"][b], dtype=np.float64)})
    return recs, out, flat["peaks"], sub


def bu_same(a, b, tol=None):
    """instances (coordinates), instance scores and the PAF line scores of a frame, within 1e-6"""
    if len(a["insts"]) != len(b["insts"]) or len(a["line_scores"]) != len(b["line_scores"]):
        return False
    if any(not close(x, y) and not (x != x and y != y) for x, y in zip(a["line_scores"], b["line_scores"])):
        return False
    for x, y in zip(a["insts"], b["insts"]):
        if not close(x["score"], y["score"]) or not pts_close(x["pts"], y["pts"], tol):
            return False
    return True


def bottomup_cases(chk, n, given=None):
    """Bottom-up: batch ≡ frames alone ≡ permuted ≡ chunked; indices carried; sample b's instances are
    frame b's animals; the consumer's max_instances filter keeps the highest-scoring instances."""
    import c03
    import sleap_io as sio
    from sleap_nn.inference.predictors import BottomUpPredictor
    rng = chk.rng
    orig_from_numpy = sio.PredictedInstance.from_numpy

    def shim(*a, **k):   # sleap-io 0.9.2 renamed the keyword arguments the repo still uses
        if "points" in k:
            k["points_data"] = k.pop("points")
        if "instance_score" in k:
            k["score"] = k.pop("instance_score")
        return orig_from_numpy(*a, **k)
    lines, ctxs = [], []
    for ci in range(n):
        if given is not None:
            sc = c03.unfrac_json(given[ci]["scene"])
        else:
            for _ in range(40):
                sc = c03.gen_scene(rng)
                if len(sc["frames"]) >= 2 and all(sc["frames"]):
                    break
            if ci % 3 == 0:   # an empty frame, first / in the middle / last
                sc["frames"][rng.randrange(len(sc["frames"]))] = []
        nF = len(sc["frames"])
        fidxs = rng.sample(range(50), nF) if given is None else given[ci]["fidxs"]
        vidxs = [rng.randrange(3) for _ in range(nF)] if given is None else given[ci]["vidxs"]
        if given is not None:
            us = given[ci].get("undershoot") or [0.0] * nF
        elif sc["refinement"] == "integral" or ci % 4 == 1:
            sc["refinement"], sc["patch"] = "integral", 5
            us = [[0.0, rng.choice([0.01, 0.02, 0.04])][(b + ci) % 2] for b in range(nF)]
        else:
            us = [0.0] * nF
        small = {"scene": c03.frac_json(sc), "fidxs": fidxs, "vidxs": vidxs, "undershoot": us}
        if any(us):
            chk.tag("bottomup_integral_with_undershoot_batchmate")
        # ---- call histories with mode-dependent layers in the stub (renderer → BatchNorm → Dropout)
        if given is None or given[ci].get("history"):
            hs = stubs.HISTORIES if given is None else [given[ci]["history"]]
            mlines = run_driver("C12.lean", [f"mode bottomup {CUR[h]}" for h in hs])
            for h, ml in zip(hs, mlines):
                info, differs = {}, ""
                try:
                    f_h = bu_forward(sc, list(range(nF)), fidxs, vidxs, us, h, info)[0]
                    a_h = [bu_forward(sc, [i], fidxs, vidxs, us, h, info)[0][0] for i in range(nF)]
                    pm = list(range(nF))[::-1]
                    p_h = bu_forward(sc, pm, fidxs, vidxs, us, h, info)[0]
                    for b in range(nF):
                        if not bu_same(f_h[b], a_h[b]):
                            differs = f"frame {b} in a batch of {nF} differs from the frame alone"
                            break
                        if not bu_same(f_h[b], p_h[pm.index(b)]):
                            differs = f"frame {b} changes when the batch is permuted"
                            break
                except Exception as e:
                    differs = f"raised {type(e).__name__}: {str(e)[:120]}"
                chk.case(("bottomup", "modes", h, json.dumps(small, sort_keys=True, default=str)),
                         {"case": "modes", "kind": "bottomup", "history": h, "modes_seen": sorted(set(info.get("modes", []))),
                          "stats_changed": info.get("stats_changed", False), "differs": differs},
                         tags=["mode_layers", "bottomup"])
                mode_verdict(chk, "bottomup", h, any(info.get("modes", [])), info.get("stats_changed", False), differs,
                             {**small, "history": h}, ml,
                             {"modes_seen": sorted(set(info.get("modes", []))), "stats_changed": info.get("stats_changed", False)})
            if given is not None:
                continue
        try:
            full, out_full, flat, _ = bu_forward(sc, list(range(nF)), fidxs, vidxs, us)
            alone = [bu_forward(sc, [i], fidxs, vidxs, us)[0][0] for i in range(nF)]
            perm = list(range(nF))
            while nF > 1 and perm == list(range(nF)):
                rng.shuffle(perm)
            permd = bu_forward(sc, perm, fidxs, vidxs, us)[0]
            Bc = rng.randrange(1, nF + 1)
            chunked = []
            for c0 in range(0, nF, Bc):
                chunked += bu_forward(sc, list(range(c0, min(nF, c0 + Bc))), fidxs, vidxs, us)[0]
        except Exception as e:
            chk.disagree("bottom-up forward raised where the model does not", small, f"raise:{type(e).__name__}: {str(e)[:200]}", "ok")
            chk.fail(f"C12: BottomUpInferenceModel raised {type(e).__name__} on a well-formed batch: {str(e)[:200]}", small, None)
            continue
        n_an = [len(f) for f in sc["frames"]]
        chk.case(("bottomup", json.dumps(small, sort_keys=True, default=str)),
                 {"case": "bottomup", "animals_per_frame": n_an, "fidxs": fidxs, "vidxs": vidxs, "perm": perm, "chunk": Bc,
                  "instances_per_frame": [len(r["insts"]) for r in full]},
                 tags=["bottomup", f"refine={sc['refinement']}", "has_empty_frame" if 0 in n_an else "no_empty_frame"])
        why = []
        for b in range(nF):
            if (full[b]["fidx"], full[b]["vidx"]) != (fidxs[b], vidxs[b]):
                why.append(f"sample {b} carries indices {(full[b]['fidx'], full[b]['vidx'])}, its frame has {(fidxs[b], vidxs[b])}")
            if not bu_same(full[b], alone[b]):
                why.append(f"frame {b}: instances in the batch differ from the frame alone")
            if not bu_same(full[b], chunked[b]) or (chunked[b]["fidx"], chunked[b]["vidx"]) != (fidxs[b], vidxs[b]):
                why.append(f"frame {b}: instances / indices change with batch size {Bc}")
            pb = permd[perm.index(b)]
            if not bu_same(full[b], pb) or (pb["fidx"], pb["vidx"]) != (fidxs[b], vidxs[b]):
                why.append(f"frame {b}: instances / indices change when the batch is permuted")
            # sample b's instances are frame b's animals (labels-level oracle of C03, reused)
            pred = [[None if p is None else (p[0], p[1]) for p in inst["pts"]] for inst in full[b]["insts"]
                    if any(p is not None for p in inst["pts"])]
            w = c03.oracle(sc, b, pred)
            if w:
                # labels-level reassembly is C03's property (with its own knife-edge policy); here it only
                # counts when the frame ALONE reassembles and the same frame inside the batch does not
                pa = [[None if p is None else (p[0], p[1]) for p in inst["pts"]] for inst in alone[b]["insts"]
                      if any(p is not None for p in inst["pts"])]
                sub1 = dict(sc); sub1["frames"] = [sc["frames"][b]]; sub1["effs"] = [sc["effs"][b]]
                if c03.oracle(sub1, 0, pa) is None:
                    why.append(f"frame {b}: alone it is reassembled, in the batch: {w}")
                else:
                    chk.tag("bottomup_frame_not_reassembled_even_alone_left_to_C03")
        # ---- plumbing vs model: the per-sample split of the flat peak list
        g, vals, sinds, chans = flat
        fl = [str(nF)]
        for b in range(nF):
            ids = (sinds == b).nonzero(as_tuple=True)[0].tolist()
            fl.append(f"{fidxs[b]} {vidxs[b]} {rat(float(np.float32(sc['effs'][b])))} {len(ids)} "
                      + " ".join(f"{i} {rat(float(vals[i]))}" for i in ids))
        lines.append("bu " + " ".join(fl))
        ctxs.append(("bu", small, full, flat, sc))
        # ---- consumer: indices per labeled frame and the max_instances filter (real code, shimmed kwargs)
        maxn = max(len([i for i in r["insts"] if any(q is not None for q in i["pts"])]) for r in full)
        k = rng.randrange(1, maxn) if (maxn >= 2 and rng.random() < 0.85) else rng.choice([None, 1, 3])
        chk.tag("bottomup_topk_active" if (k is not None and k < maxn) else "bottomup_topk_inactive")
        skel = sio.Skeleton(nodes=[f"n{i}" for i in range(sc["n_nodes"])],
                            edges=[(f"n{u}", f"n{v}") for u, v in sc["edges"]])
        vids = [stubs.make_video([stubs.FrameSpec(code=40, H=8, W=8)], name=f"bu{v}.mp4") for v in range(3)]
        sio.PredictedInstance.from_numpy = shim
        try:
            p = BottomUpPredictor(max_instances=k, skeletons=[skel])
            p.videos = vids
            labels = p._make_labeled_frames_from_generator(iter([out_full]))
            lfs = [(vids.index(lf.video), int(lf.frame_idx), [float(i.score) for i in lf.instances],
                    [i.numpy() for i in lf.instances]) for lf in labels.labeled_frames]
        except Exception as e:
            chk.disagree("bottom-up consumer raised", small, f"raise:{type(e).__name__}: {str(e)[:200]}", "ok")
            chk.fail(f"C12: BottomUpPredictor._make_labeled_frames_from_generator raised {type(e).__name__}", small, None)
            continue
        finally:
            sio.PredictedInstance.from_numpy = orig_from_numpy
        if len(lfs) != nF:
            why.append(f"{len(lfs)} labeled frames for {nF} frames")
        for b, lf in enumerate(lfs[:nF]):
            if (lf[1], lf[0]) != (fidxs[b], vidxs[b]):
                why.append(f"labeled frame {b} has (frame {lf[1]}, video {lf[0]}), its image has {(fidxs[b], vidxs[b])}")
            live = [i for i in full[b]["insts"] if any(q is not None for q in i["pts"])]
            scores = sorted((i["score"] for i in live), reverse=True)
            want = scores if k is None else scores[:k]
            tie = k is not None and len(scores) > k and abs(scores[k - 1] - scores[k]) < VAL_TIE
            if tie:
                chk.knife_edges += 1
                continue
            got = lf[2] if k is None else lf[2]
            if len(got) != len(want) or any(abs(a - b_) > 1e-6 for a, b_ in zip(sorted(got, reverse=True), want)):
                why.append(f"frame {b}: max_instances={k} kept scores {got}, highest are {want}")
            lines.append(f"keeptop {'-' if k is None else k} {len(live)} " + " ".join(f"{j} {rat(i['score'])}" for j, i in enumerate(live)))
            ctxs.append(("keeptop", small, live, lf, k))
        if why:
            chk.fail("C12 fails on bottom-up: " + "; ".join(why[:3]), small, {"instances": [len(r["insts"]) for r in full]})
    out = run_driver("C12.lean", lines) if lines else []
    for line, o, ctx in zip(lines, out, ctxs):
        t = o.split()
        if ctx[0] == "bu":
            _, small, full, flat, sc = ctx
            g = flat[0]
            pos, nf = 2, int(t[1])
            for b in range(nf):
                fi, vi, e, cnt = int(t[pos]), int(t[pos + 1]), t[pos + 2], int(t[pos + 3])
                ids = [int(x) for x in t[pos + 4:pos + 4 + cnt]]
                pos += 4 + cnt
                want = np.array([[float(g[i][0]) * sc["cs"], float(g[i][1]) * sc["cs"]] for i in ids]).reshape(-1, 2)
                got = full[b]["peaks"].reshape(-1, 2)
                if (fi, vi) != (full[b]["fidx"], full[b]["vidx"]) or got.shape != want.shape or \
                        (len(ids) and np.abs(got - want).max() > 1e-4):
                    chk.disagree("_generate_cms_peaks split + indices == Decode.bottomupRecords", small,
                                 {"b": b, "idx": [full[b]["fidx"], full[b]["vidx"]], "n": int(got.shape[0])}, o[:300])
                    break
        else:
            _, small, live, lf, k = ctx
            ids = [int(x) for x in t[1:]]
            want = [live[j]["score"] for j in ids]
            if len(want) != len(lf[2]) or any(abs(a - b_) > 1e-6 for a, b_ in zip(want, lf[2])):
                chk.disagree("bottom-up max_instances filter == Decode.keepTop (order included)", small, lf[2], want)


def gen_small_scene(rng):
    """Bottom-up on SMALL maps with LARGE batches: PAF map 6×8 cells, 12–20 frames, one two-node animal
    per frame whose edge is long relative to `max_edge_length_ratio` (the distance penalty applies), so
    anything that lets the batch dimension into a per-frame quantity shows in the line/instance scores."""
    from fractions import Fraction
    cs, ps = 2, 4
    Hin, Win = 6 * ps, 8 * ps
    B = rng.randrange(12, 21)
    frames = []
    for _ in range(B):
        for _try in range(100):
            L = rng.uniform(9.0, 15.0)                 # max_edge_length = 0.25 · max(6, 8, 2) · 4 = 8 px
            th = rng.uniform(-0.5, 0.5)
            x0, y0 = rng.uniform(5.0, 9.0), rng.uniform(7.0, Hin - 7.0)
            x1, y1 = x0 + L * math.cos(th), y0 + L * math.sin(th)
            if 5.0 <= x1 <= Win - 6.0 and 5.0 <= y1 <= Hin - 6.0:
                break
        pts = []
        for (x, y) in ((x0, y0), (x1, y1)):
            fx, fy = Fraction(round(x * 4), 4), Fraction(round(y * 4), 4)
            if (fx / cs) % 1 == Fraction(1, 2):
                fx += Fraction(1, 4)
            if (fy / cs) % 1 == Fraction(1, 2):
                fy += Fraction(1, 4)
            pts.append((fx, fy))
        frames.append([pts])
    D = 0.7072 * (ps + cs)
    return {"cs": cs, "ps": ps, "n_nodes": 2, "edges": [(0, 1)], "Hin": Hin, "Win": Win, "sigma_c": 1.0,
            "sigma_p": 1.4 * D * D, "frames": frames, "scale": 1.0, "effs": [rng.choice([1.0, 0.5, 1.25]) for _ in range(B)],
            "refinement": rng.choice([None, "integral"]), "patch": 5, "n_points": 10, "ratio": 0.25,
            "weight": 1.0, "min_line": 0.25, "min_peaks": 0, "threshold": 0.2}


def bottomup_small_cases(chk, n, given=None):
    import c03
    rng = chk.rng
    for ci in range(n):
        sc = gen_small_scene(rng) if given is None else c03.unfrac_json(given[ci]["scene"])
        nF = len(sc["frames"])
        fidxs = rng.sample(range(100), nF) if given is None else given[ci]["fidxs"]
        vidxs = [rng.randrange(3) for _ in range(nF)] if given is None else given[ci]["vidxs"]
        small = {"scene": c03.frac_json(sc), "fidxs": fidxs, "vidxs": vidxs, "family": "small_map_large_batch"}
        try:
            full = bu_forward(sc, list(range(nF)), fidxs, vidxs)[0]
            alone = [bu_forward(sc, [i], fidxs, vidxs)[0][0] for i in range(nF)]
            half = bu_forward(sc, list(range(nF // 2)), fidxs, vidxs)[0]
        except Exception as e:
            chk.disagree("bottom-up forward raised where the model does not", small, f"raise:{type(e).__name__}: {str(e)[:200]}", "ok")
            chk.fail(f"C12: BottomUpInferenceModel raised {type(e).__name__} on a well-formed batch: {str(e)[:200]}", small, None)
            continue
        pen = sum(1 for r in alone for x in r["line_scores"] if x == x and x < 0.97)
        chk.case(("bottomup_small", json.dumps(small, sort_keys=True, default=str)),
                 {"case": "bottomup_small", "frames": nF, "paf_map": [sc["Hin"] // sc["ps"], sc["Win"] // sc["ps"]],
                  "line_scores_alone": [r["line_scores"] for r in alone][:4], "instances": [len(r["insts"]) for r in full][:6]},
                 tags=["bottomup_small_map_large_batch", "penalty_active" if pen else "penalty_inactive"])
        why = []
        for b in range(nF):
            if not bu_same(full[b], alone[b]):
                why.append(f"frame {b}: instances / instance scores / line scores in a batch of {nF} differ from the frame alone "
                           f"(line scores {full[b]['line_scores']} vs {alone[b]['line_scores']})")
            if b < nF // 2 and not bu_same(full[b], half[b]):
                why.append(f"frame {b}: results change between a batch of {nF} and a batch of {nF // 2}")
            if (full[b]["fidx"], full[b]["vidx"]) != (fidxs[b], vidxs[b]):
                why.append(f"sample {b} carries indices {(full[b]['fidx'], full[b]['vidx'])}")
        if why:
            chk.fail("C12 fails on bottom-up (small maps, large batch): " + "; ".join(why[:2]), small,
                     {"line_scores_batch": [r["line_scores"] for r in full][:4]})


def replay_fc12(chk):
    """regression of F-C12 (fixed in dc60a97): a single-instance wrapper must run the network in eval mode"""
    rng = __import__("random").Random(12)
    case = gen_single(rng, 0)
    case.update({"mode_layers": True, "history": "fresh"})
    vids = frames_of(case)
    impl_single(case, "LabelsReader", vids)
    modes = c02.LAST.get("modes", [])
    return any(modes), f"modes seen during SingleInstancePredictor inference (True = train): {sorted(set(modes))}"


FC12B_CASE = {"pipeline": "gt", "sc": 1.0, "os_c": 2, "ms_c": 2, "max_hw": [96, 128], "batch": 1, "refine": None,
              "max_instances": None, "n_nodes": 2, "order": [[0, 0]], "perm": [[0, 0]],
              "videos": [[{"H": 48, "W": 64, "animals": [{"centroid": [15.0, 10.0], "pts": [[15.0, 10.0], [16.0, 11.5]]},
                                                          {"centroid": [30.0, 20.0], "pts": [[30.0, 20.0], [31.5, 21.0]]},
                                                          {"centroid": [50.0, 36.0], "pts": [[50.0, 36.0], [49.0, 37.5]]}]}]]}


def replay_fc12b(chk):
    """regression of F-C12b (fixed in f7807c8): GT peaks with eff_scale = 2 must return animals 0, 1, 2"""
    vids = frames_of(FC12B_CASE)
    rows, _ = impl_gt(FC12B_CASE, vids)
    ids = [None if inst is None else which_animal(vids[0][0], inst) for inst in rows[0]["insts"]]
    return ids != [0, 1, 2], f"48x64 frame matched to 96x128, animals at (15,10),(30,20),(50,36): rows hold animals {ids}"


def replay_fc12c(chk):
    """F-C12c: a top-down record of frame 16777217 must carry 16777217"""
    rng = __import__("random").Random(3)
    for i in range(40):
        case = gen_topdown(rng, 0)
        if sum(1 for v in case["videos"] for f in v if f["animals"]) >= 1:
            break
    for v in case["videos"]:
        for k, f in enumerate(v):
            f["frame_idx"] = 2 ** 24 + 1 + 4 * k
    vids = frames_of(case)
    rows, _, _ = impl_topdown(case, "LabelsReader", vids)
    want = sorted({f.frame_idx for v in vids for f in v if f.animals})
    got = sorted({r["fidx"] for r in rows})
    return got != want, f"frames {want} with detections → records carry frame_idx {got}"


def main(chk: Check):
    chk.build_and_audit()
    import_repo()
    rng = chk.rng
    np.random.seed(rng.randrange(2 ** 31))
    import torch
    torch.manual_seed(rng.randrange(2 ** 31))
    if any(e["id"] == "F-C12" for e in chk.known):
        still, detail = replay_fc12(chk)
        chk.known_replay("F-C12", still_fails=still, detail=detail)
    for fid, fn in (("F-C12b", replay_fc12b), ("F-C12c", replay_fc12c)):
        if any(e["id"] == fid for e in chk.known):
            still, detail = fn(chk)
            chk.known_replay(fid, still_fails=still, detail=detail)
            chk.extra[fid + "_witness"] = detail
    cases = []
    for f in sorted((CORPUS / "C12").glob("*.json")) if (CORPUS / "C12").exists() else []:
        cases.append(json.loads(f.read_text()))
    for i in range(chk.n(45, 600)):
        cases.append(gen_topdown(rng, i))
    for i in range(chk.n(20, 300)):
        cases.append(gen_single(rng, i))
    for i in range(chk.n(4, 40)):
        cases += [bias_empty_first(rng, i), bias_topk_after_detections(rng, i), bias_nan_batchmate(rng, i)]
    for i in range(chk.n(6, 60)):
        cases.append(bias_undershoot(rng, i))
    for i in range(chk.n(6, 40)):
        base = gen_single(rng, i) if i % 2 == 0 else gen_topdown(rng, i)
        if base["batch"] < 2:
            base["batch"] = 2
        base["modes"] = True
        cases.append(base)
    for i in range(chk.n(6, 60)):
        cases.append(gen_video_range(rng, i))
    for i in range(chk.n(18, 180)):
        cases.append(gen_gt(rng, i))
    for i in range(chk.n(6, 60)):
        cases.append(gen_gtc(rng, i))
    run_cases(chk, cases)
    bottomup_cases(chk, chk.n(10, 120))
    bottomup_small_cases(chk, chk.n(4, 40))
    reader_accounting(chk)
    # model-only sanity of the chunking (cheap, exact): sizes of chunks B n
    lines = [f"chunks {b} {n}" for b in range(1, 6) for n in range(0, 12)]
    for line, out in zip(lines, run_driver("C12.lean", lines)):
        _, b, n = line.split()
        b, n = int(b), int(n)
        want = [min(b, n - i) for i in range(0, n, b)]
        if out.split()[1:] != [str(w) for w in want]:
            chk.disagree("Decode.chunks sizes", {"B": b, "n": n}, want, out)


def reader_accounting(chk):
    """every predictor run terminates its reader thread (stubs._finish_reader); what happened goes into the
    evidence, and a reader that outlives a FULLY consumed generator is reported (it is the repo's reader
    that did not end, not the harness abandoning it)"""
    import sys
    import threading
    chk.extra["reader_threads"] = dict(stubs.READER_STATS)
    chk.extra["threads_alive_at_end"] = threading.active_count()
    if stubs.READER_STATS["reader_alive_after_full_consumption"]:
        chk.fail("C12/C13: a reader thread was still alive after its consumer had consumed every output",
                 {"readers": stubs.READER_LEFTOVERS[:5]}, dict(stubs.READER_STATS))
    if stubs.READER_STATS["reader_alive_after_drain"] or stubs.READER_STATS["threads_left_over"]:
        print(f"note: harness could not terminate every reader thread: {stubs.READER_STATS}", file=sys.stderr)


def replay(chk: Check, payload):
    import_repo()
    case = payload.get("case") or payload["disagreements"][0]["case"]
    print("replay case:", json.dumps(case)[:400])
    if case.get("family") == "small_map_large_batch":
        bottomup_small_cases(chk, 1, given=[case])
    elif "scene" in case:
        bottomup_cases(chk, 1, given=[case])
    else:
        run_cases(chk, [case])


if __name__ == "__main__":
    chk = Check(
        "C12", module="SleapVerif.Props.C12", theorems=THEOREMS,
        build_targets=["SleapVerif.Model.Decode", "SleapVerif.Model.Proto", "SleapVerif.Lemmas.DecodeBatch"],
        trusted=[
            "Lean 4.33 kernel; axioms ⊆ {propext, Classical.choice, Quot.sound} (audited per run)",
            "hand-written model of the batch plumbing in Decode.lean; tied to /repo by comparison on the explored batches only",
            "the network is sample-wise IN EVAL MODE (law `eval_indep` of BatchNorm/Dropout); that the wrappers run it in eval "
            "mode and leave its running statistics alone is observed on stubs with BatchNorm+Dropout under four call histories",
            "peak finding, integral refinement, crop indexing (sample*channels+channel) and PAF scoring being sample-wise is "
            "assumed by the model's TYPES (Frame.peaks, inst, group, row are functions of one frame/crop) — no theorem speaks "
            "about them; they are covered only by the model-free oracle batch ≡ alone ≡ permuted",
            "the `bu` driver op consumes the sample indices RECORDED from the implementation's find_local_peaks (it checks "
            "out['peaks'][b] against that recording, a harness-side identity); the `keeptop` op consumes recorded instance scores",
            "find_local_peaks returns a frame's peaks in row-major cell order, one per separated animal (C06); the per-frame "
            "peak list the model receives is the harness's own reading of the rendered centroid map",
            "torch.topk order among exactly equal values is unspecified: ties are skipped and counted",
            "harness/stubs.py (frame identification from pixel intensity; in-memory sio.Video/Labels)",
        ],
        rule="frame lists of 2-8 labeled frames over 1-2 videos (sizes, size-matching, scales, strides, crop as in C02), 0-4 "
             "animals per frame mixed incl. empty frames, shuffled reader order, frame indices 0..n-1 or sparse/large (up to 123456789, incl. values > 2^24), batch size 1..5, "
             "max_instances in {None,1,2}, refinement {none, integral}; each case = batch run + per-frame run (B=1) + permuted "
             "run (+ VideoReader B vs 1 for single-instance); distinct = distinct full case",
        assumptions=["bottom-up is exercised at the inference-model + consumer level (harness/c03.py's stub), not through _predict_generator",
                     "max_instances = 0 is outside the model (the code raises in crop_bboxes)",
                     "animals of one frame are ≥ 7 centroid-grid cells apart (one local peak each)"],
    )
    run_check(chk, main, replay)
