"""C17 — every tree skeleton gets a complete, parent-before-child edge order.

Model: lean/SleapVerif/Model/Toposort.lean; theorems: lean/SleapVerif/Props/C17.lean.
Correspondence: `toposort_edges` and `PAFScorer(...).sorted_edge_inds` (real code, real
networkx) vs the Lean driver on the same edge listings, compared exactly.
"""
import itertools

from common import Check, call, import_repo, lst, run_check, run_driver

THEOREMS = [
    "SleapVerif.C17.arbo_perm",
    "SleapVerif.C17.toposort_perm",
    "SleapVerif.C17.toposort_parent_first",
    "SleapVerif.C17.toposort_fuel_suffices",
    "SleapVerif.C17.toposort_sound_nodup",
]


# ------------------------------------------------------------------ generators
def random_tree(rng, n, labels=None):
    """Random rooted labelled tree on n nodes as (edges directed away from the root, root)."""
    labels = labels or rng.sample(range(max(n, rng.choice([n, n + 3, 3 * n]))), n)
    order = labels[:]
    rng.shuffle(order)
    shape = rng.choice(["uniform", "path", "star", "bushy"])
    edges = []
    for i in range(1, n):
        if shape == "path":
            p = i - 1
        elif shape == "star":
            p = 0
        elif shape == "bushy":
            p = rng.randrange(max(0, i - 2), i)
        else:
            p = rng.randrange(i)
        edges.append((order[p], order[i]))
    rng.shuffle(edges)
    return edges, order[0]


def all_rooted_trees(n):
    """All rooted labelled trees on nodes 0..n-1 as parent maps (n^(n-1) of them)."""
    for root in range(n):
        others = [v for v in range(n) if v != root]
        for parents in itertools.product(range(n), repeat=n - 1):
            par = dict(zip(others, parents))
            if any(v == p for v, p in par.items()):
                continue
            ok = True
            for v in others:  # every node must reach the root
                seen, x = set(), v
                while x != root:
                    if x in seen:
                        ok = False
                        break
                    seen.add(x)
                    x = par[x]
                if not ok:
                    break
            if ok:
                yield [(par[v], v) for v in others], root


def malformed(rng):
    kind = rng.choice(["forest", "dag", "cycle_with_root", "no_root", "empty", "self_loop", "reversed_edge"])
    if kind == "empty":
        return kind, []
    n = rng.randrange(3, 7)
    edges, root = random_tree(rng, n, labels=list(range(n)))
    if kind == "forest":
        e2, _ = random_tree(rng, rng.randrange(2, 5), labels=list(range(10, 15)))
        edges = edges + e2
        rng.shuffle(edges)
    elif kind == "dag":
        u, v = rng.sample(range(n), 2)
        if (u, v) not in edges and (v, u) not in edges:
            edges.append((u, v))
    elif kind == "cycle_with_root":
        e = rng.choice(edges)
        if (e[1], e[0]) not in edges and e[0] != root:
            edges.append((e[1], e[0]))
    elif kind == "no_root":
        edges = [(i, (i + 1) % n) for i in range(n)]
        rng.shuffle(edges)
    elif kind == "self_loop":
        v = rng.randrange(n)
        edges.append((v, v))
    elif kind == "reversed_edge":
        i = rng.randrange(len(edges))
        edges[i] = (edges[i][1], edges[i][0])
    # the model assumes a duplicate-free listing (DiGraph would merge duplicates)
    seen, out = set(), []
    for e in edges:
        if e not in seen:
            seen.add(e)
            out.append(e)
    return kind, out


# ------------------------------------------------------------------ oracle (independent of the model)
def oracle(edges, order):
    """Property C17 on an implementation output for a tree listing."""
    n = len(edges)
    if sorted(order) != list(range(n)):
        return f"not a permutation of range({n}): {order}"
    dsts = {v for _, v in edges}
    reached = {u for u, _ in edges if u not in dsts}  # the root
    for pos, k in enumerate(order):
        u, v = edges[k]
        if u not in reached:
            return f"edge #{k}={edges[k]} at position {pos} listed before the edge into its source"
        reached.add(v)
    return None


def main(chk: Check):
    chk.build_and_audit()
    import_repo()
    from sleap_nn.inference.paf_grouping import EdgeType, PAFScorer, toposort_edges

    def impl(edges):
        r = call(toposort_edges, [EdgeType(u, v) for u, v in edges])
        return "raise" if r[0] == "raise" else "ok " + " ".join(str(int(i)) for i in r[1])

    def impl_scorer(edges):
        nodes = sorted({x for e in edges for x in e})
        names = [f"n{v}" for v in nodes]
        r = call(lambda: PAFScorer(part_names=names, edges=[(f"n{u}", f"n{v}") for u, v in edges],
                                   pafs_stride=2).sorted_edge_inds)
        if r[0] == "raise":
            return "raise", None
        # the scorer re-indexes nodes by position in part_names: same tree, different numbering
        return "ok " + " ".join(str(int(i)) for i in r[1]), [(nodes.index(u), nodes.index(v)) for u, v in edges]

    import numpy as np
    import sleap_nn.inference.paf_grouping as pg

    def impl_grouping(edges, n_animals):
        """The order actually USED for grouping: run the real group_instances_sample on a frame
        with `n_animals` complete animals (one peak per node each, every edge matched with score 1)
        and record the key order of the `connections` dict it hands to
        assign_connections_to_instances.  Returns (order used as edge indices, n instances, n NaN)."""
        nodes = sorted({x for e in edges for x in e})
        names = [f"n{v}" for v in nodes]
        scorer = PAFScorer(part_names=names, edges=[(f"n{u}", f"n{v}") for u, v in edges], pafs_stride=2)
        n = len(nodes)
        peaks = np.array([[10.0 * c + a, 7.0 * a] for c in range(n) for a in range(n_animals)], dtype="float32")
        vals = np.ones(len(peaks), dtype="float32")
        chan = np.array([c for c in range(n) for a in range(n_animals)], dtype="int64")
        m_edge = np.array([k for k in range(len(edges)) for a in range(n_animals)], dtype="int64")
        m_src = np.array([a for k in range(len(edges)) for a in range(n_animals)], dtype="int64")
        m_dst = m_src.copy()
        m_score = np.ones(len(m_edge), dtype="float32")
        used = []
        orig = pg.assign_connections_to_instances

        def spy(connections, *a, **k):
            used.append([scorer.edge_types.index(et) for et in connections.keys()])
            return orig(connections, *a, **k)

        pg.assign_connections_to_instances = spy
        try:
            inst, _, _ = pg.group_instances_sample(peaks, vals, chan, m_edge, m_src, m_dst, m_score, n,
                                                   scorer.sorted_edge_inds, scorer.edge_types, 0, 0.25)
        finally:
            pg.assign_connections_to_instances = orig
        return used[0], int(inst.shape[0]), int(np.isnan(inst).any(axis=-1).sum())

    import torch

    def impl_grouping_batch(edges, n_samples):
        """Same observation through the batch entry point (PAFScorer.group_instances →
        group_instances_batch): every sample of the batch must be grouped in the model's order and
        come out whole.  One complete animal per sample."""
        nodes = sorted({x for e in edges for x in e})
        names = [f"n{v}" for v in nodes]
        scorer = PAFScorer(part_names=names, edges=[(f"n{u}", f"n{v}") for u, v in edges], pafs_stride=2)
        n = len(nodes)
        nt = lambda xs, dt: torch.nested.nested_tensor([torch.tensor(x, dtype=dt) for x in xs])
        peaks = nt([[[10.0 * c + b, 3.0 * b] for c in range(n)] for b in range(n_samples)], torch.float32)
        vals = nt([[1.0] * n for _ in range(n_samples)], torch.float32)
        chan = nt([list(range(n)) for _ in range(n_samples)], torch.int32)
        m_edge = nt([list(range(len(edges))) for _ in range(n_samples)], torch.int32)
        m_src = nt([[0] * len(edges) for _ in range(n_samples)], torch.int32)
        m_dst = nt([[0] * len(edges) for _ in range(n_samples)], torch.int32)
        m_score = nt([[1.0] * len(edges) for _ in range(n_samples)], torch.float32)
        used = []
        orig = pg.assign_connections_to_instances

        def spy(connections, *a, **k):
            used.append([scorer.edge_types.index(et) for et in connections.keys()])
            return orig(connections, *a, **k)

        pg.assign_connections_to_instances = spy
        try:
            inst, _, _ = scorer.group_instances(peaks, vals, chan, m_edge, m_src, m_dst, m_score)
        finally:
            pg.assign_connections_to_instances = orig
        per_sample = []
        for b in range(n_samples):
            x = inst[b].numpy() if hasattr(inst[b], "numpy") else np.asarray(inst[b])
            per_sample.append((int(x.shape[0]), int(np.isnan(x).any(axis=-1).sum())))
        return used, per_sample

    cases = []  # (kind, edges)
    rng = chk.rng
    # corpus / fixed regression cases first
    cases.append(("suite_example", [(2, 3), (0, 1), (1, 2), (1, 4)]))
    cases.append(("two_nodes", [(5, 2)]))
    if chk.thorough:
        for n in range(2, 6):
            for edges, _ in all_rooted_trees(n):
                for perm in itertools.permutations(edges):
                    cases.append((f"exh{n}", list(perm)))
        for edges, _ in all_rooted_trees(6):
            for _ in range(12):
                p = edges[:]
                rng.shuffle(p)
                cases.append(("exh6_sampled_listing", p))
    else:
        for n in range(2, 5):
            for edges, _ in all_rooted_trees(n):
                for perm in itertools.permutations(edges):
                    cases.append((f"exh{n}", list(perm)))
    for _ in range(chk.n(600, 60000)):
        n = rng.choice([2, 3, 4, 5, 6, 7, 7, 7, 7, 8, 12, 20, 40] if chk.thorough else [2, 3, 4, 5, 6, 7, 7, 8, 12, 20])
        cases.append((f"rand{n}", random_tree(rng, n)[0]))
    for _ in range(chk.n(200, 2000)):
        cases.append(malformed(rng))

    lines = ["toposort " + lst(edges, lambda e: f"{e[0]} {e[1]}") for _, edges in cases]
    model = run_driver("C17.lean", lines)

    scorer_every = 1 if chk.thorough else 3
    for idx, ((kind, edges), m) in enumerate(zip(cases, model)):
        i = impl(edges)
        is_tree = not kind.startswith(("forest", "dag", "cycle", "no_root", "empty", "self", "reversed"))
        chk.case((kind.rstrip("0123456789"), tuple(edges)) if edges else None,
                 {"kind": kind, "edges": edges, "impl": i, "model": m}, tags=[kind])
        bad = i != m
        if bad:
            chk.disagree("toposort_edges == Toposort.toposort", {"kind": kind, "edges": edges}, i, m)
        if is_tree:
            # the theorems apply: evaluate the property itself on the implementation
            why = "raised" if i == "raise" else oracle(edges, [int(x) for x in i.split()[1:]])
            if why:
                chk.fail(f"C17 fails on toposort_edges: {why}", {"edges": edges}, i)
            if idx % scorer_every == 0:
                si, re_edges = impl_scorer(edges)
                if si == "raise":
                    chk.fail("PAFScorer construction raised on a tree skeleton", {"edges": edges}, si)
                else:
                    why = oracle(re_edges, [int(x) for x in si.split()[1:]])
                    if why:
                        chk.fail(f"C17 fails on PAFScorer.sorted_edge_inds: {why}", {"edges": edges}, si)
                    if si != i:
                        # renumbering nodes keeps listing order, hence (model fact) the same index order
                        chk.disagree("PAFScorer.sorted_edge_inds == toposort_edges", {"edges": edges}, si, i)
                na = 1 + idx % 2
                g = call(impl_grouping, edges, na)
                if g[0] == "raise":
                    chk.fail(f"grouping raised on complete animals of a tree skeleton: {g[1:]}", {"edges": edges, "animals": na}, g)
                else:
                    used, n_inst, n_nan = g[1]
                    gm = "ok " + " ".join(map(str, used))
                    if gm != m:
                        chk.disagree("edge order used by group_instances_sample == Toposort.toposort", {"edges": edges}, gm, m)
                    why = oracle(re_edges or edges, used) if si != "raise" else None
                    if why:
                        chk.fail(f"C17 fails on the order used for grouping: {why}", {"edges": edges}, gm)
                    if n_inst != na or n_nan != 0:
                        chk.fail(f"body parts left ungrouped: {na} complete animals grouped into {n_inst} instances with {n_nan} missing nodes",
                                 {"edges": edges, "animals": na}, {"order_used": used})
                if idx % (2 * scorer_every) == 0:
                    nb = 2 + idx % 2
                    gb = call(impl_grouping_batch, edges, nb)
                    if gb[0] == "raise":
                        chk.fail(f"batch grouping raised on complete animals of a tree skeleton: {gb[1:]}", {"edges": edges, "batch": nb}, gb)
                    else:
                        used_b, per_sample = gb[1]
                        for b in range(nb):
                            gmb = "ok " + " ".join(map(str, used_b[b])) if b < len(used_b) else "missing"
                            if gmb != m:
                                chk.disagree("edge order used by group_instances_batch (every sample) == Toposort.toposort",
                                             {"edges": edges, "sample": b, "batch": nb}, gmb, m)
                            if b >= len(per_sample) or per_sample[b] != (1, 0):
                                chk.fail(f"body parts left ungrouped in sample {b} of a batch of {nb}: "
                                         f"(instances, missing nodes) = {per_sample[b] if b < len(per_sample) else None}, expected (1, 0)",
                                         {"edges": edges, "batch": nb, "sample": b}, {"order_used": used_b})


def replay(chk: Check, payload):
    import_repo()
    from sleap_nn.inference.paf_grouping import EdgeType, toposort_edges

    edges = [tuple(e) for e in (payload.get("case") or payload["disagreements"][0]["case"])["edges"]]
    r = call(toposort_edges, [EdgeType(u, v) for u, v in edges])
    m = run_driver("C17.lean", ["toposort " + lst(edges, lambda e: f"{e[0]} {e[1]}")])[0]
    i = "raise" if r[0] == "raise" else "ok " + " ".join(str(int(x)) for x in r[1])
    print(f"replay edges={edges} impl={i} model={m}")
    chk.case(tuple(edges))
    if i != m:
        chk.disagree("toposort_edges == Toposort.toposort", {"edges": edges}, i, m)
    why = "raised" if i == "raise" else oracle(edges, [int(x) for x in i.split()[1:]])
    if why:
        chk.fail(f"C17 fails on toposort_edges: {why}", {"edges": edges}, i)


if __name__ == "__main__":
    chk = Check(
        "C17", module="SleapVerif.Props.C17", theorems=THEOREMS,
        build_targets=["SleapVerif.Model.Toposort", "SleapVerif.Model.Proto"],
        trusted=[
            "Lean 4.33 kernel; axioms ⊆ {propext, Classical.choice, Quot.sound} (audited per run)",
            "hand-written model Toposort.lean of toposort_edges; tied to /repo by exact comparison on the explored listings only",
            "networkx DiGraph insertion order, topological_sort first element, bfs_edges order: modelled, validated by the correspondence",
        ],
        rule="rooted labelled trees (exhaustive up to 4 nodes x all listings in quick, 5 in thorough, all 6-node trees "
             "with sampled listings in thorough; random shapes path/star/bushy/uniform up to 20 nodes with random labels "
             "and listings) + malformed digraphs; distinct = distinct (kind, edge listing); trivial = empty listing",
        assumptions=["duplicate edges in a listing are outside the model (DiGraph merges them); generator never emits them"],
    )
    run_check(chk, main, replay)
