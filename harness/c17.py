"""C17 — every tree skeleton gets a complete, parent-before-child edge order.

Model: lean/SleapVerif/Model/Toposort.lean; theorems: lean/SleapVerif/Props/C17.lean.
Correspondence: `toposort_edges` and `PAFScorer(...).sorted_edge_inds` (real code, real
networkx) vs the Lean driver on the same edge listings, compared exactly.
"""
import itertools
import json
import os

from common import Check, call, import_repo, lst, run_check, run_driver

THEOREMS = [
    "SleapVerif.C17.arbo_perm",
    "SleapVerif.C17.toposort_perm",
    "SleapVerif.C17.toposort_parent_first",
    "SleapVerif.C17.toposort_fuel_suffices",
    "SleapVerif.C17.toposort_sound_nodup",
    "SleapVerif.C17.isArbo_implies_arbo",
    "SleapVerif.C17.toposort_relabel",
    "SleapVerif.C17.bfs_relabel",
    "SleapVerif.C17.arbo_relabel",
    "SleapVerif.C17.toposort_any_numbering_any_listing",
    "SleapVerif.C17.child_before_parent_drops_parent",
    "SleapVerif.C17.parent_first_needed",
]


# ------------------------------------------------------------------ generators
def random_tree(rng, n, labels=None):
    """Random rooted labelled tree on n nodes as (edges directed away from the root, root)."""
    labels = labels or rng.sample(range(max(n, rng.choice([n, n + 3, 3 * n]))), n)
    order = labels[:]
    rng.shuffle(order)
    shape = rng.choice(["uniform", "path", "star", "bushy"])
    edges = []
    for i in range(1, n):
        if shape == "path":
            p = i - 1
        elif shape == "star":
            p = 0
        elif shape == "bushy":
            p = rng.randrange(max(0, i - 2), i)
        else:
            p = rng.randrange(i)
        edges.append((order[p], order[i]))
    rng.shuffle(edges)
    return edges, order[0]


def all_rooted_trees(n):
    """All rooted labelled trees on nodes 0..n-1 as parent maps (n^(n-1) of them)."""
    for root in range(n):
        others = [v for v in range(n) if v != root]
        for parents in itertools.product(range(n), repeat=n - 1):
            par = dict(zip(others, parents))
            if any(v == p for v, p in par.items()):
                continue
            ok = True
            for v in others:  # every node must reach the root
                seen, x = set(), v
                while x != root:
                    if x in seen:
                        ok = False
                        break
                    seen.add(x)
                    x = par[x]
                if not ok:
                    break
            if ok:
                yield [(par[v], v) for v in others], root


def malformed(rng):
    kind = rng.choice(["forest", "dag", "cycle_with_root", "no_root", "empty", "self_loop", "reversed_edge"])
    if kind == "empty":
        return kind, []
    n = rng.randrange(3, 7)
    edges, root = random_tree(rng, n, labels=list(range(n)))
    if kind == "forest":
        e2, _ = random_tree(rng, rng.randrange(2, 5), labels=list(range(10, 15)))
        edges = edges + e2
        rng.shuffle(edges)
    elif kind == "dag":
        u, v = rng.sample(range(n), 2)
        if (u, v) not in edges and (v, u) not in edges:
            edges.append((u, v))
    elif kind == "cycle_with_root":
        e = rng.choice(edges)
        if (e[1], e[0]) not in edges and e[0] != root:
            edges.append((e[1], e[0]))
    elif kind == "no_root":
        edges = [(i, (i + 1) % n) for i in range(n)]
        rng.shuffle(edges)
    elif kind == "self_loop":
        v = rng.randrange(n)
        edges.append((v, v))
    elif kind == "reversed_edge":
        i = rng.randrange(len(edges))
        edges[i] = (edges[i][1], edges[i][0])
    # the model assumes a duplicate-free listing (DiGraph would merge duplicates)
    seen, out = set(), []
    for e in edges:
        if e not in seen:
            seen.add(e)
            out.append(e)
    return kind, out


# ------------------------------------------------------------------ oracle (independent of the model)
def oracle(edges, order):
    """Property C17 on an implementation output for a tree listing."""
    n = len(edges)
    if sorted(order) != list(range(n)):
        return f"not a permutation of range({n}): {order}"
    dsts = {v for _, v in edges}
    reached = {u for u, _ in edges if u not in dsts}  # the root
    for pos, k in enumerate(order):
        u, v = edges[k]
        if u not in reached:
            return f"edge #{k}={edges[k]} at position {pos} listed before the edge into its source"
        reached.add(v)
    return None


class Impl:
    """The real code, loaded once (after import_repo())."""

    def __init__(self):
        import numpy as np
        import torch
        import sleap_nn.inference.paf_grouping as pg
        from omegaconf import OmegaConf

        self.np, self.torch, self.pg, self.OmegaConf = np, torch, pg, OmegaConf

    def toposort(self, edges):
        r = call(self.pg.toposort_edges, [self.pg.EdgeType(u, v) for u, v in edges])
        return "raise" if r[0] == "raise" else "ok " + " ".join(str(int(i)) for i in r[1])

    def scorer(self, edges, names_order, via_config):
        """PAFScorer built the two public ways; `names_order` is the order of part_names (the scorer
        re-indexes nodes by position in part_names).  Returns (scorer, re-indexed edges)."""
        names = [f"n{v}" for v in names_order]
        e_names = [(f"n{u}", f"n{v}") for u, v in edges]
        if via_config:
            cfg = self.OmegaConf.create({"confmaps": {"part_names": names},
                                         "pafs": {"edges": [list(e) for e in e_names], "output_stride": 2}})
            sc = self.pg.PAFScorer.from_config(cfg)
        else:
            sc = self.pg.PAFScorer(part_names=names, edges=e_names, pafs_stride=2)
        return sc, [(names_order.index(u), names_order.index(v)) for u, v in edges]

    def _spy(self, scorer, used):
        orig = self.pg.assign_connections_to_instances

        def spy(connections, *a, **k):
            used.append([scorer.edge_types.index(et) for et in connections.keys()])
            return orig(connections, *a, **k)

        return orig, spy

    def grouping(self, scorer, n_edges, n_animals):
        """Order actually USED by group_instances_sample on a frame with `n_animals` complete animals
        (one peak per node each, every edge matched with score 1): key order of the `connections` dict
        handed to assign_connections_to_instances.  Returns (order, n instances, n missing nodes)."""
        np, pg = self.np, self.pg
        n = scorer.n_nodes
        peaks = np.array([[10.0 * c + a, 7.0 * a] for c in range(n) for a in range(n_animals)], dtype="float32")
        vals = np.ones(len(peaks), dtype="float32")
        chan = np.array([c for c in range(n) for a in range(n_animals)], dtype="int64")
        m_edge = np.array([k for k in range(n_edges) for a in range(n_animals)], dtype="int64")
        m_src = np.array([a for k in range(n_edges) for a in range(n_animals)], dtype="int64")
        m_score = np.ones(len(m_edge), dtype="float32")
        used = []
        orig, spy = self._spy(scorer, used)
        pg.assign_connections_to_instances = spy
        try:
            inst, _, _ = pg.group_instances_sample(peaks, vals, chan, m_edge, m_src, m_src.copy(), m_score, n,
                                                   scorer.sorted_edge_inds, scorer.edge_types, 0, 0.25)
        finally:
            pg.assign_connections_to_instances = orig
        return used[0], int(inst.shape[0]), int(np.isnan(inst).any(axis=-1).sum())

    def grouping_partial(self, scorer, re_edges, present, match_perm):
        """group_instances_sample on a frame with INCOMPLETE animals: animal a has a peak for node c iff
        c in present[a]; an edge (u, v) is matched for a iff both ends are present (score 1).  Returns the
        instances as a sorted list of rows, a row = tuple over nodes of the animal the peak belongs to (None = NaN)."""
        np, pg = self.np, self.pg
        n = scorer.n_nodes
        idx = {}  # (node, animal) -> peak index within the node's channel
        peaks, chan = [], []
        for c in range(n):
            k = 0
            for a, pr in enumerate(present):
                if c in pr:
                    idx[(c, a)] = k
                    k += 1
                    peaks.append([10.0 * c + a, 7.0 * a + 1.0])
                    chan.append(c)
        matches = [(k, idx[(u, a)], idx[(v, a)]) for k, (u, v) in enumerate(re_edges)
                   for a, pr in enumerate(present) if u in pr and v in pr]
        matches = [matches[i] for i in match_perm if i < len(matches)] if match_perm else matches
        peaks = np.array(peaks, dtype="float32").reshape(-1, 2)
        vals = np.ones(len(peaks), dtype="float32")
        chan = np.array(chan, dtype="int64")
        m_edge = np.array([m[0] for m in matches], dtype="int64")
        m_src = np.array([m[1] for m in matches], dtype="int64")
        m_dst = np.array([m[2] for m in matches], dtype="int64")
        m_score = np.ones(len(matches), dtype="float32")
        inst, _, _ = pg.group_instances_sample(peaks, vals, chan, m_edge, m_src, m_dst, m_score, n,
                                               scorer.sorted_edge_inds, scorer.edge_types, 0, 0.25)
        rows = []
        for r in np.asarray(inst):
            row = []
            for c in range(n):
                if np.isnan(r[c]).any():
                    row.append(None)
                else:
                    a = int(round(float(r[c][0]) - 10.0 * c))
                    ok = (c, a) in idx and float(r[c][0]) == 10.0 * c + a and float(r[c][1]) == 7.0 * a + 1.0
                    row.append(a if ok else ("?", float(r[c][0]), float(r[c][1])))
            rows.append(tuple(row))
        return sorted(rows, key=repr)

    def grouping_batch(self, scorer, n_edges, n_samples):
        """Same through the batch entry point PAFScorer.group_instances → group_instances_batch: every
        sample (one complete animal each) must be grouped in the model's order and come out whole."""
        np, torch, pg = self.np, self.torch, self.pg
        n = scorer.n_nodes
        nt = lambda xs, dt: torch.nested.nested_tensor([torch.tensor(x, dtype=dt) for x in xs])
        peaks = nt([[[10.0 * c + b, 3.0 * b] for c in range(n)] for b in range(n_samples)], torch.float32)
        vals = nt([[1.0] * n for _ in range(n_samples)], torch.float32)
        chan = nt([list(range(n)) for _ in range(n_samples)], torch.int32)
        m_edge = nt([list(range(n_edges)) for _ in range(n_samples)], torch.int32)
        zeros = nt([[0] * n_edges for _ in range(n_samples)], torch.int32)
        m_score = nt([[1.0] * n_edges for _ in range(n_samples)], torch.float32)
        used = []
        orig, spy = self._spy(scorer, used)
        pg.assign_connections_to_instances = spy
        try:
            inst, _, _ = scorer.group_instances(peaks, vals, chan, m_edge, zeros, zeros, m_score)
        finally:
            pg.assign_connections_to_instances = orig
        per_sample = []
        for b in range(n_samples):
            x = inst[b].numpy() if hasattr(inst[b], "numpy") else np.asarray(inst[b])
            per_sample.append((int(x.shape[0]), int(np.isnan(x).any(axis=-1).sum())))
        return used, per_sample


def expected_partial(re_edges, n_nodes, present):
    """Independent oracle for incomplete animals: the instances are the connected components (with at
    least one matched edge) of each animal's detected part of the skeleton — no detected body part that
    is linked to another by a matched connection may be left out or put elsewhere."""
    rows = []
    for a, pr in enumerate(present):
        comp = {c: c for c in pr}

        def find(x):
            while comp[x] != x:
                x = comp[x]
            return x

        linked = set()
        for u, v in re_edges:
            if u in pr and v in pr:
                comp[find(u)] = find(v)
                linked |= {u, v}
        groups = {}
        for c in linked:
            groups.setdefault(find(c), set()).add(c)
        for g in groups.values():
            rows.append(tuple(a if c in g else None for c in range(n_nodes)))
    return sorted(rows, key=repr)


def model_of(edge_lists):
    return run_driver("C17.lean", ["toposort " + lst(edges, lambda e: f"{e[0]} {e[1]}") for edges in edge_lists])


def _deeper_more(re_edges, present):
    """Is there an edge with strictly more matched connections than the edge into its source?"""
    cnt = {e: sum(1 for pr in present if e[0] in pr and e[1] in pr) for e in re_edges}
    into = {v: (u, v) for u, v in re_edges}
    return any(e[0] in into and cnt[e] > cnt[into[e[0]]] for e in re_edges)


def is_tree_kind(kind):
    return not kind.startswith(("forest", "dag", "cycle", "no_root", "empty", "self", "reversed"))


def plan_extras(rng, idx, edges):
    """Deterministic (from rng) choice of the glue observations made for one tree listing."""
    nodes = sorted({x for e in edges for x in e})
    order = nodes[:]
    if rng.random() < 0.5:
        rng.shuffle(order)
    # incomplete animals (positions in `order`, i.e. the scorer's node indices): each body part of each
    # animal undetected with probability 0.3; one animal in three loses its root part for certain
    n = len(order)
    re_edges = [(order.index(u), order.index(v)) for u, v in edges]
    root = ({u for u, _ in re_edges} - {v for _, v in re_edges}).pop() if re_edges else 0
    present = []
    for a in range(1 + rng.randrange(3)):
        pr = [c for c in range(n) if rng.random() >= 0.3]
        if rng.random() < 0.34 and root in pr:
            pr.remove(root)
        present.append(pr)
    n_matches = sum(1 for u, v in re_edges for pr in present if u in pr and v in pr)
    perm = list(range(n_matches))
    if rng.random() < 0.5:
        rng.shuffle(perm)
    return {"names_order": order, "via_config": rng.random() < 0.5,
            "animals": 1 + rng.randrange(3), "batch": rng.choice([0, 2, 3, 4]),
            "present": present, "match_perm": perm}


def check_case(chk: Check, impl: Impl, kind, edges, m, extras, m_re=None):
    """All observations for one listing.  `m` = model answer for `edges`; `extras` (or None) selects
    the scorer / grouping observations; `m_re` = model answer for the scorer's re-indexed edges."""
    i = impl.toposort(edges)
    if i != m:
        chk.disagree("toposort_edges == Toposort.toposort", {"kind": kind, "edges": edges}, i, m)
    if not is_tree_kind(kind):
        return i
    why = "raised" if i == "raise" else oracle(edges, [int(x) for x in i.split()[1:]])
    if why:
        chk.fail(f"C17 fails on toposort_edges: {why}", {"kind": kind, "edges": edges}, i)
    if not extras:
        return i
    case = {"kind": kind, "edges": edges, "extras": extras}
    r = call(impl.scorer, edges, extras["names_order"], extras["via_config"])
    if r[0] == "raise":
        chk.fail(f"PAFScorer construction raised on a tree skeleton: {r[1:]}", case, r)
        return i
    scorer, re_edges = r[1]
    # the scorer's edge k must be the k-th LISTED edge (PAF channels 2k, 2k+1 follow the listing)
    kept = [(int(et.src_node_ind), int(et.dst_node_ind)) for et in scorer.edge_types]
    kept_inds = [tuple(int(x) for x in e) for e in scorer.edge_inds]
    if kept != re_edges or kept_inds != re_edges:
        chk.fail("PAFScorer does not keep the skeleton's edges in the order they were listed: edge_types "
                 f"{kept}, edge_inds {kept_inds}, listed (re-indexed by part_names) {re_edges}", case, {"edge_types": kept})
        return i
    si = "ok " + " ".join(str(int(x)) for x in scorer.sorted_edge_inds)
    if m_re is None:
        m_re = model_of([re_edges])[0]
    if si != m_re:
        chk.disagree("PAFScorer.sorted_edge_inds == Toposort.toposort (re-indexed edges)", case, si, m_re)
    why = oracle(re_edges, [int(x) for x in scorer.sorted_edge_inds])
    if why:
        chk.fail(f"C17 fails on PAFScorer.sorted_edge_inds: {why}", case, si)
    g = call(impl.grouping, scorer, len(edges), extras["animals"])
    if g[0] == "raise":
        chk.fail(f"grouping raised on complete animals of a tree skeleton: {g[1:]}", case, g)
    else:
        used, n_inst, n_nan = g[1]
        gm = "ok " + " ".join(map(str, used))
        if gm != m_re:
            chk.disagree("edge order used by group_instances_sample == Toposort.toposort", case, gm, m_re)
        why = oracle(re_edges, used)
        if why:
            chk.fail(f"C17 fails on the order used for grouping: {why}", case, gm)
        if n_inst != extras["animals"] or n_nan != 0:
            chk.fail(f"body parts left ungrouped: {extras['animals']} complete animals grouped into {n_inst} instances "
                     f"with {n_nan} missing nodes", case, {"order_used": used})
    if extras.get("present") is not None:
        present = [set(pr) for pr in extras["present"]]
        gp = call(impl.grouping_partial, scorer, re_edges, present, extras.get("match_perm"))
        want = expected_partial(re_edges, scorer.n_nodes, present)
        if gp[0] == "raise":
            chk.fail(f"grouping raised on incomplete animals of a tree skeleton: {gp[1:]}", case, gp)
        elif gp[1] != want:
            chk.fail("body parts left ungrouped / wrongly grouped with incomplete animals: instances (animal per node, "
                     f"None = missing) {gp[1]}, expected the connected groups of matched parts {want}", case,
                     {"instances": [list(map(str, r)) for r in gp[1]], "expected": [list(map(str, r)) for r in want]})
    nb = extras["batch"]
    if nb:
        gb = call(impl.grouping_batch, scorer, len(edges), nb)
        if gb[0] == "raise":
            chk.fail(f"batch grouping raised on complete animals of a tree skeleton: {gb[1:]}", case, gb)
        else:
            used_b, per_sample = gb[1]
            for b in range(nb):
                gmb = "ok " + " ".join(map(str, used_b[b])) if b < len(used_b) else "missing"
                if gmb != m_re:
                    chk.disagree("edge order used by group_instances_batch (every sample) == Toposort.toposort",
                                 {**case, "sample": b}, gmb, m_re)
                if b >= len(per_sample) or per_sample[b] != (1, 0):
                    chk.fail(f"body parts left ungrouped in sample {b} of a batch of {nb}: (instances, missing nodes) = "
                             f"{per_sample[b] if b < len(per_sample) else None}, expected (1, 0)",
                             {**case, "sample": b}, {"order_used": used_b})
    return i


def main(chk: Check):
    chk.build_and_audit()
    import_repo()
    impl = Impl()
    cases = []  # (kind, edges)
    rng = chk.rng
    # corpus / fixed regression cases first
    cases.append(("suite_example", [(2, 3), (0, 1), (1, 2), (1, 4)]))
    cases.append(("two_nodes", [(5, 2)]))
    cases.append(("seed_C17_m1", [(1, 2), (0, 1)]))
    cases.append(("seed_C17_r2m1", [(0, 2), (1, 0)]))
    cases.append(("seed_C17_r2m2", [(2, 0), (0, 1)]))
    cases.append(("seed_C17_r3m3", [(2, 3), (1, 2), (0, 1)]))
    for n in range(2, 6 if chk.thorough else 5):
        for edges, _ in all_rooted_trees(n):
            for perm in itertools.permutations(edges):
                cases.append((f"exh{n}", list(perm)))
    if chk.thorough:
        exh6 = os.environ.get("VERIF_C17_EXH6", "1") == "1"
        for edges, _ in all_rooted_trees(6):
            if exh6:
                for perm in itertools.permutations(edges):
                    cases.append(("exh6", list(perm)))
            else:
                for _ in range(12):
                    q = edges[:]
                    rng.shuffle(q)
                    cases.append(("exh6_sampled_listing", q))
    for _ in range(chk.n(600, 40000)):
        n = rng.choice([2, 3, 4, 5, 6, 7, 7, 7, 7, 8, 12, 20, 40] if chk.thorough else [2, 3, 4, 5, 6, 7, 7, 8, 12, 20])
        cases.append((f"rand{n}", random_tree(rng, n)[0]))
    for _ in range(chk.n(200, 2000)):
        cases.append(malformed(rng))

    # glue observations: every case in quick's small sets, a sample of the big thorough sets
    extras_every = 3 if not chk.thorough else 25
    plans = {}
    for idx, (kind, edges) in enumerate(cases):
        if is_tree_kind(kind) and edges and (idx % extras_every == 0 or kind.startswith(("suite", "two", "seed"))):
            plans[idx] = plan_extras(rng, idx, edges)
    re_lists = {idx: [(pl["names_order"].index(u), pl["names_order"].index(v)) for u, v in cases[idx][1]]
                for idx, pl in plans.items()}
    model = model_of([e for _, e in cases])
    # per-case non-vacuity: every listing treated as a tree satisfies the theorems' hypothesis
    # (decidable recogniser `isArbo`, proved sound in Props/C17.lean); malformed ones mostly do not
    arbo = run_driver("C17.lean", ["arbo " + lst(e, lambda x: f"{x[0]} {x[1]}") for _, e in cases])
    for (kind, edges), a in zip(cases, arbo):
        if is_tree_kind(kind) and edges and a != "1":
            raise RuntimeError(f"generator produced a non-arborescence as tree case {kind}: {edges}")
    chk.extra["tree_cases_satisfying_Arbo"] = sum(1 for (k, e), a in zip(cases, arbo) if is_tree_kind(k) and a == "1")
    chk.extra["malformed_cases_satisfying_Arbo"] = sum(1 for (k, e), a in zip(cases, arbo) if not is_tree_kind(k) and a == "1")
    order_idx = sorted(re_lists)
    model_re = dict(zip(order_idx, model_of([re_lists[k] for k in order_idx]))) if order_idx else {}

    for idx, ((kind, edges), m) in enumerate(zip(cases, model)):
        pl = plans.get(idx)
        tags = [kind.rstrip("0123456789")]
        if pl:
            tags += [f"batch{pl['batch']}", f"animals{pl['animals']}", f"incomplete_animals{len(pl['present'])}",
                 "deeper_edge_has_more_matches" if _deeper_more(re_lists[idx], pl["present"]) else "match_counts_monotone", "from_config" if pl["via_config"] else "ctor",
                     "names_shuffled" if pl["names_order"] != sorted(pl["names_order"]) else "names_sorted"]
        i = check_case(chk, impl, kind, edges, m, pl, model_re.get(idx))
        chk.case((kind.rstrip("0123456789"), tuple(edges)) if edges else None,
                 {"kind": kind, "edges": edges, "impl": i, "model": m, "extras": pl}, tags=tags)


def replay(chk: Check, payload):
    """Re-executes every observation for the recorded listing (toposort_edges, both PAFScorer
    constructors, sample and batch grouping) with the recorded choices when present."""
    import_repo()
    impl = Impl()
    case = payload.get("case") or payload["disagreements"][0]["case"]
    edges = [tuple(e) for e in case["edges"]]
    kind = case.get("kind", "replay")
    nodes = sorted({x for e in edges for x in e})
    plans = [case["extras"]] if case.get("extras") else [
        {"names_order": nodes, "via_config": v, "animals": a, "batch": b, "present": None, "match_perm": None}
        for v, a, b in [(False, 1, 2), (True, 2, 3), (False, 3, 4)]]
    m = model_of([edges])[0]
    for pl in plans:
        i = check_case(chk, impl, kind, edges, m, pl)
        chk.case((kind, tuple(edges), json.dumps(pl, sort_keys=True)))
        print(f"replay edges={edges} extras={pl} toposort_edges={i} model={m}")


if __name__ == "__main__":
    chk = Check(
        "C17", module="SleapVerif.Props.C17", theorems=THEOREMS,
        build_targets=["SleapVerif.Model.Toposort", "SleapVerif.Model.Grouping", "SleapVerif.Model.Proto"],
        trusted=[
            "Lean 4.33 kernel; axioms ⊆ {propext, Classical.choice, Quot.sound} (audited per run)",
            "hand-written model Toposort.lean of toposort_edges; tied to /repo by exact comparison on the explored listings only",
            "networkx DiGraph insertion order, topological_sort first element, bfs_edges order: modelled, validated by the correspondence",
        ],
        rule="rooted labelled trees: exhaustive up to 4 nodes x all listings in quick; up to 6 nodes x ALL listings in "
             "thorough (933k listings at 6 nodes); random shapes path/star/bushy/uniform up to 20 (40) nodes with random "
             "labels and listings; malformed digraphs (forest, DAG, cycle, no root, self-loop, reversed edge, empty); for a "
             "sample of tree listings the glue is observed too: PAFScorer via constructor / from_config with sorted or "
             "shuffled part_names, order used by group_instances_sample (1-3 complete animals) and by group_instances_batch "
             "(2-4 samples), and group_instances_sample on 1-3 INCOMPLETE animals (each part undetected w.p. 0.3, root part "
             "removed in a third of the animals, matches in listing or shuffled order) against the connected groups of "
             "matched parts; distinct = distinct (kind, edge listing); trivial = empty listing",
        assumptions=["duplicate edges in a listing are outside the model (DiGraph merges them); generator never emits them"],
    )
    run_check(chk, main, replay)
