"""C09 — tracking never drops / duplicates / double-assigns detections, never crashes.

Correspondence: real `sleap_nn.tracking.Tracker` (all glue: from_config, track, candidates classes)
vs the Lean model `SleapVerif.Tracker` through `drivers/C09.lean`, frame by frame over seeded
histories.  The raw association scores, the reduced score matrix and the solver artefact (scipy's
assignment / numpy's argsort order) are *recorded from the real run* and handed to the model, which
has to reproduce from its own state: which stored features each detection is scored against, the
matrix shape and none-pattern, its own exact reduction (compared with tolerance), the per-detection
track ids, what `track` returns and the complete next queue state.

The three defects F-C09a/b/c are detected by replaying their witnesses; the model is run with the
matching `Fixes` flags so that the correspondence is exact on a patched *and* an unpatched tree,
while the property oracle (independent of the model) runs on every history.
"""
from __future__ import annotations

import itertools
import json
import math
import warnings
from fractions import Fraction

from common import Check, run_check, import_repo, run_driver, rat, call, CORPUS

THEOREMS = [
    "SleapVerif.C09.greedy_terminates",
    "SleapVerif.C09.greedy_sub",
    "SleapVerif.C09.greedy_one_to_one",
    "SleapVerif.C09.greedy_maximal",
    "SleapVerif.C09.diagExt_ok",
    "SleapVerif.C09.assignStage_total",
    "SleapVerif.C09.assignStage_valid",
    "SleapVerif.C09.allocate_spec",
    "SleapVerif.C09.fw_track_total",
    "SleapVerif.C09.fw_inv_step",
    "SleapVerif.C09.fw_frameOk",
    "SleapVerif.C09.fw_track_output_sub",
    "SleapVerif.C09.fw_track_output_nodup",
    "SleapVerif.C09.fw_track_output_complete",
    "SleapVerif.C09.fw_track_ids_distinct_in_frame",
    "SleapVerif.C09.fw_history",
    "SleapVerif.C09.lq_track_total",
    "SleapVerif.C09.lq_inv_step",
    "SleapVerif.C09.lq_frameOk",
    "SleapVerif.C09.lq_track_output_all",
    "SleapVerif.C09.lq_track_output_complete",
    "SleapVerif.C09.lq_track_ids_distinct_in_frame",
    "SleapVerif.C09.lq_history",
    "SleapVerif.C09.track_ignores_input_tracks",
    "SleapVerif.C09.model_cost_colPattern",
    "SleapVerif.C09.nan_row_model_divergence",
    "SleapVerif.C09.nan_track_counterexample",
    "SleapVerif.C09.nan_track_repaired",
    "SleapVerif.C09.anyrow_counterexample_fw",
    "SleapVerif.C09.anyrow_counterexample_lq",
    "SleapVerif.C09.lqlist_counterexample",
    "SleapVerif.C09.stale_counterexample_hungarian",
    "SleapVerif.C09.stale_counterexample_max",
]

FEATURES = [("keypoints", "oks"), ("centroids", "euclidean_dist"), ("bboxes", "iou")]
TOL = 1e-9

_np = None
_sio = None
_Tracker = None
_skel = None
_skel5 = None
POSE5 = [[0.0, 0.0], [14.0, 9.0], [27.0, 3.0], [39.0, 16.0], [52.0, 6.0]]   # no zero-area sub-pose


def setup():
    global _np, _sio, _Tracker, _skel
    import_repo()
    import numpy as np
    import sleap_io as sio
    from sleap_nn.tracking.tracker import Tracker

    warnings.filterwarnings("ignore", category=RuntimeWarning)  # nanmean([]) on the unpatched tree
    _np, _sio, _Tracker = np, sio, Tracker
    _skel = sio.Skeleton(["a", "b", "c"])
    global _skel5
    _skel5 = sio.Skeleton(["n0", "n1", "n2", "n3", "n4"])


# --------------------------------------------------------------------------- implementation side
def make_instance(det):
    x, y, score, animal = det[:4]
    sz = det[4] if len(det) > 4 else 3 + (animal % 3)
    pose = det[5] if len(det) > 5 else "tri"
    nan = float("nan")
    if pose.startswith("five"):
        # 5-node pose; `five_hid`: nodes 2,3,4 are flagged visible=False but keep *stored* finite
        # coordinates (det[6] = where that low-confidence garbage landed, e.g. on a neighbour) — for every
        # consumer of a PredictedInstance (`.numpy()`) they are missing (seeded C10-r4m1)
        pts = _np.array([[x + a, y + b] for a, b in POSE5], dtype=float)
        inst = _sio.PredictedInstance.from_numpy(pts, _skel5, point_scores=_np.ones(5), score=float(score))
        if pose == "five_hid":
            sx, sy = det[6]
            for k in (2, 3, 4):
                inst.points["xy"][k] = [sx + POSE5[k][0], sy + POSE5[k][1]]
                inst.points["visible"][k] = False
        return inst
    if pose == "hline":      # collinear, identical y: zero-height box
        pts = _np.array([[x, y], [x + sz, y], [x + sz / 2, y]], dtype=float)
    elif pose == "vline":    # collinear, identical x: zero-width box
        pts = _np.array([[x, y], [x, y + sz], [x, y + sz / 2]], dtype=float)
    elif pose == "single":   # one visible keypoint: 1×1 box
        pts = _np.array([[x, y], [nan, nan], [nan, nan]], dtype=float)
    elif pose == "allnan":   # no visible keypoint at all: every association score is NaN
        pts = _np.array([[nan, nan]] * 3, dtype=float)
    elif pose == "allhid":   # every keypoint flagged visible=False, coordinates stored: `.numpy()` is all NaN
        pts = _np.array([[x, y], [x + sz, y], [x, y + sz]], dtype=float)
        inst = _sio.PredictedInstance.from_numpy(pts, _skel, point_scores=_np.ones(3), score=float(score))
        inst.points["visible"][:] = False
        return inst
    elif pose.startswith("skew"):   # positive-area pose without axis-aligned legs; skew_mK = keypoint K missing
        pts = _np.array([[x, y], [x + sz, y + 2], [x + 3, y + sz]], dtype=float)
        if pose.startswith("skew_m"):
            pts[int(pose[-1])] = nan
    else:
        pts = _np.array([[x, y], [x + sz, y], [x, y + sz]], dtype=float)
    return _sio.PredictedInstance.from_numpy(pts, _skel, point_scores=_np.ones(3), score=float(score))


class Recorder:
    """Recording wrappers around the tracker's own per-instance tables (no repo hook)."""

    def __init__(self, tracker):
        self.t = tracker
        self.feat_id = {}      # id(feature array) -> (frame, idx)
        self.inst_id = {}      # id(PredictedInstance) -> (frame, idx)
        self.track_label = {}  # id(sio.Track object) -> label (order of first appearance)
        self.keep = []         # keep arrays alive so that ids stay unique
        self.frame = None
        self.nfeat = 0
        self.table = []        # (i, (f, j), value)
        self.match_calls = []  # (cost matrix copy, pairs | ('raise', cls, msg))
        self.scores = None     # full matrix returned by get_scores
        t = tracker
        fm = dict(t._feature_methods)
        for k, fn in list(fm.items()):
            fm[k] = self._wrap_feature(fn)
        t._feature_methods = fm
        sf = dict(t._scoring_functions)
        for k, fn in list(sf.items()):
            sf[k] = self._wrap_score(fn)
        t._scoring_functions = sf
        mm = dict(t._track_matching_methods)
        for k, fn in list(mm.items()):
            mm[k] = self._wrap_match(fn)
        t._track_matching_methods = mm

    def begin(self, frame):
        self.frame, self.nfeat = frame, 0
        self.table, self.match_calls, self.scores = [], [], None
        self.feats = []        # (keypoints, feature) of this frame's detections, in order

    def _wrap_feature(self, fn):
        def w(inst):
            r = fn(inst)
            if isinstance(inst, _np.ndarray):   # optical-flow shifted keypoints: registered in update_candidates
                return r
            self.feat_id[id(r)] = (self.frame, self.nfeat)
            self.keep.append(r)
            pts = inst if isinstance(inst, _np.ndarray) else inst.numpy()
            self.feats.append((_np.array(pts, dtype=float), _np.array(r, dtype=float)))
            self.nfeat += 1
            return r
        return w

    def _wrap_score(self, fn):
        def w(a, b):
            v = fn(a, b)
            va = _np.asarray(v, dtype=float).reshape(-1)   # compute_oks returns a (1, 1) array
            if va.size != 1:
                raise RuntimeError(f"scoring function returned {va.size} values")
            self.table.append((self.feat_id.get(id(a)), self.feat_id.get(id(b)), float(va[0])))
            return v
        return w

    def _wrap_match(self, fn):
        def w(cm):
            cmc = _np.array(cm, dtype=float, copy=True)
            try:
                r, c = fn(cm)
            except Exception as e:  # noqa
                self.match_calls.append((cmc, ("raise", type(e).__name__, str(e)[:100])))
                raise
            self.match_calls.append((cmc, [(int(a), int(b)) for a, b in zip(r, c)]))
            return r, c
        return w


def make_tracker(cfg):
    base = _Tracker

    class RecTracker(base):  # records what get_scores returns; everything else is the real class
        def get_scores(self, *a, **k):
            r = base.get_scores(self, *a, **k)
            self.__dict__["_rec_scores"] = _np.array(r, dtype=float, copy=True)
            return r

    if not cfg.get("use_flow"):
        t = RecTracker.from_config(**cfg)
        return t, Recorder(t)
    # FlowShiftTracker: `from_config` constructs the class itself (not `cls`), so build the real object
    # through the real `from_config` and copy its fields into a recording subclass.
    import attrs
    from sleap_nn.tracking.tracker import FlowShiftTracker
    t0 = base.from_config(**cfg)
    if not isinstance(t0, FlowShiftTracker):
        raise RuntimeError("use_flow=True did not give a FlowShiftTracker")
    holder = {}

    class RecFlow(FlowShiftTracker):
        def get_scores(self, *a, **k):
            r = FlowShiftTracker.get_scores(self, *a, **k)
            self.__dict__["_rec_scores"] = _np.array(r, dtype=float, copy=True)
            return r

        def update_candidates(self, *a, **k):
            d = FlowShiftTracker.update_candidates(self, *a, **k)
            rec = holder["rec"]
            # the optical-flow shift is external: identify every shifted feature with the stored
            # detection (frame, idx) it was computed from
            for lst in list(d.values()):
                for x in lst:
                    rec.feat_id[id(x.feature)] = rec.inst_id.get(id(x.src_predicted_instance))
                    rec.keep.append(x.feature)
            return d

    kw = {a.name.lstrip("_"): getattr(t0, a.name) for a in attrs.fields(FlowShiftTracker) if a.init}
    t = RecFlow(**kw)
    rec = Recorder(t)
    holder["rec"] = rec
    return t, rec


def fid(rec, arr):
    p = rec.feat_id.get(id(arr))
    return "?" if p is None else f"{p[0]}.{p[1]}"


def ostr(t):
    return "-" if t is None else str(int(t))


def canon_state(tracker, rec):
    cand = tracker.candidate
    tr = " ".join(str(int(t)) for t in cand.current_tracks)
    if tracker.is_local_queue:
        qs = []
        for k, dq in cand.tracker_queue.items():
            qs.append(f"{int(k)}: " + " ".join(fid(rec, x.feature) for x in dq))
        return f"tracks {tr} queue " + " / ".join(qs)
    frames = []
    for ti in cand.tracker_queue:
        frames.append(" ".join(f"{fid(rec, f)}:{ostr(t)}" for f, t in zip(ti.features, ti.track_ids)))
    return f"tracks {tr} queue " + " / ".join(frames)


def stale_tracks(tracker):
    """track ids of current_tracks with no candidate in the queue (read from the real state)"""
    cand = tracker.candidate
    if tracker.is_local_queue:
        return [int(t) for t in cand.current_tracks if len(cand.tracker_queue.get(t, ())) == 0]
    have = set()
    for ti in cand.tracker_queue:
        have.update(int(t) for t in ti.track_ids if t is not None)
    return [int(t) for t in cand.current_tracks if int(t) not in have]


IMG = 128


def render_image(case, f):
    """Synthetic frame for the optical-flow tracker: dim seeded noise + a bright blob at every keypoint
    of every detection of the frame (deterministic in the case, so replays reproduce)."""
    import random as _random
    r = _random.Random(1000 * int(case.get("img_seed", 0)) + f)
    img = _np.array([[r.randrange(0, 24) for _ in range(IMG)] for _ in range(IMG)], dtype="float64")
    for det in case["frames"][f]:
        pts = make_instance(det).numpy()
        for k, (x, y) in enumerate(pts):
            if x != x:
                continue
            xi, yi = int(round(x)), int(round(y))
            for dy in range(-3, 4):
                for dx in range(-3, 4):
                    yy, xx = yi + dy, xi + dx
                    if 0 <= yy < IMG and 0 <= xx < IMG:
                        img[yy, xx] = max(img[yy, xx], 255.0 - 30.0 * (abs(dx) + abs(dy)) - 10 * k)
    img = img.astype("uint8")[:, :, None]
    mode = case.get("img_mode", "u8")      # the `_preprocess_imgs` branches of FlowShiftTracker
    if mode == "f32":
        return img.astype("float32")
    if mode == "hw":
        return img[:, :, 0]
    if mode == "1hw1":
        return img[None]
    if mode == "hw3":
        return _np.repeat(img, 3, axis=2)
    return img


def run_impl(case):
    """Run the real tracker over the history.  Returns per-frame records."""
    tracker, rec = make_tracker(case["cfg"])
    frames = []
    in_mode = case.get("input_tracks")          # inputs that ALREADY carry a track (re-tracking; C09-r7m1)
    stale = _sio.Track(7) if in_mode else None
    other = _Tracker.from_config(candidates_method="fixed_window", window_size=2) if in_mode == "other_tracker" else None
    last_tracks = []
    second = case.get("second_tracker")         # a fresh tracker started mid-history (C10-r7m2)
    for f, dets in enumerate(case["frames"]):
        if second and f == second["after"]:
            frames_b = run_impl({"cfg": second["cfg"], "frames": second["frames"]})
            rec.second = frames_b
        insts = [make_instance(d) for d in dets]
        if in_mode == "stale_same":
            for inst in insts:
                inst.track = stale
        elif in_mode == "perm_last" and last_tracks:
            for k, inst in enumerate(insts):
                inst.track = last_tracks[(k + 1) % len(last_tracks)]
        elif in_mode == "other_tracker":
            call(other.track, insts, f)          # another Tracker attached its own tracks first
        for i, inst in enumerate(insts):
            rec.inst_id[id(inst)] = (f, i)
        rec.keep.extend(insts)
        rec.begin(f)
        tracker.__dict__.pop("_rec_scores", None)
        image = render_image(case, f) if case["cfg"].get("use_flow") else None
        pre_tracks = len(tracker.candidate.current_tracks)
        pre_stale = stale_tracks(tracker)
        pre_queue_empty = not tracker.candidate.tracker_queue
        res = call(tracker.track, insts, f, image)
        fr = {"n": len(insts), "scores": [float(d[2]) for d in dets], "table": list(rec.table),
              "matrix": tracker.__dict__.get("_rec_scores"), "match": list(rec.match_calls),
              "pre_tracks": pre_tracks, "pre_stale": pre_stale, "pre_queue_empty": pre_queue_empty,
              "feats": list(rec.feats)}
        if res[0] == "ok":
            out = []
            for o in res[1]:
                idx = next((i for i, x in enumerate(insts) if x is o), None)
                out.append((idx, None if o.track is None else int(o.track.name)))
            # the `sio.Track` OBJECTS the public API hands back (Track compares by identity downstream):
            # label every distinct object by its order of first appearance in this history
            objs = []
            for o in res[1]:
                idx = next((i for i, x in enumerate(insts) if x is o), None)
                if o.track is None:
                    objs.append((idx, None))
                else:
                    if id(o.track) not in rec.track_label:
                        rec.track_label[id(o.track)] = len(rec.track_label)
                        rec.keep.append(o.track)
                    objs.append((idx, rec.track_label[id(o.track)]))
            fr["out_obj"] = objs
            if tracker.is_local_queue:
                # returned WITH a track although this tracker did not assign one (the instance is in no
                # track's queue): the track is whatever the input carried (F-C09e)
                queued = {id(x.src_instance) for dq in tracker.candidate.tracker_queue.values() for x in dq}
                fr["unassigned_with_track"] = [
                    next((i for i, x in enumerate(insts) if x is o), None)
                    for o in res[1] if o.track is not None and id(o) not in queued]
            last_tracks = [o.track for o in res[1] if o.track is not None] or last_tracks
            fr["res"] = "ok"
            fr["out"] = out
            if second and f == second["after"]:
                fr["second"] = getattr(rec, "second", None)
            fr["state"] = canon_state(tracker, rec)
            frames.append(fr)
        else:
            fr["res"] = f"raise:{res[1]}"
            fr["msg"] = res[2]
            fr["out"] = None
            frames.append(fr)
            break
    return frames


# --------------------------------------------------------------------------- solver contracts
def check_lsa(cm, pairs):
    """LsaSpec: valid full-size one-to-one assignment, rows increasing, optimal (brute force)."""
    n, k = cm.shape
    rows = [p[0] for p in pairs]
    cols = [p[1] for p in pairs]
    if len(pairs) != min(n, k) or rows != sorted(set(rows)) or len(set(cols)) != len(cols):
        return "shape"
    if any(not (0 <= r < n and 0 <= c < k) for r, c in pairs):
        return "bounds"
    tot = sum(cm[r, c] for r, c in pairs)
    if not math.isfinite(tot):
        return "infinite"
    if n * k and max(n, k) <= 6:
        best = math.inf
        if n <= k:
            for perm in itertools.permutations(range(k), n):
                best = min(best, sum(cm[i, perm[i]] for i in range(n)))
        else:
            for perm in itertools.permutations(range(n), k):
                best = min(best, sum(cm[perm[j], j] for j in range(k)))
        if tot > best + 1e-9 * max(1.0, abs(best)):
            return "not-optimal"
    return None


def argsort_order(cm):
    r, c = _np.unravel_index(_np.argsort(cm, axis=None), cm.shape)
    return [(int(a), int(b)) for a, b in zip(r, c)]


def check_argsort(cm, order):
    n, k = cm.shape
    if sorted(order) != [(i, j) for i in range(n) for j in range(k)]:
        return "not-a-permutation"
    vals = [cm[r, c] for r, c in order]
    if any(vals[i] > vals[i + 1] for i in range(len(vals) - 1)):
        return "not-sorted"
    return None


# --------------------------------------------------------------------------- model side
def model_lines(case, frames, fixes):
    cfg = case["cfg"]
    lines = ["init {} {} {} {} {} {} {} {} {}".format(
        "lq" if cfg["candidates_method"] == "local_queues" else "fw", cfg["window_size"],
        rat(float(cfg["instance_score_threshold"])),
        "g" if cfg["track_matching_method"] == "greedy" else "h", cfg["scoring_reduction"],
        int(fixes[0]), int(fixes[1]), int(fixes[2]), int(fixes[3]) if len(fixes) > 3 else 1)]
    for f, fr in enumerate(frames):
        toks = ["frame", str(f), str(fr["n"])] + [rat(s) for s in fr["scores"]]
        toks.append(str(len(fr["table"])))
        for a, b, v in fr["table"]:
            if a is None or b is None:
                raise RuntimeError(f"unidentified feature {a} {b} {v}")
            if v != v or math.isinf(v):
                # the model's scores are total: a NaN / infinite raw score is a disagreement by itself
                fr["nonfinite_score"] = (a, b, v)
                v = 0.0
            toks += [str(a[1]), str(b[0]), str(b[1]), rat(v)]
        mcall = fr["match"][-1] if fr["match"] else None
        if mcall is not None and fr["matrix"] is not None:
            m = fr["matrix"]
            toks += ["1", str(m.shape[0]), str(m.shape[1])]
            toks += [rat(float(x)) for x in m.reshape(-1)]
        else:
            toks.append("0")
        pairs = []
        if mcall is not None:
            cmc, r = mcall
            if cfg["track_matching_method"] == "greedy":
                pairs = argsort_order(cmc)
            elif isinstance(r, list):
                pairs = r
        toks.append(str(len(pairs)))
        for r, c in pairs:
            toks += [str(r), str(c)]
        lines.append(" ".join(toks))
    return lines


ERRMAP = {"raise:TypeError": "raise:typeError"}


def impl_fields(case, fr):
    """The fields the model has to reproduce, in the driver's output format."""
    if fr["res"] == "ok":
        res = "ok"
    elif fr["res"] == "raise:TypeError":
        res = "raise:typeError"
    elif fr["res"] == "raise:ValueError" and "infeasible" in fr["msg"]:
        res = "raise:infeasible"
    elif fr["res"] == "raise:ValueError" and "zero-size" in fr["msg"]:
        res = "raise:emptyMax"
    else:
        res = fr["res"] + ":" + fr.get("msg", "")
    stale = set(fr.get("unassigned_with_track") or [])     # F-C09e: reported by the oracle, not as a model diff
    out = "" if fr["out"] is None else " ".join(f"{i}:{ostr(None if i in stale else t)}" for i, t in fr["out"])
    if fr["matrix"] is not None:
        m = fr["matrix"]
        shape = f"{m.shape[0]} {m.shape[1]}"
        pat = " ".join("".join("0" if x != x else "1" for x in row) for row in m)
    else:
        shape, pat = "nomat", ""
    # flattened scoring-call sequence per detection
    return {"res": res, "out": out, "shape": shape, "pat": pat, "state": fr.get("state", "")}


def parse_model(line):
    parts = [p.strip() for p in line.split("|")]
    if len(parts) != 10:
        return None
    keys = ["res", "ids", "out", "shape", "pat", "red", "cands", "state", "missing", "cost"]
    return dict(zip(keys, parts))


def compare_frame(case, fr, mo):
    """Returns a list of differing field names (empty = agree)."""
    im = impl_fields(case, fr)
    diffs = []
    if mo is None:
        return ["parse"]
    if fr.get("nonfinite_score") is not None:
        diffs.append("nonfinite-raw-score")
    if im["res"] != mo["res"]:
        diffs.append("res")
    if im["res"] == "ok" and mo["res"] == "ok":
        if im["out"] != mo["out"]:
            diffs.append("out")
        if " ".join(im["state"].split()) != " ".join(mo["state"].split()):
            diffs.append("state")
    # matrix: compare whenever the implementation produced one
    if fr["matrix"] is not None:
        if im["shape"] != mo["shape"]:
            diffs.append("shape")
        elif im["pat"].replace(" ", "") != mo["pat"].replace(" ", ""):
            diffs.append("pattern")
        else:
            mine = [None if t == "nan" else Fraction(t) for t in mo["red"].split()]
            theirs = [float(x) for x in fr["matrix"].reshape(-1)]
            for a, b in zip(mine, theirs):
                if a is None:
                    continue
                # relative comparison in exact arithmetic (values may be ~1e-90: an absolute floor is vacuous)
                # (+1e-300: sums of denormals lose relative precision)
                if b != b or abs(a - Fraction(b)) > Fraction(TOL) * abs(Fraction(b)) + Fraction(1, 10 ** 300):
                    diffs.append("reduction")
                    break
        # which stored features were scored, in call order, per detection
        cands = [c.split() for c in mo["cands"].split(";")] if mo["cands"].strip() else []
        flat = [x for c in cands for x in c]
        for i in range(fr["n"]):
            seq = [f"{b[0]}.{b[1]}" if b is not None else "?" for a, b, _ in fr["table"]
                   if a is not None and a[1] == i]
            if case["cfg"].get("use_flow"):
                # the flow tracker groups local-queue candidates by frame: same set, different order
                seq, flat = sorted(seq), sorted(flat)
            if seq != flat:
                diffs.append("candidates")
                break
        if mo["missing"] != "0":
            diffs.append("missing-scores")
        # the matrix the matcher was really given vs the one the model hands to its matcher (exact)
        if fr["match"]:
            cmc = fr["match"][-1][0]
            toks = mo["cost"].split()
            mine = None
            if toks and toks[0] != "nocost":
                mine = (int(toks[0]), int(toks[1]), [None if t == "nan" else Fraction(t) for t in toks[2:]])
            theirs = (cmc.shape[0], cmc.shape[1],
                      [None if (x != x or math.isinf(x)) else Fraction(float(x)) for x in cmc.reshape(-1)])
            if mine != theirs and not (mine is not None and len(mine[2]) == len(theirs[2]) == 0):
                diffs.append("matcher-input")
    elif mo["shape"] != "nomat" and fr["res"] == "ok":
        diffs.append("shape")
    return diffs


# --------------------------------------------------------------------------- modelled features / scores
SCORE_TOL = 1e-9


def _pts_tokens(pts):
    toks = [str(len(pts))]
    for x, y in pts:
        toks += [rat(float(x)), rat(float(y))]
    return toks


def feature_score_lines(case, frames, max_scores=80):
    """Driver lines for the modelled `get_bbox` / `get_centroid` / `compute_iou` /
    `compute_euclidean_distance` on what the implementation really saw, with the recorded values."""
    cfg = case["cfg"]
    feat, sc = cfg["features"], cfg["scoring_method"]
    lines, meta = [], []
    if feat not in ("bboxes", "centroids"):
        return lines, meta
    if cfg.get("use_flow"):
        max_scores = 0      # scores are taken against optical-flow shifted features (external), not stored ones
    for f, fr in enumerate(frames):
        for j, (pts, val) in enumerate(fr.get("feats", [])):
            lines.append(" ".join(["bbox" if feat == "bboxes" else "centroid"] + _pts_tokens(pts)))
            meta.append(("feature", f, j, [float(x) for x in val]))
    n = 0
    for f, fr in enumerate(frames):
        for a, b, v in fr["table"]:
            if a is None or b is None or n >= max_scores:
                continue
            try:
                fa = frames[a[0]]["feats"][a[1]][1]
                fb = frames[b[0]]["feats"][b[1]][1]
            except (IndexError, KeyError):
                continue
            if any(x != x for x in list(fa) + list(fb)) or v != v:
                continue        # NaN feature / score: outside the modelled (total) scores, see F-C09d
            if sc == "iou" and feat == "bboxes":
                lines.append("iou " + " ".join(rat(float(x)) for x in list(fa) + list(fb)))
                meta.append(("iou", f, (a, b), v))
                n += 1
            elif sc == "euclidean_dist" and feat == "centroids":
                lines.append("d2 " + " ".join(rat(float(x)) for x in list(fa) + list(fb)))
                meta.append(("euclid", f, (a, b), v))
                n += 1
    return lines, meta


def compare_features(chk, case, meta, outs):
    """Model (exact, `Rat`) vs recorded implementation values.  Returns the number of differences."""
    bad = 0
    for (kind, f, key, val), out in zip(meta, outs):
        ok = True
        if kind == "feature":
            mine = None if out.strip() == "nan" else [Fraction(t) for t in out.split()]
            theirs = None if any(x != x for x in val) else [Fraction(x) for x in val]
            ok = mine == theirs
        elif kind == "iou":
            ok = val == val and abs(float(Fraction(out)) - val) <= SCORE_TOL
        elif kind == "euclid":
            d2 = float(Fraction(out))
            ok = val == val and val <= 0 and abs(val * val - d2) <= SCORE_TOL * max(1.0, d2)
        chk.tag("model_" + kind + "_compared")
        if not ok:
            bad += 1
            if bad <= 2:
                chk.disagree(f"modelled {kind} differs from the implementation", {"case": case, "frame": f, "what": key},
                             val, out)
    return bad


# --------------------------------------------------------------------------- property oracle
def oracle(case, frames):
    """C09 restated on what `track` returned.  Returns list of (frame, what)."""
    thr = float(case["cfg"]["instance_score_threshold"])
    bad = []
    for f, fr in enumerate(frames):
        if fr["res"] != "ok":
            bad.append((f, fr["res"] + ":" + fr.get("msg", "")[:60]))
            break
        out = fr["out"]
        idxs = [i for i, _ in out]
        if any(i is None for i in idxs):
            bad.append((f, "returned a detection it was not given"))
        if len(set(idxs)) != len(idxs):
            bad.append((f, "returned a detection twice"))
        got = {i: t for i, t in out}
        for i, s in enumerate(fr["scores"]):
            if s > thr and got.get(i) is None:
                bad.append((f, "dropped" if i not in got else "untracked"))
                break
        tr = [t for _, t in out if t is not None]
        if len(set(tr)) != len(tr):
            bad.append((f, "two detections share a track"))
        if fr.get("unassigned_with_track"):
            bad.append((f, "a detection the tracker assigned no track to is returned with the track its input carried"))
    # well-formedness of what the public API hands back: one `sio.Track` object per track id over the whole
    # history (Track compares by identity, so a second object with the same name is a different track
    # downstream), and different ids never share an object
    obj_of, id_of = {}, {}
    for f, fr in enumerate(frames):
        if fr["res"] != "ok" or bad:
            break
        for (i, t), (_, o) in zip(fr["out"], fr.get("out_obj", [])):
            if t is None:
                continue
            if obj_of.setdefault(t, o) != o:
                bad.append((f, f"track id {t} is handed back as a second sio.Track object"))
            if id_of.setdefault(o, t) != t:
                bad.append((f, f"one sio.Track object carries the ids {id_of[o]} and {t}"))
    return bad


def signatures(case, frames, bad):
    """Structural predicates of the first failing frame (read from recorded implementation data)."""
    sigs = []
    if not bad:
        return sigs
    f, what = bad[0]
    fr = frames[f]
    mcall = fr["match"][-1] if fr["match"] else None
    pairs = mcall[1] if mcall and isinstance(mcall[1], list) else None
    if what in ("dropped", "untracked") and pairs and (
            all(r == 0 for r, _ in pairs) or all(c == 0 for _, c in pairs)):
        sigs.append("lone_match_index0")
    if what.startswith("raise:TypeError") and case["cfg"]["candidates_method"] == "local_queues" \
            and pairs is not None and len(pairs) < fr["n"]:
        sigs.append("lq_unmatched_detection")
    if what.startswith("raise:ValueError") and fr["pre_stale"] and (
            "infeasible" in what or "zero-size" in what):
        sigs.append("stale_track_no_candidate")
    # F-C09e: local queues + inputs that already carry tracks: an unassigned detection keeps its input track
    if case.get("input_tracks") and case["cfg"]["candidates_method"] == "local_queues" \
            and fr.get("unassigned_with_track") and ("share a track" in what or "input carried" in what
                                                     or "sio.Track object" in what):
        sigs.append("lq_untracked_keeps_input_track")
    # F-C09d: a detection without any visible keypoint (all association scores NaN) was seen up to the
    # failing frame, and the failure is the one NaN scores cause (scipy infeasible / dropped / untracked)
    if (has_allnan(case, f) or case["cfg"].get("use_flow")) and (what in ("dropped", "untracked") or
                                (what.startswith("raise:ValueError") and "infeasible" in what)):
        nan_seen = any(v != v for fr2 in frames[:f + 1] for _, _, v in fr2["table"]) or \
            any(_np.isnan(val).all() for fr2 in frames[:f + 1] for _, val in fr2.get("feats", []))
        if nan_seen:
            sigs.append("nan_association_score")
    return sigs


# --------------------------------------------------------------------------- generator
def all_configs():
    out = []
    for cm in ("fixed_window", "local_queues"):
        for mt in ("hungarian", "greedy"):
            for ft, sc in FEATURES:
                for rd in ("mean", "max"):
                    out.append(dict(candidates_method=cm, track_matching_method=mt, features=ft,
                                    scoring_method=sc, scoring_reduction=rd))
    return out


DEGENERATE = ["hline", "vline", "single"]
PARTIAL = ["skew", "skew_m0", "skew_m1", "skew_m2"]     # missing nodes, still a positive-area pose
EXTRA_PAIRS = [("keypoints", "euclidean_dist")]          # off-diagonal feature/score pair that works in /repo


def has_allnan(case, upto=None):
    fr = case["frames"] if upto is None else case["frames"][:upto + 1]
    return any(len(d) > 5 and d[5] in ("allnan", "allhid") for dets in fr for d in dets)


ULP_THRESHOLDS = [0.7, 0.3, 0.1, 0.55]      # non-dyadic: float32(thr) != thr (seeded C09-r4m1)


def ulp_scores(thr):
    import math as _m
    return [thr, _m.nextafter(thr, 1.0), _m.nextafter(thr, 0.0), thr + 1e-9, thr - 1e-9,
            _m.nextafter(_m.nextafter(thr, 1.0), 1.0), 0.9]


def gen_case(rng, cfg=None, max_animals=5, max_frames=12, degenerate=None, nan_scores=False, ulp=False,
             hidden=False, input_tracks=None, second_tracker=None):
    cfg = dict(cfg or rng.choice(all_configs()))
    if rng.random() < 0.06 and not nan_scores and not hidden and degenerate is None and cfg["features"] == "keypoints":
        cfg["scoring_method"] = "euclidean_dist"       # off-diagonal pair (full poses only: NaN-free)
    cfg["window_size"] = rng.choice([1, 2, 3, 5, 1, 2, 3, 5, 4, 8])
    cfg["instance_score_threshold"] = rng.choice([0.0, 0.0, 0.5])
    if ulp or (not nan_scores and degenerate is None and not hidden and rng.random() < 0.1):
        # instance scores within one float64 ulp / 1e-9 of a non-dyadic threshold, both sides
        ulp = True
        cfg["instance_score_threshold"] = rng.choice(ULP_THRESHOLDS)
    K = rng.choice([1, 1, 2, 2, 3, 3, 4, 5, 6, 7][:max(1, 2 * max_animals - 2)] or [1])
    K = min(K, max_animals)
    F = rng.randint(2, max_frames)
    style = rng.choice(["lattice", "lattice", "close", "coincident"])
    # degenerate poses (collinear keypoints / one visible keypoint → zero-width or zero-height box),
    # only for bboxes+iou where the box geometry matters (seeded C10-r2m1)
    poses = None
    if hidden:
        poses = ["five"] * K
    elif cfg["features"] == "bboxes" and (degenerate or (degenerate is None and rng.random() < 0.5)):
        poses = [rng.choice(DEGENERATE + ["tri"]) for _ in range(K)]
        for a in range(min(K, 2)):
            poses[a] = rng.choice(DEGENERATE)
    elif nan_scores:
        # F-C09d region: some detections have no visible keypoint (every score NaN); oracle only
        poses = [rng.choice(["tri", "tri", "skew", "allnan", "allhid"]) for _ in range(K)]
        poses[rng.randrange(K)] = rng.choice(["allnan", "allhid"])
    elif (cfg["scoring_method"] in ("oks", "euclidean_dist") and cfg["features"] != "bboxes"
          and not (cfg["features"] == "keypoints" and cfg["scoring_method"] == "euclidean_dist")
          and degenerate is None and rng.random() < 0.4):
        # missing nodes on a positive-area pose: nan-aware feature extraction (nanmedian, OKS masks)
        poses = [rng.choice(PARTIAL) for _ in range(K)]
    family = None
    if poses:
        family = "nan_scores" if nan_scores else ("hidden_nodes" if hidden else (
            "degenerate_pose" if cfg["features"] == "bboxes" else "partial_nan"))
    pos = []
    for a in range(K):
        if style == "lattice":
            pos.append([40.0 * a + rng.randrange(0, 64) / 16, 30.0 * (a % 2) + rng.randrange(0, 64) / 16])
        elif style == "close":
            pos.append([rng.randrange(0, 160) / 16, rng.randrange(0, 160) / 16])
        else:
            pos.append([8.0, 8.0] if a < 2 else [rng.randrange(0, 640) / 16, rng.randrange(0, 640) / 16])
    p_present = rng.choice([1.0, 0.9, 0.7, 0.5])
    late = {a: (rng.randint(0, F - 1) if rng.random() < 0.3 else 0) for a in range(K)}
    gone = {a: (rng.randint(1, F) if rng.random() < (0.5 if K >= 2 else 0.2) else F + 1) for a in range(K)}
    if K >= 2 and rng.random() < 0.3:
        # stale-track bias: short window, every animal but one leaves for longer than the window
        cfg["window_size"] = rng.choice([1, 2])
        gone = {a: (rng.randint(1, max(1, F - 2)) if a else F + 1) for a in range(K)}
        p_present = 1.0
    frames = []
    for f in range(F):
        dets = []
        if rng.random() < 0.08:
            frames.append(dets)
            continue
        for a in range(K):
            pos[a][0] += rng.randrange(-16, 17) / 16
            pos[a][1] += rng.randrange(-16, 17) / 16
            absent_run = gone[a] <= f < gone[a] + cfg["window_size"] + 1
            if f >= late[a] and not absent_run and rng.random() < p_present:
                sc = rng.choice([0.9, 0.9, 0.75, 0.5, 0.25])
                if ulp:
                    sc = rng.choice(ulp_scores(cfg["instance_score_threshold"]))
                if hidden:
                    if rng.random() < 0.4:
                        o = rng.randrange(K)      # hidden nodes hold stale coordinates lying on another animal
                        dets.append([pos[a][0], pos[a][1], sc, a, 0, "five_hid", [pos[o][0], pos[o][1]]])
                    else:
                        dets.append([pos[a][0], pos[a][1], sc, a, 0, "five"])
                elif poses is None:
                    dets.append([pos[a][0], pos[a][1], sc, a])
                else:
                    pose = poses[a]
                    if nan_scores and pose not in ("allnan", "allhid") and rng.random() < 0.15:
                        pose = "allnan"          # an animal that is sometimes detected without keypoints
                    dets.append([pos[a][0], pos[a][1], sc, a, 3 + (a % 3), pose])
        rng.shuffle(dets)
        frames.append(dets)
    case = {"cfg": cfg, "frames": frames, **({"family": family} if family else {})}
    if input_tracks or (input_tracks is None and not nan_scores and rng.random() < 0.12):
        # re-tracking: the input instances already carry tracks (seeded C09-r7m1)
        case["input_tracks"] = rng.choice(["stale_same", "perm_last", "other_tracker"])
    if second_tracker or (second_tracker is None and rng.random() < 0.08 and len(frames) >= 3):
        # a fresh tracker is started (and run) in the same process in the middle of this history (C10-r7m2)
        cfg_b = dict(rng.choice(all_configs()), window_size=rng.choice([1, 3]), instance_score_threshold=0.0)
        case["second_tracker"] = {"after": rng.randint(1, len(frames) - 1), "cfg": cfg_b,
                                  "frames": [[[200.0 + k, 200.0, 0.9, 9], [260.0, 200.0 + k, 0.9, 8]][:rng.choice([1, 2])]
                                             for k in range(rng.choice([1, 2, 3]))]}
    return case


def gen_flow_case(rng, cfg=None):
    """History for the optical-flow tracker (`use_flow=True`, FlowShiftTracker): ≤ 3 animals inside a
    128×128 synthetic image (bright blobs at the keypoints, see `render_image`), moving ≤ 2 px per frame,
    presence patterns with absences of `window_size` frames or more, empty frames, permuted order."""
    cfg = dict(cfg or rng.choice(all_configs()))
    cfg["use_flow"] = True
    cfg["window_size"] = rng.choice([1, 2, 3])
    cfg["instance_score_threshold"] = rng.choice([0.0, 0.0, 0.5])
    if rng.random() < 0.4:
        cfg["of_img_scale"] = rng.choice([0.5, 2.0])
    if rng.random() < 0.25:
        cfg["of_window_size"], cfg["of_max_levels"] = 11, 1
    K = rng.choice([1, 2, 2, 3])
    F = rng.randint(3, 8)
    leaves = rng.random() < 0.2      # an animal walks out of the image: optical flow loses its keypoints
    base = [(24, 24), (88, 30), (40, 90)]
    pos = [[base[a][0] + rng.randrange(0, 32) / 16, base[a][1] + rng.randrange(0, 32) / 16] for a in range(K)]
    gone = {a: (rng.randint(1, F - 1) if rng.random() < 0.45 else F + 1) for a in range(K)}
    frames = []
    for f in range(F):
        dets = []
        if rng.random() < 0.08:
            frames.append(dets)
            continue
        for a in range(K):
            pos[a][0] += rng.randrange(-32, 33) / 16
            pos[a][1] += rng.randrange(-32, 33) / 16
            absent = gone[a] <= f < gone[a] + cfg["window_size"] + rng.choice([0, 1])
            if leaves and a == K - 1 and absent:
                # still detected, but far outside the 128×128 image
                dets.append([300.0 + f, 300.0, rng.choice([0.9, 0.75]), a, 10])
            elif not absent and rng.random() < 0.9:
                dets.append([pos[a][0], pos[a][1], rng.choice([0.9, 0.9, 0.75, 0.25]), a, 10])
        rng.shuffle(dets)
        frames.append(dets)
    return {"cfg": cfg, "frames": frames, "img_seed": rng.randrange(1000), "family": "flow",
            "img_mode": rng.choice(["u8", "u8", "f32", "hw", "1hw1", "hw3"])}


def case_key(case, frames):
    cfg = case["cfg"]
    pres = tuple(tuple(sorted(d[3] for d in dets)) for dets in case["frames"])
    order = tuple(tuple(d[3] for d in dets) for dets in case["frames"])
    return json.dumps([sorted(cfg.items()), pres, order], sort_keys=True, default=str)


def case_tags(case, frames):
    cfg = case["cfg"]
    tags = [cfg["candidates_method"], cfg["track_matching_method"], cfg["features"],
            "red_" + cfg["scoring_reduction"], f"window_{cfg['window_size']}"]
    if cfg.get("use_flow"):
        tags.append("use_flow")
        tags.append("flow_img_" + case.get("img_mode", "u8"))
        if cfg.get("of_img_scale"):
            tags.append("flow_img_scale")
    if any(len(d) == 0 for d in case["frames"]):
        tags.append("has_empty_frame")
    if case.get("family"):
        tags.append("family_" + case["family"])
    if case.get("input_tracks"):
        tags.append("input_tracks_" + case["input_tracks"])
    if case.get("second_tracker"):
        tags.append("second_tracker")
    if any(fr["pre_stale"] for fr in frames):
        tags.append("has_stale_track")
    if any(fr["match"] and isinstance(fr["match"][-1][1], list) and len(fr["match"][-1][1]) < fr["n"]
           for fr in frames):
        tags.append("has_unmatched_detection")
    if any(fr["res"] != "ok" for fr in frames):
        tags.append("impl_raises")
    return tags


# --------------------------------------------------------------------------- witnesses
A, B, C = (10.0, 10.0), (50.0, 50.0), (90.0, 10.0)


def _d(p, a, s=0.9):
    return [p[0], p[1], s, a]


def wcfg(**k):
    cfg = dict(candidates_method="fixed_window", track_matching_method="hungarian", features="keypoints",
               scoring_method="oks", scoring_reduction="mean", window_size=5, instance_score_threshold=0.0)
    cfg.update(k)
    return cfg


WITNESS = {
    "F-C09a": [{"cfg": wcfg(), "frames": [[_d(A, 0)], [_d(A, 0)]]},
               {"cfg": wcfg(candidates_method="local_queues"), "frames": [[_d(A, 0)], [_d(A, 0)]]}],
    "F-C09b": [{"cfg": wcfg(candidates_method="local_queues"),
                "frames": [[_d(A, 0), _d(B, 1)], [_d(A, 0), _d(B, 1), _d(C, 2)]]}],
    "F-C09c": [{"cfg": wcfg(window_size=3),
                "frames": [[_d(A, 0), _d(B, 1), _d(C, 2)]] + [[_d(A, 0), _d(B, 1)]] * 4
                          + [[_d(A, 0), _d(B, 1), _d(C, 2)]]},
               {"cfg": wcfg(window_size=3, scoring_reduction="max", track_matching_method="greedy"),
                "frames": [[_d(A, 0), _d(B, 1), _d(C, 2)]] + [[_d(A, 0), _d(B, 1)]] * 4}],
    "F-C09e": [{"cfg": wcfg(candidates_method="local_queues", instance_score_threshold=0.5),
                "frames": [[_d(A, 0), _d(B, 1), _d(C, 2, 0.25), [130.0, 50.0, 0.25, 3]]],
                "input_tracks": "stale_same"}],
    # F-C09d: a detection without visible keypoints among others (Hungarian: infeasible), and as the first
    # detection ever (its NaN track blocks every later detection)
    "F-C09d": [{"cfg": wcfg(window_size=3, features="centroids", scoring_method="euclidean_dist"),
                "frames": [[_d(A, 0) + [3, "tri"], _d(B, 1) + [3, "tri"]],
                           [_d(A, 0) + [3, "tri"], _d(B, 1) + [3, "allnan"]]]},
               {"cfg": wcfg(window_size=3, features="bboxes", scoring_method="iou",
                            candidates_method="local_queues", track_matching_method="greedy"),
                "frames": [[_d(A, 0) + [3, "allnan"]], [_d(A, 0) + [3, "tri"]], [_d(A, 0) + [3, "tri"]]]}],
}
WSIG = {"F-C09a": "lone_match_index0", "F-C09b": "lq_unmatched_detection",
        "F-C09c": "stale_track_no_candidate", "F-C09d": "nan_association_score",
        "F-C09e": "lq_untracked_keeps_input_track"}


def replay_witnesses(chk, pid_map=None):
    """Replays every witness; returns the Fixes flags (True = repaired) the tree exhibits."""
    flags = {}
    for fid_, cases in WITNESS.items():
        fails, details = False, []
        for case in cases:
            frames = run_impl(case)
            bad = oracle(case, frames)
            sigs = signatures(case, frames, bad)
            if bad and WSIG[fid_] in sigs:
                fails = True
                details.append(f"frame {bad[0][0]}: {bad[0][1]} sig={sigs}")
            elif bad:   # fails, but not in the way the finding describes: an ordinary violation
                chk.fail(f"witness history of {fid_} fails differently: {bad[0][1]}", case, bad, sigs)
        flags[fid_] = not fails
        target = (pid_map or {}).get(fid_, fid_)
        if target is not None:
            chk.known_replay(target, still_fails=fails, detail="; ".join(details))
    return (flags["F-C09a"], flags["F-C09b"], flags["F-C09c"], flags["F-C09d"])


# --------------------------------------------------------------------------- shrinking / search
def shrink(case, pred, budget=60):
    """Drop frames / animals / snap while `pred(case)` stays true."""
    cur = case
    changed = True
    while changed and budget > 0:
        changed = False
        for f in range(len(cur["frames"]) - 1, -1, -1):
            cand = dict(cur, frames=cur["frames"][:f] + cur["frames"][f + 1:])
            budget -= 1
            if cand["frames"] and pred(cand):
                cur, changed = cand, True
                break
        if changed:
            continue
        animals = sorted({d[3] for dets in cur["frames"] for d in dets})
        for a in animals:
            cand = dict(cur, frames=[[d for d in dets if d[3] != a] for dets in cur["frames"]])
            budget -= 1
            if pred(cand):
                cur, changed = cand, True
                break
    return cur


def oracle_fails(case):
    frames = run_impl(case)
    return bool(oracle(case, frames))


def process(chk, cases, fixes, name="tracker step (ids, output, queue state, score matrix)"):
    """Run implementation + model over the cases, compare, run the oracle.  Returns #disagreements."""
    runs, lines, spans = [], [], []
    for case in cases:
        frames = run_impl(case)
        ls = model_lines(case, frames, fixes)
        spans.append((len(lines), len(ls)))
        lines += ls
        runs.append(frames)
    outs = run_driver("C09.lean", lines)
    ndis = 0
    flines, fmeta, fspans = [], [], []
    for case, frames in zip(cases, runs):
        ls, ms = feature_score_lines(case, frames)
        fspans.append((len(flines), len(ls)))
        flines += ls
        fmeta += ms
    fouts = run_driver("C09.lean", flines)
    for case, (o, n) in zip(cases, fspans):
        if compare_features(chk, case, fmeta[o:o + n], fouts[o:o + n]):
            ndis += 1
    for case, frames, (o, n) in zip(cases, runs, spans):
        mo = [parse_model(x) for x in outs[o + 1:o + n]]
        nontrivial = sum(fr["n"] for fr in frames) > 0
        chk.case(case_key(case, frames) if nontrivial else None,
                 sample={"cfg": case["cfg"], "frames": [[d[3] for d in dets] for dets in case["frames"]],
                         "impl": [fr["out"] if fr["res"] == "ok" else fr["res"] for fr in frames]},
                 tags=case_tags(case, frames))
        # solver contracts (trusted base, validated per call)
        for fr in frames:
            for cmc, r in fr["match"]:
                if case["cfg"]["track_matching_method"] == "hungarian":
                    if isinstance(r, list):
                        e = check_lsa(cmc, r)
                        if e:
                            chk.disagree("scipy linear_sum_assignment violates LsaSpec: " + e, case,
                                         {"cost": cmc.tolist(), "result": r}, "LsaSpec")
                        chk.tag("lsa_validated")
                else:
                    e = check_argsort(cmc, argsort_order(cmc))
                    if e:
                        chk.disagree("numpy argsort violates ArgsortSpec: " + e, case, cmc.tolist(), "ArgsortSpec")
                    chk.tag("argsort_validated")
        first = None
        flow_nan = case["cfg"].get("use_flow") and any(fr.get("nonfinite_score") is not None for fr in frames)
        if has_allnan(case):
            # a detection without visible keypoints: NaN scores are outside the model's total scores
            # (excluded region of the theorems, F-C09d); judged by the oracle only
            flow_nan = True
            chk.tag("nan_score_oracle_only")
        elif flow_nan:
            # optical flow lost every keypoint of a stored instance (NaN score): outside the model's total
            # scores; such a history is judged by the oracle only
            chk.tag("flow_nan_score_oracle_only")
        for f, fr in enumerate(frames):
            if flow_nan:
                break
            d = compare_frame(case, fr, mo[f] if f < len(mo) else None)
            if d:
                first = (f, d, impl_fields(case, fr), mo[f] if f < len(mo) else None)
                break
        bad = oracle(case, frames)
        for fr in frames:       # the interleaved second tracker must be consistent within itself
            if fr.get("second") and not bad:
                bad_b = oracle({"cfg": case["second_tracker"]["cfg"], "frames": case["second_tracker"]["frames"]},
                               fr["second"])
                bad = [(frames.index(fr), "second tracker: " + w) for _, w in bad_b]
        if bad:
            sigs = signatures(case, frames, bad)
            small = shrink(case, lambda c: signatures(c, run_impl(c), oracle(c, run_impl(c))) == sigs
                           and oracle_fails(c)) if len(chk.failing) < 6 else case
            chk.fail(f"C09 fails at frame {bad[0][0]}: {bad[0][1]}", small, bad[:3], sigs)
        if first is not None:
            ndis += 1
            chk.disagree(name + " differs in " + ",".join(first[1]),
                         {"case": case, "frame": first[0]}, first[2], first[3])
    return ndis


def focused_search(chk, cfgs, n):
    """After a disagreement: oracle only, on many more histories of the disagreeing configurations."""
    found = 0
    for _ in range(n):
        cfg = chk.rng.choice(cfgs)
        case = gen_case(chk.rng, cfg={k: v for k, v in cfg.items()
                                      if k not in ("window_size", "instance_score_threshold")})
        frames = run_impl(case)
        bad = oracle(case, frames)
        chk.tag("focused_search_cases")
        if bad:
            sigs = signatures(case, frames, bad)
            small = shrink(case, oracle_fails)
            fr2 = run_impl(small)
            chk.fail(f"C09 fails at frame {bad[0][0]}: {bad[0][1]}", small, oracle(small, fr2)[:3],
                     signatures(small, fr2, oracle(small, fr2)) or sigs)
            found += 1
            if found >= 3:
                break
    return found


def direct_score_checks(chk, n=60):
    """`compute_cosine_sim` (not reachable through the three feature/score pairs of the property) and
    `compute_iou` on degenerate boxes, called directly, against the modelled functions."""
    from sleap_nn.tracking.utils import compute_cosine_sim, compute_iou
    lines, meta = [], []
    for _ in range(n):
        a = [chk.rng.randrange(-160, 161) / 16 for _ in range(2)]
        b = [chk.rng.randrange(-160, 161) / 16 for _ in range(2)]
        if not any(a) or not any(b):
            continue
        lines.append("cosparts " + " ".join(rat(x) for x in a + b))
        meta.append(("cos", a, b, call(compute_cosine_sim, _np.array(a), _np.array(b))))
        x, y, w, h = (chk.rng.randrange(0, 160) / 16 for _ in range(4))
        if chk.rng.random() < 0.5:
            h = 0.0
        box = [x, y, x + w, y + h]
        box2 = [v + chk.rng.choice([0.0, 0.5, 40.0]) for v in box]
        lines.append("iou " + " ".join(rat(v) for v in box + box2))
        meta.append(("iou", box, box2, call(compute_iou, box, box2)))
    outs = run_driver("C09.lean", lines)
    for (kind, a, b, res), out in zip(meta, outs):
        ok = res[0] == "ok" and res[1] == res[1]
        if ok and kind == "cos":
            dot, na, nb = (float(Fraction(t)) for t in out.split())
            v = float(res[1])
            ok = abs(v * v * na * nb - dot * dot) <= SCORE_TOL * max(1.0, dot * dot) and (v >= 0) == (dot >= 0)
        elif ok:
            ok = abs(float(Fraction(out)) - float(res[1])) <= SCORE_TOL
        chk.tag("model_direct_" + kind + "_compared")
        if not ok:
            chk.disagree(f"modelled {kind} differs from the implementation (direct call)", {"a": a, "b": b},
                         str(res), out)


def load_corpus(pid):
    d = CORPUS / pid
    return [json.loads(p.read_text()) for p in sorted(d.glob("*.json"))] if d.exists() else []


def main(chk):
    chk.build_and_audit()
    setup()
    fixes = replay_witnesses(chk)
    chk.extra["fixes_detected"] = dict(zip(["anyRow", "lqList", "stale", "nanSafe"], fixes))
    chk.extra["model_variant"] = "repaired" if all(fixes) else "asIs flags for the unrepaired defects"
    cases = [c for cs in WITNESS.values() for c in cs] + load_corpus("C09")
    # every configuration at least once, then random configurations
    cfgs = all_configs()
    for cfg in cfgs:
        cases.append(gen_case(chk.rng, cfg=cfg, max_frames=8))
        if cfg["features"] == "bboxes":
            cases.append(gen_case(chk.rng, cfg=cfg, max_frames=8, degenerate=True))
    for _ in range(chk.n(500, 6000)):
        cases.append(gen_case(chk.rng, max_animals=5 if not chk.thorough else 7))
    # inputs that already carry tracks (seeded C09-r7m1) and a second tracker started mid-history (C10-r7m2)
    for cfg in cfgs:
        cases.append(gen_case(chk.rng, cfg=cfg, max_frames=6, input_tracks=True, second_tracker=False))
        cases.append(gen_case(chk.rng, cfg=cfg, max_frames=6, input_tracks=False, second_tracker=True))
    # scores at threshold ± 1 ulp (seeded C09-r4m1) and hidden-but-stored nodes (seeded C10-r4m1)
    for cfg in cfgs:
        cases.append(gen_case(chk.rng, cfg=cfg, max_frames=6, ulp=True))
        cases.append(gen_case(chk.rng, cfg=cfg, max_frames=6, max_animals=3, hidden=True))
    for _ in range(chk.n(20, 400)):
        cases.append(gen_case(chk.rng, ulp=True))
        cases.append(gen_case(chk.rng, max_animals=3, hidden=True))
    # detections without any visible keypoint (NaN scores): every configuration once + random; oracle only
    for cfg in cfgs:
        cases.append(gen_case(chk.rng, cfg=cfg, max_frames=6, nan_scores=True))
    for _ in range(chk.n(40, 600)):
        cases.append(gen_case(chk.rng, nan_scores=True))
    # the optical-flow tracker (second implementation of the same contract): every configuration once
    # + random; the flow shift is external, its recorded scores are fed to the same model
    for cfg in cfgs:
        cases.append(gen_flow_case(chk.rng, cfg=cfg))
    for _ in range(chk.n(70, 1500)):
        cases.append(gen_flow_case(chk.rng))
    ndis = process(chk, cases, fixes)
    direct_score_checks(chk)
    if not all(fixes):
        # the region the repaired theorems do not speak for on this tree is covered by the oracle
        # on every history above; count the failures that fell under the known signatures
        chk.extra["excluded_region_cases"] = len(chk.failing)
    if ndis:
        bad_cfgs = [d["case"]["case"]["cfg"] for d in chk.disagreements if isinstance(d["case"], dict)
                    and "case" in d["case"]]
        if bad_cfgs and not [f for f in chk.failing if not set(f["signatures"]) & set(WSIG.values())]:
            focused_search(chk, bad_cfgs, chk.n(600, 6000))


if __name__ == "__main__":
    chk = Check(
        "C09", module="SleapVerif.Props.C09", theorems=THEOREMS,
        build_targets=["SleapVerif.Model.Tracker", "SleapVerif.Model.TrackFeatures", "SleapVerif.Lemmas.Tracker",
                       "SleapVerif.Lemmas.TrackerInv"],
        trusted=[
            "Lean 4.33 kernel; axioms ⊆ {propext, Classical.choice, Quot.sound}",
            "hand-written model SleapVerif.Tracker tied to /repo by per-frame correspondence on explored histories",
            "scipy linear_sum_assignment satisfies LsaSpec (validated by brute force on every recorded call ≤ 6×6)",
            "numpy argsort returns a sorting permutation (validated on every recorded call)",
            "association scores are finite for finite keypoints (NaN keypoints are outside the model)",
            "harness recording wrappers (per-instance dicts, RecTracker.get_scores) do not change behaviour",
        ],
        rule="history = configuration (24 combos × window × threshold) + per-frame ordered presence pattern; "
             "distinct = different configuration or presence/order pattern; trivial = no detection at all",
        assumptions=["max_tracks=None (the by-design 'Exceeding max tracks' exception is not modelled)",
                     "FlowShiftTracker (use_flow=True) is driven too: cv2.calcOpticalFlowPyrLK is an external parameter, "
                     "the scores against the flow-shifted features are recorded and fed to the same model; a history "
                     "in which the flow loses all keypoints of a stored instance (NaN score) is judged by the oracle only"])
    run_check(chk, main)
