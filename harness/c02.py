"""C02 — single-instance and top-down inference return original-image coordinates.

Model: lean/SleapVerif/Model/Decode.lean; theorems: lean/SleapVerif/Props/C02.lean.
Correspondence: the REAL SingleInstancePredictor / TopDownPredictor (make_pipeline, LabelsReader /
VideoReader threads, _predict_generator, SingleInstanceInferenceModel, CentroidCrop,
FindInstancePeaks, TopDownInferenceModel, find_global_peaks / find_local_peaks) around stub networks
that render the ideal confidence maps for the tensor they receive (harness/stubs.py), against the
Lean driver on the same configuration and keypoints.
"""
import json
import math
from fractions import Fraction as Fr

import numpy as np

from common import CORPUS, Check, import_repo, run_check, run_driver, rat, unrat
import stubs
from stubs import Animal, FrameSpec, Scene

THEOREMS = [
    "SleapVerif.Decode.nearest_min",
    "SleapVerif.Decode.nearest_half",
    "SleapVerif.Decode.decode_affine",
    "SleapVerif.C02.single_roundtrip",
    "SleapVerif.C02.single_point_roundtrip",
    "SleapVerif.C02.topdown_roundtrip",
    "SleapVerif.C02.topdown_animal_roundtrip",
    "SleapVerif.C02.invisible_is_none_single",
    "SleapVerif.C02.invisible_is_none_topdown",
    "SleapVerif.C02.provider_agnostic",
    "SleapVerif.C02.provider_agnostic_topdown",
    "SleapVerif.C02.provider_agnostic_counterexample",
    "SleapVerif.C02.refined_overshoot_breaks_bound",
    "SleapVerif.C02.single_roundtrip_border_counterexample",
    "SleapVerif.C02.gtc_roundtrip",
    "SleapVerif.C02.gtc_asIs_counterexample",
    "SleapVerif.C02.unravel_exact",
    "SleapVerif.C02.in_tensor_in_range",
    "SleapVerif.C02.last_band_counterexample",
    "SleapVerif.C02.topdown_roundtrip_robust",
    "SleapVerif.Decode.centroid_roundtrip",
    "SleapVerif.Decode.crop_contains",
    "SleapVerif.Decode.robustAxis_spec",
]

SCALES = {0.5: (1, 2), 0.75: (3, 4), 1.0: (1, 1), 1.5: (3, 2)}


def scale_frac(s):
    """(num, den) of the exact rational value of the float scale the code multiplies with"""
    f = Fr(float(s))
    return f.numerator, f.denominator
TOL = 1e-3          # px, decoded coordinates (float32 pipeline vs exact rationals)
KNIFE = 2e-3        # a nearest-cell decision closer than ~1e-3 px to the midpoint is a knife edge
THR = 0.2
SIG_KNOWN = "labelsreader_no_preprocess"
SIG_BORDER = "integral_refinement_patch_crosses_border"
SIG_BAND = "keypoint_beyond_last_cell_plus_half_stride"
SIG_CBORDER = "centroid_refinement_patch_crosses_border"


# ------------------------------------------------------------------ helpers
def lattice(rng, lo, hi):
    """coordinate on the k/16 lattice shifted by 1/64 (keeps nominal positions off cell midpoints)"""
    k = rng.randrange(int(math.ceil(lo * 16)), max(int(math.ceil(lo * 16)) + 1, int(hi * 16)))
    return k / 16.0 + 1.0 / 64.0


def pad_to(n, ms):
    return n if ms <= 1 else n + (ms - n % ms) % ms


def onat(v):
    return "-" if v is None else str(int(v))


def frames_of(case):
    """FrameSpec table (codes 32, 39, …) and per-video lists, in reader order."""
    vids, code = [], 32
    for vi, v in enumerate(case["videos"]):
        frs = []
        for k, f in enumerate(v):
            animals = [Animal(tuple(a["centroid"]), [None if p is None else tuple(p) for p in a["pts"]],
                              rendered=bool(a.get("rendered", True)), gain=float(a.get("gain", 1.0)))
                       for a in f["animals"]]
            frs.append(FrameSpec(code=code, H=f["H"], W=f["W"], animals=animals, video=vi,
                                 frame_idx=int(f.get("frame_idx", k)), undershoot=float(f.get("undershoot", 0.0)),
                                 phantoms=[tuple(p) for p in f.get("phantoms", [])]))
            code += 7
        vids.append(frs)
    return vids


def pts_line(pts, deltas):
    out = [str(len(pts))]
    for p, d in zip(pts, deltas):
        if p is None:
            out.append("nan nan 0 0")
        else:
            out.append(f"{rat(p[0])} {rat(p[1])} {rat(d[0])} {rat(d[1])}")
    return " ".join(out)


def parse_pts(toks, n):
    """n × (x y cellx celly mx my) → list of dicts (None for missing)"""
    out = []
    for i in range(n):
        x, y, cx, cy, mx, my = toks[6 * i:6 * i + 6]
        if x == "nan":
            out.append(None)
        else:
            out.append({"x": unrat(x), "y": unrat(y), "cx": int(cx), "cy": int(cy),
                        "mx": None if mx == "-" else unrat(mx), "my": None if my == "-" else unrat(my)})
    return out


def is_knife(m, os_):
    return m is not None and float(m) < KNIFE * os_


def channel_peak(cm2d, refine):
    """harness's own reading of one single-peak channel: argmax cell, value, integral offset"""
    cy, cx = np.unravel_index(int(np.argmax(cm2d)), cm2d.shape)
    v = float(cm2d[cy, cx])
    d = stubs.integral_offset(cm2d, int(cx), int(cy)) if (refine == "integral" and v > 0) else (0.0, 0.0)
    return int(cx), int(cy), v, d


def interior(cx, cy, shape, r=2):
    h, w = shape
    return r <= cx < w - r and r <= cy < h - r


# ------------------------------------------------------------------ generators
def gen_sizes(rng, nv):
    return [(4 * rng.randrange(8, 25), 4 * rng.randrange(8, 25)) for _ in range(nv)]


def gen_max_hw(rng, sizes):
    H, W = sizes[0]
    same = all(s == sizes[0] for s in sizes)
    mode = rng.choice(["none", "dyadic", "dyadic", "free"]) if same else rng.choice(["dyadic", "free"])
    if mode == "none":
        return [None, None]
    if mode == "dyadic":
        e = rng.choice([Fr(1, 2), Fr(3, 4), Fr(1), Fr(5, 4), Fr(3, 2), Fr(2)])
        mh, mw = int(H * e), int(W * e)
        if rng.random() < 0.5:
            mw += rng.choice([4, 8, 16])
        else:
            mh += rng.choice([0, 4, 8])
        return [mh, mw]
    return [4 * rng.randrange(8, 40), 4 * rng.randrange(8, 40)]


def gen_stage(rng):
    scale = rng.choice([0.5, 0.75, 1.0, 1.5])
    if rng.random() < 0.12:      # non-dyadic: `int(size * scale)` is a float64 product (int(180*0.7) = 125)
        scale = rng.choice([0.7, 0.6, 1.3, 0.29 * 2])
    ms = rng.choice([1, 2, 4, 8, 16])
    os_ = rng.choice([d for d in (1, 2, 4) if ms % d == 0])
    return scale, ms, os_


def gen_single_case(rng, refine=None):
    nv = rng.choice([1, 1, 2])
    sizes = gen_sizes(rng, nv)
    scale, ms, os_ = gen_stage(rng)
    max_hw = gen_max_hw(rng, sizes)
    n_nodes = rng.choice([2, 3])
    videos = []
    for (H, W) in sizes:
        frs = []
        for _ in range(rng.randrange(1, 4)):
            animals = []
            if rng.random() < 0.9:
                pts = [None if rng.random() < 0.25 else [lattice(rng, 1, W - 2), lattice(rng, 1, H - 2)]
                       for _ in range(n_nodes)]
                animals = [{"centroid": [W / 2, H / 2], "pts": pts}]
            frs.append({"H": H, "W": W, "animals": animals})
        videos.append(frs)
    return {"pipeline": "single", "scale": scale, "os": os_, "ms": ms, "max_hw": max_hw,
            "batch": rng.randrange(1, 5), "refine": refine, "n_nodes": n_nodes, "videos": videos,
            "override_hw": bool(max_hw[0] is not None and rng.random() < 0.3)}


def gen_topdown_case(rng, refine=None, max_instances=None, counts=(0, 1, 1, 2, 2, 3), max_hw_fn=None, nv=None):
    nv = rng.choice([1, 1, 2]) if nv is None else nv
    sizes = gen_sizes(rng, nv)
    sc, ms_c, os_c = gen_stage(rng)
    si, ms_i, os_i = gen_stage(rng)
    # the FINAL size-matching target must be known before the animals are placed (their spacing is in
    # cells of the centroid network's input)
    max_hw = gen_max_hw(rng, sizes) if max_hw_fn is None else max_hw_fn(rng, sizes)
    crop = [rng.choice([16, 24, 32, 40, 48]), rng.choice([16, 24, 32, 40, 48])]
    n_nodes = rng.choice([2, 3])
    videos = []
    for (H, W) in sizes:
        eff = float(stubs.eff_scale_nominal(H, W, max_hw[0], max_hw[1]))
        ac, ai = eff * sc, eff * si
        frs = []
        for _ in range(rng.randrange(1, 4)):
            # centroids on a coarse lattice of the centroid network's input: ≥ 7 cells apart
            step = 7 * os_c / ac
            xs = [x for x in np.arange(2 + step / 2 * rng.random(), W - 3, step)]
            ys = [y for y in np.arange(2 + step / 2 * rng.random(), H - 3, step)]
            slots = [(x, y) for x in xs for y in ys]
            rng.shuffle(slots)
            k = min(len(slots), rng.choice(list(counts)))
            animals = []
            for (x0, y0) in slots[:k]:
                jit = 0.25 * step
                cx = min(max(round((x0 + (rng.random() - 0.5) * jit) * 16) / 16, 1.0), W - 2.0) + 1 / 64
                cy = min(max(round((y0 + (rng.random() - 0.5) * jit) * 16) / 16, 1.0), H - 2.0) + 1 / 64
                # keypoints around the centroid, inside the crop with room for the centroid quantisation
                qerr = os_c / (2 * sc) * si + 0.5 * os_c / sc * si * (1 if refine else 0)
                rx = max((crop[1] / 2 - 2 - qerr) / ai, 0.5)
                ry = max((crop[0] / 2 - 2 - qerr) / ai, 0.5)
                pts = []
                for _ in range(n_nodes):
                    if rng.random() < 0.25:
                        pts.append(None)
                    else:
                        px = min(max(cx + (rng.random() * 2 - 1) * rx, 0.5), W - 1.5)
                        py = min(max(cy + (rng.random() * 2 - 1) * ry, 0.5), H - 1.5)
                        pts.append([round(px * 16) / 16 + 1 / 64, round(py * 16) / 16 + 1 / 64])
                animals.append({"centroid": [cx, cy], "pts": pts})
            frs.append({"H": H, "W": W, "animals": animals})
        videos.append(frs)
    return {"pipeline": "topdown", "sc": sc, "os_c": os_c, "ms_c": ms_c, "si": si, "os_i": os_i, "ms_i": ms_i,
            "crop_hw": crop, "max_hw": max_hw, "batch": rng.randrange(1, 5), "refine": refine,
            "max_instances": max_instances, "n_nodes": n_nodes, "videos": videos}


def gen_single_border(rng):
    """Integral refinement with keypoints whose 5x5 refinement patch crosses the map border (left/top:
    cells 0-1; right/bottom: the last two cells of a map that needs no stride padding): the region the
    interior half-cell theorem excludes (F-C02b), sampled on every run."""
    scale = rng.choice([0.5, 1.0, 1.0])
    os_ = rng.choice([1, 2, 4])
    ms = os_
    H, W = 16 * rng.randrange(2, 6), 16 * rng.randrange(2, 6)
    a = scale
    frs = []
    for _ in range(rng.randrange(1, 3)):
        nW, nH = int(W * a) // os_, int(H * a) // os_
        pts = []
        for k in range(3):
            side = rng.choice(["left", "top", "right", "bottom"])
            gx, gy = rng.uniform(3, nW - 4), rng.uniform(3, nH - 4)
            if side == "left":
                gx = rng.uniform(0.02, 1.4)
            elif side == "top":
                gy = rng.uniform(0.02, 1.4)
            elif side == "right":
                gx = rng.uniform(nW - 2.4, nW - 1.02)
            else:
                gy = rng.uniform(nH - 2.4, nH - 1.02)
            pts.append([round(gx * os_ / a * 16) / 16 + 1 / 64, round(gy * os_ / a * 16) / 16 + 1 / 64])
        frs.append({"H": H, "W": W, "animals": [{"centroid": [W / 2, H / 2], "pts": pts}]})
    return {"pipeline": "single", "scale": scale, "os": os_, "ms": ms, "max_hw": [None, None], "batch": rng.randrange(1, 3),
            "refine": "integral", "n_nodes": 3, "videos": [frs], "family": "integral_patch_crosses_border"}


def gen_single_edge(rng):
    """keypoints up to the image edge (x ≤ W − 0.5): for output stride 4 the last os/2 − 1 px lie beyond
    the last grid cell + half a stride (F-C02d); strides 1, 2 are the control (`in_tensor_in_range`)."""
    os_ = rng.choice([4, 4, 2, 1])
    ms = rng.choice([os_, 2 * os_])
    scale = rng.choice([1.0, 1.0, 0.5])
    H, W = 16 * rng.randrange(2, 6), 16 * rng.randrange(2, 6)
    frs = []
    for _ in range(rng.randrange(1, 3)):
        pts = []
        for k in range(3):
            x = rng.uniform(2, W - 3) if k == 1 else rng.uniform(W - 1.9, W - 0.55)
            y = rng.uniform(H - 1.9, H - 0.55) if k >= 1 else rng.uniform(2, H - 3)
            pts.append([round(x * 16) / 16 + 1 / 64, round(y * 16) / 16 + 1 / 64])
        frs.append({"H": H, "W": W, "animals": [{"centroid": [W / 2, H / 2], "pts": pts}]})
    return {"pipeline": "single", "scale": scale, "os": os_, "ms": ms, "max_hw": [None, None], "batch": rng.randrange(1, 3),
            "refine": None, "n_nodes": 3, "videos": [frs], "family": "keypoints_up_to_the_image_edge"}


def gen_single_sigma_thr(rng):
    """what the other families keep fixed: the σ of the ideal maps and the detection threshold.  A visible
    keypoint is returned iff its ideal peak reaches the threshold (worst case exp(−1/(4σ²)) at a half-cell
    offset: σ = 0.35 cell → 0.13 < 0.2)."""
    case = gen_single_case(rng, refine=None)
    case["sigma"] = rng.choice([0.35, 0.5, 0.75, 1.0, 2.5])
    case["thr"] = rng.choice([0.05, 0.2, 0.5, 0.8])
    case["family"] = "sigma_threshold_varied"
    return case


WITNESS_BAND = {"pipeline": "single", "scale": 1.0, "os": 4, "ms": 4, "max_hw": [None, None], "batch": 1,
                "refine": None, "n_nodes": 2,
                "videos": [[{"H": 32, "W": 32, "animals": [{"centroid": [16, 16], "pts": [[30.765625, 16.25], [16.25, 30.765625]]}]}]]}

WITNESS_GTC = {"pipeline": "gtc", "si": 0.5, "os_i": 1, "ms_i": 1, "crop_hw": [32, 32], "max_hw": [None, None], "batch": 1,
               "refine": None, "n_nodes": 2, "sc": 1.0, "os_c": 1, "ms_c": 1,
               "videos": [[{"H": 64, "W": 96, "animals": [{"centroid": [43.0, 32.0], "pts": [[40.0, 30.0], [46.0, 34.0]]}]}]]}


def replay_band(chk):
    """F-C02d: 32x32, stride 4, keypoint x = 30.77 (beyond 28 + 2)"""
    rows, _ = impl_single(WITNESS_BAND, "LabelsReader", frames_of(WITNESS_BAND))
    p, g = WITNESS_BAND["videos"][0][0]["animals"][0]["pts"][0], rows[0]["pts"][0]
    err = max(abs(g[0] - p[0]), abs(g[1] - p[1]))
    return err > bound_px(4, 1.0, 1.0) + TOL, f"keypoint {p} returned at {g}: error {err:.3f} px (bound 2 px)"


def replay_gtc(chk):
    """F-C02c: ground-truth centroids, instance scale 0.5: keypoint (40,30)"""
    rows, _ = impl_gtc(WITNESS_GTC, frames_of(WITNESS_GTC))
    g = rows[0]["pts"][0]
    err = max(abs(g[0] - 40.0), abs(g[1] - 30.0))
    return err > bound_px(1, 0.5, 1.0) + TOL, f"keypoint (40, 30) returned at {g}"


WITNESS_BORDER = {"pipeline": "single", "scale": 1.0, "os": 2, "ms": 2, "max_hw": [None, None], "batch": 1,
                  "refine": "integral", "n_nodes": 2,
                  "videos": [[{"H": 32, "W": 32, "animals": [{"centroid": [16, 16], "pts": [[0.25, 16.25], [16.25, 30.75]]}]}]]}


def replay_border(chk):
    """F-C02b: 32x32, stride 2, integral: keypoint x = 0.25 (cell 0, patch crosses the left border)."""
    rows, _ = impl_single(WITNESS_BORDER, "LabelsReader", frames_of(WITNESS_BORDER))
    p, g = WITNESS_BORDER["videos"][0][0]["animals"][0]["pts"][0], rows[0]["pts"][0]
    err = max(abs(g[0] - p[0]), abs(g[1] - p[1]))
    return err > bound_px(2, 1.0, 1.0) + TOL, f"keypoint {p} returned at {g}: error {err:.3f} px = {err / 2:.2f} cell (bound 0.5 cell)"


def gen_topdown_focus(rng, refine=None):
    """Focused family (bias from the proof: the only things `topdown_roundtrip` needs are the crop
    hypothesis and the bbox offset): stride padding really applied at the centroid stage (scaled size
    not divisible by max_stride), an animal in the far (bottom-right) corner, a small crop that only
    just covers the animal (keypoints at the largest offsets that are still robustly inside)."""
    for _ in range(200):
        H, W = 4 * rng.randrange(10, 25), 4 * rng.randrange(10, 25)
        sc = rng.choice([0.5, 0.75, 1.0, 1.5])
        ms_c = rng.choice([8, 16])
        max_hw = rng.choice([[None, None], [None, None], [H + 4 * rng.randrange(0, 6), W + 4 * rng.randrange(0, 6)]])
        mh, mw = max_hw[0] or H, max_hw[1] or W
        if int(mh * sc) % ms_c and int(mw * sc) % ms_c:
            break
    os_c = rng.choice([d for d in (1, 2, 4) if ms_c % d == 0])
    si, ms_i, os_i = gen_stage(rng)
    eff = float(stubs.eff_scale_nominal(H, W, max_hw[0], max_hw[1]))
    a_i = eff * si
    crop = [rng.choice([16, 24, 32]), rng.choice([16, 24, 32])]
    n_nodes = 3
    e_c = os_c / (2.0 * sc) * si + 0.25
    frs = []
    for _ in range(rng.randrange(1, 3)):
        cx = round((W - 2.5 - 4 * rng.random()) * 16) / 16 + 1 / 64
        cy = round((H - 2.5 - 4 * rng.random()) * 16) / 16 + 1 / 64
        pts = []
        for k in range(n_nodes):
            rx = max((crop[1] / 2 - 2.0 - e_c) / a_i, 0.25)
            ry = max((crop[0] / 2 - 2.0 - e_c) / a_i, 0.25)
            sx, sy = [(-1, -1), (-1, 1), (1, -1)][k]
            px = min(max(cx + sx * rx * (0.9 + 0.1 * rng.random()), 0.5), W - 1.5)
            py = min(max(cy + sy * ry * (0.9 + 0.1 * rng.random()), 0.5), H - 1.5)
            pts.append([round(px * 16) / 16 + 1 / 64, round(py * 16) / 16 + 1 / 64])
        frs.append({"H": H, "W": W, "animals": [{"centroid": [cx, cy], "pts": pts}]})
    return {"pipeline": "topdown", "sc": sc, "os_c": os_c, "ms_c": ms_c, "si": si, "os_i": os_i, "ms_i": ms_i,
            "crop_hw": crop, "max_hw": max_hw, "batch": rng.randrange(1, 4), "refine": refine,
            "max_instances": None, "n_nodes": n_nodes, "videos": [frs], "family": "focus_pad_far_corner"}


# ------------------------------------------------------------------ implementation drivers
LAST = {}   # side channel of the last impl_* call with mode-dependent stub layers: modes seen, stats moved


def impl_single(case, provider, vids):
    import sleap_io  # noqa
    flat = [f for v in vids for f in v]
    scene = Scene(flat, case["n_nodes"])
    labels, svids = stubs.make_labels(vids, node_names=[f"n{i}" for i in range(case["n_nodes"])],
                                      order=case.get("order"), ramp=True,
                                      same_name=bool(case.get("same_filename")))
    p, net = stubs.build_single(scene, labels.skeletons, scale=case["scale"], os_=case["os"],
                                max_stride=case["ms"], max_hw=tuple(case["max_hw"]),
                                batch_size=case["batch"], refinement=case["refine"], threshold=float(case.get("thr", THR)),
                                mode_layers=bool(case.get("mode_layers")), is_rgb=True,
                                sigma=float(case.get("sigma", 1.5)), override_hw=bool(case.get("override_hw")))
    before = None
    if case.get("mode_layers"):
        # build the wrapper first, then the call history on the inner network, then predict
        p._initialize_inference_model()
        net.apply_history(case.get("history", "fresh"))
        before = [net.stats()]
    out = stubs.run_predict(p, provider, labels if provider == "LabelsReader" else svids[0],
                            video_range=case.get("video_range"))
    LAST.clear()
    if before is not None:
        after = [net.stats()]
        LAST.update({"modes": list(net.mode_log),
                     "stats_changed": any(not (a[0].equal(b[0]) and a[1].equal(b[1]) and a[2] == b[2])
                                          for a, b in zip(before, after))})
    if case.get("consumer"):
        LAST["labeled_frames"] = stubs.labeled_frames_of(p, out)
    rows = []
    for di, o in enumerate(out):
        n = len(o["frame_idx"])
        for r in range(n):
            pts = o["pred_instance_peaks"][r]
            rows.append({"dict": di, "row": r, "fidx": int(o["frame_idx"][r]), "vidx": int(o["video_idx"][r]),
                         "eff": float(o["eff_scale"][r]),
                         "pts": [None if np.isnan(q).any() else [float(q[0]), float(q[1])] for q in pts],
                         "nanpat": [[bool(np.isnan(q[0])), bool(np.isnan(q[1]))] for q in pts],
                         "vals": [float(v) for v in o["pred_peak_values"][r]],
                         "code": net.log[di][r]["code"], "a": net.log[di][r]["a"], "origin": net.log[di][r].get("origin"),
                         "hw": list(net.log[di][r]["hw"]), "cms": net.cms_log[di][r]})
    return rows, [len(o["frame_idx"]) for o in out]


def impl_topdown(case, provider, vids):
    flat = [f for v in vids for f in v]
    scene = Scene(flat, case["n_nodes"])
    labels, svids = stubs.make_labels(vids, node_names=[f"n{i}" for i in range(case["n_nodes"])],
                                      order=case.get("order"), ramp=True,
                                      same_name=bool(case.get("same_filename")))
    p, cnet, inet = stubs.build_topdown(
        scene, labels.skeletons, sc=case["sc"], os_c=case["os_c"], ms_c=case["ms_c"], si=case["si"],
        os_i=case["os_i"], ms_i=case["ms_i"], crop_hw=case["crop_hw"], max_hw=tuple(case["max_hw"]),
        batch_size=case["batch"], refinement=case["refine"], max_instances=case.get("max_instances"),
        threshold=THR, is_rgb=True, mode_layers=bool(case.get("mode_layers")))
    before = None
    if case.get("mode_layers"):
        cnet.apply_history(case.get("history", "fresh"))
        inet.apply_history(case.get("history", "fresh"))
        before = [cnet.stats(), inet.stats()]
    out = stubs.run_predict(p, provider, labels if provider == "LabelsReader" else svids[0],
                            video_range=case.get("video_range"))
    LAST.clear()
    if before is not None:
        after = [cnet.stats(), inet.stats()]
        LAST.update({"modes": list(cnet.mode_log) + list(inet.mode_log),
                     "stats_changed": any(not (a[0].equal(b[0]) and a[1].equal(b[1]) and a[2] == b[2])
                                          for a, b in zip(before, after))})
    if case.get("consumer"):
        LAST["labeled_frames"] = stubs.labeled_frames_of(p, out)
    rows = []
    for gi, o in enumerate(out):
        n = len(o["frame_idx"])
        for r in range(n):
            tl = o["instance_bbox"][r, 0, 0, :]
            # the consumer's `pred_instance_peaks + instance_bbox[…, 0, :]` (predictors.py:870)
            fin = o["pred_instance_peaks"][r] + tl[None, :]
            lg = inet.log[gi][r]
            rows.append({"group": gi, "row": r, "fidx": int(o["frame_idx"][r]), "vidx": int(o["video_idx"][r]),
                         "eff": float(o["eff_scale"][r]), "bbox_tl": [float(tl[0]), float(tl[1])],
                         "pts": [None if np.isnan(q).any() else [float(q[0]), float(q[1])] for q in fin],
                         "nanpat": [[bool(np.isnan(q[0])), bool(np.isnan(q[1]))] for q in fin],
                         "vals": [float(v) for v in o["pred_peak_values"][r]],
                         "cval": float(o["centroid_val"][r]),
                         "code": lg["code"], "animal": lg["animal"], "a": lg["a"], "hw": list(lg["hw"]),
                         "origin": lg.get("origin"), "crop_tl": list(lg["tl"]), "tl_bbox": list(lg["tl_bbox"]),
                         "tl_px": None if lg["tl_px"] is None else list(lg["tl_px"]),
                         "tl_mismatch": lg["tl_mismatch"], "cms": inet.cms_log[gi][r]})
    # centroid stage log: one entry per frame in reader order
    cen = []
    for ci, entries in enumerate(cnet.log):
        for r, e in enumerate(entries):
            cen.append({"code": e["code"], "a": e["a"], "hw": list(e["hw"]), "origin": e.get("origin"),
                        "cms": cnet.cms_log[ci][r, 0]})
    return rows, [len(o["frame_idx"]) for o in out], cen


def impl_gtc(case, vids):
    """REAL TopDownPredictor(centred-instance model only): CentroidCrop(use_gt_centroids=True) +
    FindInstancePeaks, LabelsReader(instances_key=True); plus the real consumer."""
    flat = [f for v in vids for f in v]
    scene = Scene(flat, case["n_nodes"])
    labels, _ = stubs.make_labels(vids, node_names=[f"n{i}" for i in range(case["n_nodes"])], order=case.get("order"),
                                  ramp=True)
    p, inet = stubs.build_topdown_gtc(scene, labels.skeletons, si=case["si"], os_i=case["os_i"], ms_i=case["ms_i"],
                                      crop_hw=case["crop_hw"], max_hw=tuple(case["max_hw"]), batch_size=case["batch"],
                                      refinement=case["refine"], threshold=THR)
    out = stubs.run_predict(p, "LabelsReader", labels)
    lfs = stubs.labeled_frames_of(p, out)
    rows = []
    for gi, o in enumerate(out):
        for r in range(len(o["frame_idx"])):
            tl = o["instance_bbox"][r, 0, 0, :]
            fin = o["pred_instance_peaks"][r] + tl[None, :]
            lg = inet.log[gi][r]
            rows.append({"group": gi, "fidx": int(o["frame_idx"][r]), "vidx": int(o["video_idx"][r]),
                         "eff": float(o["eff_scale"][r]), "bbox_tl": [float(tl[0]), float(tl[1])],
                         "pts": [None if np.isnan(q).any() else [float(q[0]), float(q[1])] for q in fin],
                         "nanpat": [[bool(np.isnan(q[0])), bool(np.isnan(q[1]))] for q in fin],
                         "vals": [float(v) for v in o["pred_peak_values"][r]], "cval": float(o["centroid_val"][r]),
                         "code": lg["code"], "animal": lg["animal"], "a": lg["a"], "hw": list(lg["hw"]),
                         "tl_px": lg["tl_px"], "tl_bbox": lg["tl_bbox"], "tl_mismatch": lg["tl_mismatch"],
                         "cms": inet.cms_log[gi][r]})
    return rows, lfs


# ------------------------------------------------------------------ oracles (independent of the model)
def bound_px(os_, s, eff):
    return os_ / (2.0 * s * eff)


def oracle_point(p_true, got, val, bound, label):
    """half-cell bound for a visible in-range keypoint; NaN/0 for an invisible one"""
    if p_true is None:
        if got is not None or val != 0.0:
            return f"{label}: invisible keypoint returned as {got} with value {val} (want NaN, 0)"
        return None
    if got is None:
        return f"{label}: visible keypoint {p_true} returned as NaN"
    err = max(abs(got[0] - p_true[0]), abs(got[1] - p_true[1]))
    if err > bound + TOL:
        return f"{label}: keypoint {p_true} returned at {got}: error {err:.4f} px > half a cell {bound:.4f} px"
    return None


def robust_inside(case, fr, an, eff, slack=0.0):
    """Per keypoint: does it stay in the crop's grid range for EVERY centroid estimate a correct
    centroid stage may return (within half a centroid cell of the true centroid)?  Pure geometry of
    the true labels and the configuration; independent of the model and of the implementation."""
    sc, si, os_c, os_i, ms_c, ms_i = case["sc"], case["si"], case["os_c"], case["os_i"], case["ms_c"], case["ms_i"]
    ch, cw = case["crop_hw"]
    mh, mw = case["max_hw"]
    a_c, a_i = eff * sc, eff * si
    # the centroid itself must be in the range of the centroid grid
    hin = pad_to(int((mh or fr.H) * sc), ms_c)
    win = pad_to(int((mw or fr.W) * sc), ms_c)
    cx, cy = an.centroid
    if not (0 <= cx * a_c <= (math.ceil(win / os_c) - 1) * os_c + os_c / 2 and 0 <= cy * a_c <= (math.ceil(hin / os_c) - 1) * os_c + os_c / 2):
        return [False] * len(an.pts)
    e_c = os_c / (2.0 * sc) * si + 0.25 + slack  # admissible centroid error, in crop-stage pixels (+ ¼ px)
    out = []
    for p in an.pts:
        if p is None:
            out.append(False)
            continue
        ok = True
        for pc, cc, size in ((p[0], cx, cw), (p[1], cy, ch)):
            qmax = (math.ceil(pad_to(size, ms_i) / os_i) - 1) * os_i + os_i / 2
            lo = pc * a_i - (cc * a_i + e_c - size / 2 + 0.5)
            hi = pc * a_i - (cc * a_i - e_c - size / 2 + 0.5)
            ok = ok and lo >= 0.0 and hi <= qmax
        out.append(ok)
    return out


# ------------------------------------------------------------------ one case, both providers
def check_single(chk, case):
    vids = frames_of(case)
    flat_all = [f for v in vids for f in v]
    by_code = {f.code: f for f in flat_all}
    sn, sd = scale_frac(case["scale"])
    s, os_, ms = case["scale"], case["os"], case["ms"]
    mh, mw = case["max_hw"]
    results = {}
    case_as_coded = False   # LabelsReader rows were fed un-preprocessed tensors and match the as-is model
    for provider in ("LabelsReader", "VideoReader"):
        frames = flat_all if provider == "LabelsReader" else vids[0]
        try:
            rows, dict_sizes = impl_single(case, provider, vids)
        except stubs.StubAmbiguous:
            chk.tag("stub_ambiguous_skipped")
            return
        except Exception as e:  # the real pipeline raised on a well-formed input
            chk.disagree("implementation raised where the model does not", {**case, "provider": provider},
                         f"raise:{type(e).__name__}: {str(e)[:200]}", "ok")
            chk.fail(f"C02: SingleInstancePredictor ({provider}) raised {type(e).__name__}: {str(e)[:200]}",
                     {**case, "provider": provider}, None)
            return
        B = case["batch"]
        want_sizes = [min(B, len(frames) - i) for i in range(0, len(frames), B)]
        small = {**case, "provider": provider}
        if dict_sizes != want_sizes or len(rows) != len(frames):
            chk.disagree("_predict_generator batching (rows per output dict)", small, dict_sizes, want_sizes)
            chk.fail("C02/C12: output rows do not correspond one-to-one to frames", small, dict_sizes)
            continue
        # model lines: repaired switch (pre=1) and, for LabelsReader, the as-coded one (pre=0)
        lines, deltas_all = [], []
        thr_case = float(case.get("thr", THR))

        def detectable(fr, row):
            """the model's visibility input: a keypoint is 'visible to the pipeline' when it is labelled AND its
            ideal peak reaches the detection threshold (hypothesis of the property; None = on the threshold)"""
            tp = fr.animals[0].pts if fr.animals else [None] * case["n_nodes"]
            out = []
            for k, p in enumerate(tp):
                pk = float(np.max(row["cms"][k])) if p is not None else 0.0
                out.append(p if (p is not None and pk >= thr_case + 1e-3) else (None if (p is None or pk < thr_case - 1e-3) else "knife"))
            return out
        for fr, row in zip(frames, rows):
            pts = [None if p == "knife" else p for p in detectable(fr, row)]
            ds = []
            for k, p in enumerate(pts):
                cx, cy, v, d = channel_peak(row["cms"][k], case["refine"])
                ds.append(d if p is not None else (0.0, 0.0))
            deltas_all.append(ds)
            for pre in (1, 0):
                lines.append(f"single {pre} {sn} {sd} {os_} {ms} {onat(mh)} {onat(mw)} {fr.H} {fr.W} "
                             + pts_line(pts, ds))
        model = yield lines
        recs = []
        for i, (fr, row) in enumerate(zip(frames, rows)):
            true_pts = fr.animals[0].pts if fr.animals else [None] * case["n_nodes"]
            det = detectable(fr, row)
            if "knife" in det:
                chk.knife_edges += 1
                continue
            pts = det      # what the model (and the model comparison) sees; the oracle below uses `true_pts`
            eff = float(stubs.eff_scale_nominal(fr.H, fr.W, mh, mw))
            m1, m0 = model[2 * i].split(), model[2 * i + 1].split()
            mp1, mp0 = parse_pts(m1[4:], len(pts)), parse_pts(m0[4:], len(pts))
            key = ("single", provider, s, os_, ms, tuple(case["max_hw"]), fr.H, fr.W, case["refine"], B,
                   tuple(None if p is None else tuple(p) for p in pts))
            chk.case(key if fr.animals else None,
                     {"case": "single", "provider": provider, "scale": s, "os": os_, "ms": ms, "max_hw": case["max_hw"],
                      "HW": [fr.H, fr.W], "pts": pts, "impl": row["pts"], "model": model[2 * i]},
                     tags=[f"single:{provider}", f"scale={s}", f"os={os_}", f"ms={ms}", f"refine={case['refine']}", f"B={B}",
                           "stride_padding_applied" if int(m1[1]) != int((mh or fr.H) * s) or int(m1[2]) != int((mw or fr.W) * s)
                           else "no_stride_padding",
                           "resize_truncated" if ((mh or fr.H) * s) % 1 or ((mw or fr.W) * s) % 1 else "resize_exact",
                           "preprocess_config_override" if case.get("override_hw") else "config_max_hw",
                           f"sigma={case.get('sigma', 1.5)}", f"thr={case.get('thr', THR)}",
                           "eff=1" if eff == 1.0 else ("eff<1" if eff < 1 else "eff>1")])
            # ---- indices (pixels say which frame this row was computed from)
            src = by_code[row["code"]]
            if (row["fidx"], row["vidx"]) != (src.frame_idx, src.video if provider == "LabelsReader" else 0) \
                    or src is not fr:
                chk.disagree("frame_idx/video_idx carried with the image", small,
                             [row["fidx"], row["vidx"], row["code"]], [fr.frame_idx, fr.video, fr.code])
                chk.fail("C12: output row carries the indices of another frame", small,
                         {"row": [row["fidx"], row["vidx"]], "image_of": [src.frame_idx, src.video]})
            # ---- the content of the tensor starts at its origin (resize, then pad at the bottom/right only):
            #      read by the stub from the absolute ramp channels; it renders where the content really is
            if row.get("origin") is not None:
                chk.tag("content_origin_read_from_pixels")
                if tuple(row["origin"]) != (0.0, 0.0):
                    chk.disagree("frame content starts at the tensor origin (padding only at the bottom/right)", small,
                                 list(row["origin"]), [0.0, 0.0])
            if abs(row["eff"] - float(unrat(m1[3]))) > 1e-6:
                chk.disagree("eff_scale == Decode.effScale", small, row["eff"], m1[3])
            # ---- coordinates vs repaired model
            def cmp(mp):
                bad, knife = [], False
                for k, (p, g, m) in enumerate(zip(pts, row["pts"], mp)):
                    if (p is None) != (m is None):
                        bad.append(k); continue
                    if p is None:
                        if g is not None or row["vals"][k] != 0.0 or row["nanpat"][k] != [True, True]:
                            bad.append(k)
                        continue
                    if is_knife(m["mx"], os_) or is_knife(m["my"], os_):
                        knife = True
                        continue
                    if g is None or abs(g[0] - float(m["x"])) > TOL or abs(g[1] - float(m["y"])) > TOL:
                        bad.append(k)
                return bad, knife
            bad1, knife1 = cmp(mp1)
            if knife1:
                chk.knife_edges += 1
            # structural predicate of F-C02: the tensor has the as-coded (un-preprocessed) shape, which
            # differs from the repaired one, and the answer is the as-coded model's answer
            as_coded = False
            if provider == "LabelsReader":
                asis_shape, fixed_shape = [int(m0[1]), int(m0[2])], [int(m1[1]), int(m1[2])]
                # (the two shapes can coincide when the stride padding restores the size; then the
                #  content scale the stub measured from the pixels tells the two apart)
                unscaled = s != 1.0 and abs(row["a"] - eff) < 1e-9
                if row["hw"] == asis_shape and (asis_shape != fixed_shape or unscaled) and not cmp(mp0)[0]:
                    as_coded = True
                    case_as_coded = True
                    chk.tag("labelsreader_as_coded_matches_asIs_model")
            # ---- the ideal-network hypothesis: argmax of the rendered map == model's nearest cell
            shape_ok = [int(m1[1]), int(m1[2])] == row["hw"]
            if not bad1 and (shape_ok or provider == "LabelsReader"):
                for k, (p, m) in enumerate(zip(pts, mp1)):
                    if p is None or is_knife(m["mx"], os_) or is_knife(m["my"], os_) or not shape_ok:
                        continue
                    cx, cy, v, _ = channel_peak(row["cms"][k], None)
                    if (cx, cy) != (m["cx"], m["cy"]):
                        chk.disagree("argmax of the ideal map == Decode.nearest (cm_argmax_nearest)", small,
                                     [cx, cy], [m["cx"], m["cy"]])
            if provider == "VideoReader" and not shape_ok:
                chk.disagree("network input shape == Decode.singleInputShape", small, row["hw"], m1[1:3])
            # ---- property oracle, always (independent of the model)
            why, why_border, why_band = [], [], []
            bnd = bound_px(os_, s, eff)
            hin = pad_to(int((mh or fr.H) * s), ms)          # Python's own float product, as the code computes it
            win = pad_to(int((mw or fr.W) * s), ms)
            thr = float(case.get("thr", THR))
            for k, p in enumerate(true_pts):
                if p is not None:
                    qx, qy = p[0] * eff * s, p[1] * eff * s
                    in_rng = (qx <= (math.ceil(win / os_) - 1) * os_ + os_ / 2
                              and qy <= (math.ceil(hin / os_) - 1) * os_ + os_ / 2)
                    m = mp1[k]
                    if m is not None and (is_knife(m["mx"], os_) or is_knife(m["my"], os_)):
                        continue
                    pkv = float(np.max(row["cms"][k]))
                    if pts[k] is None:
                        # hypothesis of the property on this side: the ideal peak reaches the detection
                        # threshold (σ small / threshold high ⇒ a visible keypoint is legitimately dropped)
                        chk.tag("visible_keypoint_below_threshold_not_asserted")
                        if row["pts"][k] is not None:
                            why.append(f"node {k}: peak value {pkv:.3f} below threshold {thr} but a coordinate was returned")
                        continue
                    if not in_rng:
                        # F-C02d: in-image keypoint beyond the last grid cell + half a stride (os > 2 only):
                        # the bound IS evaluated; a failure carries the structural signature
                        chk.tag("keypoint_in_last_band_sampled")
                        w = oracle_point(p, row["pts"][k], row["vals"][k], bnd, f"node {k} (nominal {qx:.2f},{qy:.2f} beyond the "
                                         f"last cell + os/2 of a {win}x{hin} tensor, os {os_})")
                        if w:
                            # routed to F-C02d only if the answer is EXACTLY the model's (the last cell's centre,
                            # + the measured zero-padded offset under integral refinement): `not bad1` below; the
                            # predicted error is then the distance from the keypoint to that cell
                            (why_band if row["pts"][k] is not None else why).append(w)
                        continue
                    if case["refine"] == "integral":
                        cx, cy, _, dlt = channel_peak(row["cms"][k], "integral")
                        if interior(cx, cy, row["cms"][k].shape):
                            # hypothesis hδ of `single_roundtrip`, evaluated on the MEASURED offset
                            for g, d, q in ((cx, dlt[0], qx), (cy, dlt[1], qy)):
                                if abs((g + d) * os_ - q) > abs(g * os_ - q) + 1e-4:
                                    chk.disagree("measured refinement offset satisfies hδ (hypothesis of single_roundtrip)",
                                                 {**small, "node": k}, {"cell": g, "delta": d, "q": q}, "hδ")
                            chk.tag("hdelta_checked_interior")
                        if not interior(cx, cy, row["cms"][k].shape):
                            # F-C02b: the 5x5 refinement patch is not contained in the map (zero padding
                            # biases the offset inward); the bound IS evaluated, a failure carries the
                            # structural signature and nothing else is excused
                            chk.tag("integral_patch_crosses_border_sampled")
                            w = oracle_point(p, row["pts"][k], row["vals"][k], bnd, f"node {k} (cell {cx},{cy} of "
                                             f"{row['cms'][k].shape[1]}x{row['cms'][k].shape[0]})")
                            if w:
                                # routed to F-C02b only if the answer is EXACTLY what the zero-padded regression
                                # predicts (impl == model with the harness's own zero-padded offset: `not bad1` below)
                                (why_border if row["pts"][k] is not None else why).append(w)
                            continue
                w = oracle_point(p, row["pts"][k], row["vals"][k], bnd, f"node {k}")
                if w:
                    why.append(w)
            if why_border and not bad1:
                chk.fail("C02: integral refinement exceeds half a cell where its patch crosses the map border: "
                         + "; ".join(why_border[:2]), {**small, "frame": [fr.video, fr.frame_idx]}, row["pts"], [SIG_BORDER])
            if why_band and not bad1:
                chk.fail("C02: in-image keypoint beyond the last grid cell + half a stride is returned more than half a cell off: "
                         + "; ".join(why_band[:2]), {**small, "frame": [fr.video, fr.frame_idx]}, row["pts"], [SIG_BAND])
            if bad1:
                why += why_border + why_band      # the answer is not the model's: nothing is excused
                if as_coded:
                    chk.fail("C02: LabelsReader frame not resized but decode divides by input_scale: "
                             + "; ".join(why[:2]), {**small, "frame": [fr.video, fr.frame_idx]},
                             {"impl": row["pts"], "model_fixed": model[2 * i], "model_asIs": model[2 * i + 1]},
                             [SIG_KNOWN])
                else:
                    chk.disagree("single-instance decoded points == Decode.singlePoint", {**small, "nodes": bad1},
                                 {"pts": row["pts"], "vals": row["vals"], "hw": row["hw"]}, model[2 * i])
                    if why:
                        chk.fail("C02 fails on SingleInstancePredictor: " + "; ".join(why[:3]),
                                 {**small, "frame": [fr.video, fr.frame_idx]}, row["pts"])
            elif why:
                chk.fail("C02 fails on SingleInstancePredictor: " + "; ".join(why[:3]),
                         {**small, "frame": [fr.video, fr.frame_idx]}, row["pts"])
            recs.append((fr.video, fr.frame_idx, row["pts"], row["vals"]))
        results[provider] = recs
    # ---- provider-agnostic oracle on video 0
    if len(results) == 2:
        lab = [r for r in results["LabelsReader"] if r[0] == 0]
        vid = results["VideoReader"]
        diff = []
        for a, b in zip(lab, vid):
            for pa, pb in zip(a[2], b[2]):
                if (pa is None) != (pb is None) or (pa is not None and max(abs(pa[0] - pb[0]), abs(pa[1] - pb[1])) > 1e-4):
                    diff.append((a[1], pa, pb))
        if len(lab) != len(vid) or diff:
            sigs = [SIG_KNOWN] if case_as_coded else []
            chk.fail("C02: LabelsReader and VideoReader return different coordinates for the same frames",
                     {**case, "diff": diff[:3]}, diff[:3], sigs)


def check_topdown(chk, case, providers=("LabelsReader", "VideoReader")):
    vids = frames_of(case)
    flat_all = [f for v in vids for f in v]
    by_code = {f.code: f for f in flat_all}
    scn, scd = scale_frac(case["sc"])
    sin, sid = scale_frac(case["si"])
    os_c, os_i, ms_c, ms_i = case["os_c"], case["os_i"], case["ms_c"], case["ms_i"]
    ch, cw = case["crop_hw"]
    mh, mw = case["max_hw"]
    refine = case["refine"]
    results = {}
    for provider in providers:
        frames = flat_all if provider == "LabelsReader" else vids[0]
        small = {**case, "provider": provider}
        try:
            rows, group_sizes, cen = impl_topdown(case, provider, vids)
        except stubs.StubAmbiguous:
            chk.tag("stub_ambiguous_skipped")
            return
        except Exception as e:
            chk.disagree("implementation raised where the model does not", small,
                         f"raise:{type(e).__name__}: {str(e)[:200]}", "ok")
            chk.fail(f"C02: TopDownPredictor ({provider}) raised {type(e).__name__}: {str(e)[:200]}", small, None)
            return
        if [c["code"] for c in cen] != [f.code for f in frames]:
            chk.disagree("centroid network sees every frame once, in order", small,
                         [c["code"] for c in cen], [f.code for f in frames])
            chk.fail("C12/C13: frames reach the centroid network out of order / not exactly once", small, None)
            continue
        for ce in cen:
            if ce.get("origin") is not None and tuple(ce["origin"]) != (0.0, 0.0):
                chk.disagree("frame content starts at the tensor origin (centroid stage)", small, list(ce["origin"]), [0.0, 0.0])
                break
        for r in rows:
            if r.get("origin") is not None and tuple(r["origin"]) != (0.0, 0.0):
                chk.disagree("frame content starts at the image origin (crop stage)", small, list(r["origin"]), [0.0, 0.0])
                break
        # ---- model, one line per animal
        lines, meta = [], []
        for fr, ce in zip(frames, cen):
            eff = float(stubs.eff_scale_nominal(fr.H, fr.W, mh, mw))
            for ai_, an in enumerate(fr.animals):
                gx, gy = an.centroid[0] * eff * case["sc"] / os_c, an.centroid[1] * eff * case["sc"] / os_c
                ccx, ccy, cv, = stubs.argmax_near(ce["cms"], gx, gy)
                dc = stubs.integral_offset(ce["cms"], ccx, ccy) if refine == "integral" else (0.0, 0.0)
                meta.append({"fr": fr, "ai": ai_, "ccell": (ccx, ccy), "cval": cv, "dc": dc, "eff": eff,
                             "chw": ce["hw"], "cshape": ce["cms"].shape})
        # instance-stage offsets come from the maps rendered for the implementation's rows
        row_of = {(r["code"], r["animal"]): r for r in rows}
        for mt in meta:
            fr, an = mt["fr"], mt["fr"].animals[mt["ai"]]
            r = row_of.get((fr.code, mt["ai"]))
            ds = []
            for k, p in enumerate(an.pts):
                if p is None or r is None:
                    ds.append((0.0, 0.0))
                else:
                    ds.append(channel_peak(r["cms"][k], refine)[3])
            mt["ds"] = ds
            lines.append(f"topdown {scn} {scd} {os_c} {ms_c} {sin} {sid} {os_i} {ms_i} {ch} {cw} {onat(mh)} {onat(mw)} "
                         f"{fr.H} {fr.W} {rat(an.centroid[0])} {rat(an.centroid[1])} {rat(mt['dc'][0])} {rat(mt['dc'][1])} "
                         + pts_line(an.pts, ds))
        model = yield lines
        # expected row sequence: frames in order; within a frame animals by centroid cell (row-major)
        expected, skip_frames = [], set()
        for mt, ml in zip(meta, model):
            ml, rob = ml.split(" | ")
            t = ml.split()
            mt["rob"] = [None if x == "-" else x == "1" for x in rob.split()]
            mt["m"] = {"hc": int(t[1]), "wc": int(t[2]), "hi": int(t[3]), "wi": int(t[4]), "eff": unrat(t[5]),
                       "ccx": int(t[6]), "ccy": int(t[7]),
                       "mcx": None if t[8] == "-" else unrat(t[8]), "mcy": None if t[9] == "-" else unrat(t[9]),
                       "tl": (unrat(t[10]), unrat(t[11])), "bb": (unrat(t[12]), unrat(t[13])),
                       "pts": parse_pts(t[14:], len(mt["fr"].animals[mt["ai"]].pts)), "line": ml}
            if is_knife(mt["m"]["mcx"], os_c) or is_knife(mt["m"]["mcy"], os_c):
                skip_frames.add(mt["fr"].code)
        if skip_frames:
            chk.knife_edges += len(skip_frames)
        for fr in frames:
            ms_ = [mt for mt in meta if mt["fr"] is fr]
            ms_.sort(key=lambda mt: (mt["m"]["ccy"], mt["m"]["ccx"]))
            expected += [(fr.code, mt["ai"]) for mt in ms_]
        got_seq = [(r["code"], r["animal"]) for r in rows]
        if not skip_frames and got_seq != expected:
            chk.disagree("top-down rows: one per animal, frames in order, animals by centroid cell", small,
                         got_seq, expected)
            if sorted(got_seq) != sorted(expected):
                chk.fail("C02/C12: set of (frame, animal) rows differs from the animals present", small,
                         {"got": got_seq, "want": expected})
        # group structure: one output dict per frame with detections, in batches
        if not skip_frames:
            want_groups = [len(fr.animals) for fr in frames if fr.animals]
            if group_sizes != want_groups:
                chk.disagree("one output dict per frame with detections", small, group_sizes, want_groups)
        recs = []
        for r in rows:
            fr = by_code[r["code"]]
            if fr.code in skip_frames:
                continue
            mt = next((m for m in meta if m["fr"] is fr and m["ai"] == r["animal"]), None)
            if mt is None:
                continue
            an, m, eff = fr.animals[mt["ai"]], mt["m"], mt["eff"]
            key = ("topdown", provider, case["sc"], os_c, ms_c, case["si"], os_i, ms_i, ch, cw, tuple(case["max_hw"]),
                   fr.H, fr.W, refine, case["batch"], tuple(an.centroid),
                   tuple(None if p is None else tuple(p) for p in an.pts))
            chk.case(key, {"case": "topdown", "provider": provider, "cfg": {k: v for k, v in case.items() if k != "videos"},
                           "HW": [fr.H, fr.W], "centroid": an.centroid, "pts": an.pts, "impl": r["pts"], "model": m["line"]},
                     tags=[f"topdown:{provider}", f"si={case['si']}", f"os_i={os_i}", f"refine={refine}",
                           f"B={case['batch']}", "eff=1" if eff == 1.0 else ("eff<1" if eff < 1 else "eff>1")])
            # indices
            want_idx = (fr.frame_idx, fr.video if provider == "LabelsReader" else 0)
            if (r["fidx"], r["vidx"]) != want_idx:
                chk.disagree("frame_idx/video_idx replicated per crop", small, [r["fidx"], r["vidx"]], list(want_idx))
                chk.fail("C12: crop row carries the indices of another frame", small,
                         {"row": [r["fidx"], r["vidx"]], "image_of": list(want_idx)})
            if r["hw"] != [m["hi"], m["wi"]] or mt["chw"] != [m["hc"], m["wc"]]:
                chk.disagree("network input shapes == Decode.centroidInputShape/instanceInputShape", small,
                             [mt["chw"], r["hw"]], [[m["hc"], m["wc"]], [m["hi"], m["wi"]]])
            # ---- hypothesis of `topdown_roundtrip`: the crop the network sees starts where
            # `instance_bbox` (the offset later added to the crop-relative peaks) says; the stub reads
            # the crop's position from the ramp channels of its pixels
            if r["tl_px"] is None:
                chk.tag("crop_position_not_readable_from_pixels")
            else:
                chk.tag("crop_position_read_from_pixels")
                if r["tl_mismatch"]:
                    chk.disagree("crop top-left (read from the crop's pixels) == instance_bbox top-left "
                                 "(hypothesis of topdown_roundtrip)", small, r["tl_px"], r["tl_bbox"])
            if mt["ccell"] != (m["ccx"], m["ccy"]):
                chk.disagree("centroid argmax of the ideal map == Decode.nearest", small, mt["ccell"], [m["ccx"], m["ccy"]])
            bad = []
            if max(abs(r["bbox_tl"][0] - float(m["bb"][0])), abs(r["bbox_tl"][1] - float(m["bb"][1]))) > TOL:
                bad.append("bbox")
            knife = False
            for k, (p, g, mp) in enumerate(zip(an.pts, r["pts"], m["pts"])):
                if p is None:
                    if g is not None or r["vals"][k] != 0.0 or r["nanpat"][k] != [True, True]:
                        bad.append(k)
                    continue
                if is_knife(mp["mx"], os_i) or is_knife(mp["my"], os_i):
                    knife = True
                    continue
                if g is None or abs(g[0] - float(mp["x"])) > TOL or abs(g[1] - float(mp["y"])) > TOL:
                    bad.append(k)
                else:
                    cx, cy, _, _ = channel_peak(r["cms"][k], None)
                    if (cx, cy) != (mp["cx"], mp["cy"]):
                        chk.disagree("instance argmax of the ideal map == Decode.nearest", small, [cx, cy], [mp["cx"], mp["cy"]])
            if knife:
                chk.knife_edges += 1
            if bad:
                chk.disagree("top-down decoded points / bbox == Decode.topdownAnimal", {**small, "what": bad},
                             {"pts": r["pts"], "bbox_tl": r["bbox_tl"], "vals": r["vals"]}, m["line"])
            # ---- property oracle (independent of the model): uses the implementation's own bbox
            why = []
            bnd = bound_px(os_i, case["si"], eff)
            a_i = eff * case["si"]
            n_w = math.ceil(pad_to(cw, ms_i) / os_i)
            n_h = math.ceil(pad_to(ch, ms_i) / os_i)
            robust = robust_inside(case, fr, an, eff)
            why_cborder = []
            csh = mt.get("cshape")
            cborder = refine == "integral" and csh is not None and not interior(mt["ccell"][0], mt["ccell"][1], csh)
            in_impl = True
            # the Lean twin (`Decode.robustAxis`, hypothesis of `topdown_roundtrip_robust`) must agree per keypoint
            for k, p in enumerate(an.pts):
                if p is not None and mt["rob"][k] is not None and mt["rob"][k] != robust[k]:
                    lo = robust_inside(case, fr, an, eff, slack=-1e-6)[k]
                    hi = robust_inside(case, fr, an, eff, slack=1e-6)[k]
                    if lo == hi:
                        chk.disagree("robust_inside (Python) == Decode.robustAxis (Lean)", {**small, "node": k},
                                     robust[k], mt["rob"][k])
            why_border = []
            for k, p in enumerate(an.pts):
                if p is not None:
                    # "the crop contains the animal": decided from the TRUE geometry (every admissible
                    # centroid estimate keeps the keypoint in the crop's grid range) — when that holds the
                    # bound is asserted whatever crop the implementation took; otherwise fall back to
                    # the crop the implementation reports
                    qx = (p[0] - r["bbox_tl"][0]) * a_i
                    qy = (p[1] - r["bbox_tl"][1]) * a_i
                    in_impl = (-1e-6 <= qx <= (n_w - 1) * os_i + os_i / 2 and -1e-6 <= qy <= (n_h - 1) * os_i + os_i / 2)
                    if robust[k]:
                        chk.tag("keypoint_robustly_inside_ideal_crop")
                    elif not in_impl or r["tl_mismatch"]:
                        chk.tag("keypoint_outside_crop_range_skipped")
                        continue
                    mp = m["pts"][k]
                    if mp is not None and (is_knife(mp["mx"], os_i) or is_knife(mp["my"], os_i)):
                        continue
                    if refine == "integral":
                        cx, cy, _, _ = channel_peak(r["cms"][k], None)
                        if not interior(cx, cy, r["cms"][k].shape):
                            chk.tag("integral_patch_crosses_border_sampled")
                            w = oracle_point(p, r["pts"][k], r["vals"][k], bnd, f"node {k} (crop cell {cx},{cy})")
                            if w:
                                (why_border if r["pts"][k] is not None else why).append(w)   # routed only if impl == model (`not bad`)
                            continue
                w = oracle_point(p, r["pts"][k], r["vals"][k], bnd, f"node {k}")
                if w:
                    # F-C02e: the CENTROID-stage refinement patch crosses the centroid map's border, the crop is
                    # displaced by up to one centroid cell and a keypoint that a correct centroid stage keeps in
                    # the crop falls outside the crop actually taken; covered only while the keypoint is still
                    # returned and the error stays below one centroid cell + half an instance cell
                    g = r["pts"][k] if p is not None else None
                    if p is not None and cborder and not in_impl and g is not None:
                        why_cborder.append(w)      # routed only if impl == model (measured zero-padded δc): `not bad`
                    else:
                        why.append(w)
            if bad:
                why += why_border + why_cborder   # the answer is not the model's: nothing is excused
                why_border, why_cborder = [], []
            if why_cborder and not bad:
                chk.fail("C02: centroid-stage integral refinement at the centroid map's border displaces the crop; a keypoint "
                         "of the animal leaves it: " + "; ".join(why_cborder[:2]),
                         {**small, "frame": [fr.video, fr.frame_idx], "animal": mt["ai"]},
                         {"pts": r["pts"], "bbox_tl": r["bbox_tl"]}, [SIG_CBORDER])
            if why_border and not bad:
                chk.fail("C02: integral refinement exceeds half a cell where its patch crosses the crop-map border: "
                         + "; ".join(why_border[:2]), {**small, "frame": [fr.video, fr.frame_idx], "animal": mt["ai"]},
                         {"pts": r["pts"], "bbox_tl": r["bbox_tl"]}, [SIG_BORDER])
            if why:
                chk.fail("C02 fails on TopDownPredictor: " + "; ".join(why[:3]),
                         {**small, "frame": [fr.video, fr.frame_idx], "animal": mt["ai"]},
                         {"pts": r["pts"], "bbox_tl": r["bbox_tl"]})
            recs.append((fr.video, fr.frame_idx, mt["ai"], r["pts"]))
        results[provider] = recs
    if len(results) == 2:
        lab = [r for r in results["LabelsReader"] if r[0] == 0]
        vid = results["VideoReader"]
        same = len(lab) == len(vid) and all(
            a[1:3] == b[1:3] and all((pa is None) == (pb is None) and (pa is None or max(abs(pa[0] - pb[0]), abs(pa[1] - pb[1])) <= 1e-4)
                                     for pa, pb in zip(a[3], b[3])) for a, b in zip(lab, vid))
        if not same:
            chk.fail("C02: top-down LabelsReader and VideoReader return different answers for the same frames",
                     case, {"labels": lab[:3], "video": vid[:3]})


SIG_GTC = "gt_centroids_crop_before_precrop_resize"


def gt_centroid(an):
    """`generate_centroids(anchor_ind=None)`: midpoint of the bounding box of the visible nodes"""
    vis = [p for p in an.pts if p is not None]
    return ((min(p[0] for p in vis) + max(p[0] for p in vis)) / 2, (min(p[1] for p in vis) + max(p[1] for p in vis)) / 2)


def check_gtc(chk, case):
    """Top-down with GROUND-TRUTH centroids (centred-instance model only): decoded points vs
    `Decode.gtcCoord`, half-cell oracle for keypoints inside the crop's grid range."""
    vids = frames_of(case)
    flat_all = [f for v in vids for f in v]
    by_code = {f.code: f for f in flat_all}
    sin, sid = scale_frac(case["si"])
    os_i, ms_i = case["os_i"], case["ms_i"]
    ch, cw = case["crop_hw"]
    mh, mw = case["max_hw"]
    refine = case["refine"]
    small = dict(case)
    try:
        rows, lfs = impl_gtc(case, vids)
    except stubs.StubAmbiguous:
        chk.tag("stub_ambiguous_skipped")
        return
    except Exception as e:
        chk.disagree("implementation raised where the model does not", small, f"raise:{type(e).__name__}: {str(e)[:200]}", "ok")
        chk.fail(f"C02: TopDownPredictor (ground-truth centroids) raised {type(e).__name__}: {str(e)[:200]}", small, None)
        return
    lines = []
    for r in rows:
        fr = by_code[r["code"]]
        an = fr.animals[r["animal"]]
        c = gt_centroid(an)
        ds = [channel_peak(r["cms"][k], refine)[3] if p is not None else (0.0, 0.0) for k, p in enumerate(an.pts)]
        lines.append(f"gtc {sin} {sid} {os_i} {ms_i} {ch} {cw} {onat(mh)} {onat(mw)} {fr.H} {fr.W} {rat(c[0])} {rat(c[1])} "
                     + pts_line(an.pts, ds))
    model = yield lines
    want_rows = sum(len(f.animals) for f in flat_all)
    if len(rows) != want_rows:
        chk.disagree("one crop per labelled animal", small, len(rows), want_rows)
        chk.fail(f"C02: {len(rows)} crops for {want_rows} labelled animals (ground-truth centroids)", small, None)
    for r, ml in zip(rows, model):
        fr = by_code[r["code"]]
        an = fr.animals[r["animal"]]
        eff = float(stubs.eff_scale_nominal(fr.H, fr.W, mh, mw))
        head, asis = ml.split(" | ")
        t = head.split()
        mp = parse_pts(t[6:], len(an.pts))
        at = asis.split()
        chk.case(("gtc", case["si"], os_i, ms_i, ch, cw, tuple(case["max_hw"]), fr.H, fr.W, refine,
                  tuple(None if p is None else tuple(p) for p in an.pts)),
                 {"case": "gt_centroids", "si": case["si"], "os_i": os_i, "crop": [ch, cw], "HW": [fr.H, fr.W], "pts": an.pts,
                  "impl": r["pts"], "model": head[:200]},
                 tags=["topdown_gt_centroids", f"si={case['si']}", f"os_i={os_i}", f"refine={refine}"])
        if (r["fidx"], r["vidx"]) != (fr.frame_idx, fr.video):
            chk.fail("C12: crop row carries the indices of another frame", small, [r["fidx"], r["vidx"]])
        bad, knife, as_is_match, n_ret = [], False, case["si"] != 1.0, 0
        for k, (p, g, m) in enumerate(zip(an.pts, r["pts"], mp)):
            if p is None:
                if g is not None or r["vals"][k] != 0.0 or r["nanpat"][k] != [True, True]:
                    bad.append(k)
                continue
            ax, ay = float(unrat(at[2 * k])), float(unrat(at[2 * k + 1]))
            if g is not None:
                n_ret += 1
                if abs(g[0] - ax) > TOL or abs(g[1] - ay) > TOL:
                    as_is_match = False      # (a keypoint the mis-scaled crop lost to NaN says nothing either way)
            if is_knife(m["mx"], os_i) or is_knife(m["my"], os_i):
                knife = True
                continue
            if g is None or abs(g[0] - float(m["x"])) > TOL or abs(g[1] - float(m["y"])) > TOL:
                bad.append(k)
        if knife:
            chk.knife_edges += 1
        # property oracle: keypoints in the grid range of the crop centred on the true (ground-truth) centroid
        why = []
        a_i = eff * case["si"]
        c = gt_centroid(an)
        bnd = bound_px(os_i, case["si"], eff)
        for k, p in enumerate(an.pts):
            if p is None:
                w = oracle_point(p, r["pts"][k], r["vals"][k], bnd, f"node {k}")
            else:
                ok = True
                for pc, cc, size in ((p[0], c[0], cw), (p[1], c[1], ch)):
                    q = pc * a_i - (cc * a_i - size / 2 + 0.5)
                    qmax = (math.ceil(pad_to(size, ms_i) / os_i) - 1) * os_i + os_i / 2
                    ok = ok and 0.0 <= q <= qmax
                m = mp[k]
                if not ok or (m is not None and (is_knife(m["mx"], os_i) or is_knife(m["my"], os_i))):
                    continue
                if refine == "integral":
                    cx, cy, _, _ = channel_peak(r["cms"][k], None)
                    if not interior(cx, cy, r["cms"][k].shape):
                        continue
                w = oracle_point(p, r["pts"][k], r["vals"][k], bnd, f"node {k}")
            if w:
                why.append(w)
        if as_is_match and n_ret > 0 and (bad or why):
            # structural predicate of F-C02c: instance scale ≠ 1 and the answer is exactly what cropping
            # BEFORE the pre-crop resize (and still dividing by the scale) gives
            chk.tag("gt_centroids_as_before_fix")
            chk.fail("C02: ground-truth-centroid crops taken before the pre-crop resize (answer = as-before-fix model): "
                     + "; ".join(why[:2]),
                     {**small, "frame": [fr.video, fr.frame_idx], "animal": r["animal"]}, r["pts"], [SIG_GTC])
            continue
        if bad:
            chk.disagree("ground-truth-centroid decoded points == Decode.gtcCoord", {**small, "nodes": bad},
                         {"pts": r["pts"], "bbox_tl": r["bbox_tl"]}, head[:300])
        if why:
            chk.fail("C02 fails on TopDownPredictor (ground-truth centroids): " + "; ".join(why[:3]),
                     {**small, "frame": [fr.video, fr.frame_idx], "animal": r["animal"]}, r["pts"])


def gen_gtc_case(rng, refine=None):
    """centred-instance-only predictor: crops around the GROUND-TRUTH centroids, every instance scale"""
    for _ in range(60):
        case = gen_topdown_case(rng, refine=refine, counts=(1, 1, 2, 3))
        case["videos"] = case["videos"][:1]
        if all(f["animals"] for f in case["videos"][0]):
            break
    for f in case["videos"][0]:
        for a in f["animals"]:
            if all(p is None for p in a["pts"]):
                a["pts"][0] = list(a["centroid"])
            vis = [p for p in a["pts"] if p is not None]   # the stub tells crops apart by this centroid
            a["centroid"] = [(min(p[0] for p in vis) + max(p[0] for p in vis)) / 2,
                             (min(p[1] for p in vis) + max(p[1] for p in vis)) / 2]
    case["pipeline"] = "gtc"
    return case


def case_gen(chk, case):
    """generator: yields batches of driver lines, receives the model's answers"""
    if case["pipeline"] == "gtc":
        return check_gtc(chk, case)
    if case["pipeline"] == "single":
        return check_single(chk, case)
    return check_topdown(chk, case)


def run_cases(chk, cases, chunk=40):
    """Run cases through implementation and model; driver calls are pooled (one Lean start-up per
    round of `chunk` cases instead of one per case and provider)."""
    for c0 in range(0, len(cases), chunk):
        active = []
        for case in cases[c0:c0 + chunk]:
            g = case_gen(chk, case)
            try:
                active.append((g, next(g)))
            except StopIteration:
                pass
        while active:
            all_lines = [l for _, ls in active for l in ls]
            out = run_driver("C02.lean", all_lines) if all_lines else []
            nxt, pos = [], 0
            for g, ls in active:
                res = out[pos:pos + len(ls)]
                pos += len(ls)
                try:
                    nxt.append((g, g.send(res)))
                except StopIteration:
                    pass
            active = nxt


def run_case(chk, case):
    run_cases(chk, [case])


WITNESS = {"pipeline": "single", "scale": 0.5, "os": 2, "ms": 8, "max_hw": [None, None], "batch": 2,
           "refine": None, "n_nodes": 3,
           "videos": [[{"H": 64, "W": 96, "animals": [{"centroid": [30, 30],
                                                        "pts": [[20.25, 40.5], None, [70.75, 10.25]]}]}]]}


def replay_witness(chk):
    """F-C02: same frame through both real pipelines; LabelsReader answer is off by 1/scale."""
    vids = frames_of(WITNESS)
    lab, _ = impl_single(WITNESS, "LabelsReader", vids)
    vid, _ = impl_single(WITNESS, "VideoReader", vids)
    a, b = lab[0]["pts"][0], vid[0]["pts"][0]
    p = WITNESS["videos"][0][0]["animals"][0]["pts"][0]
    bnd = bound_px(2, 0.5, 1.0)
    bad = max(abs(a[0] - p[0]), abs(a[1] - p[1])) > bnd + TOL
    ok_vid = max(abs(b[0] - p[0]), abs(b[1] - p[1])) <= bnd + TOL
    return bad and ok_vid, f"keypoint {p}: LabelsReader {a}, VideoReader {b}, input shapes {lab[0]['hw']} vs {vid[0]['hw']}"


LARGE_MAPS = [(4100, 4100, 4095, 1001), (1, 16777300, 0, 16777299), (5000, 3400, 4990, 3333), (4097, 4099, 4094, 4001)]


def large_map_cases(chk, n):
    """Maps with MORE THAN 2^24 cells (a float32 cannot hold their flat indices): a zero map with one hot
    cell at a high odd flat index through the real `find_global_peaks_rough`, `find_global_peaks` (none /
    integral) and `SingleInstanceInferenceModel.forward` (stride/scale/eff decode).  The model side is
    exact integer arithmetic (`Decode.unravel`).  One 67 MB tensor at a time, freed after use."""
    import gc
    import torch
    from sleap_nn.inference.peak_finding import find_global_peaks, find_global_peaks_rough
    from sleap_nn.inference.single_instance import SingleInstanceInferenceModel

    class Fixed(torch.nn.Module):
        def __init__(self, cms):
            super().__init__()
            self.cms = cms

        def forward(self, x):
            return self.cms
    rng = chk.rng
    picks = LARGE_MAPS[:n] if n >= len(LARGE_MAPS) else rng.sample(LARGE_MAPS, n)
    lines = [f"unravel {w} {r * w + col}" for (h, w, r, col) in picks]
    model = run_driver("C02.lean", lines)
    for (h, w, r, col), ml in zip(picks, model):
        mx, my = (int(t) for t in ml.split()[1:3])
        cms = torch.zeros((1, 1, h, w), dtype=torch.float32)
        cms[0, 0, r, col] = 1.0
        case = {"family": "large_map", "H": h, "W": w, "hot_row": r, "hot_col": col, "flat_index": r * w + col}
        got = {}
        try:
            pts, vals = find_global_peaks_rough(cms, threshold=0.2)
            got["rough"] = [float(pts[0, 0, 0]), float(pts[0, 0, 1]), float(vals[0, 0])]
            for refine in (None, "integral"):
                pts, vals = find_global_peaks(cms, threshold=0.2, refinement=refine, integral_patch_size=5)
                got[f"global:{refine}"] = [float(pts[0, 0, 0]), float(pts[0, 0, 1]), float(vals[0, 0])]
            os_, scale, eff = 2, 0.5, 1.25
            m = SingleInstanceInferenceModel(torch_model=Fixed(cms), output_stride=os_, peak_threshold=0.2, refinement=None,
                                             input_scale=scale)
            out = m({"image": torch.zeros((1, 1, 1, 4, 4)), "eff_scale": torch.tensor([eff], dtype=torch.float32)})[0]
            q = out["pred_instance_peaks"][0, 0]
            got["single_model"] = [float(q[0]), float(q[1]), float(out["pred_peak_values"][0, 0])]
        except Exception as e:
            chk.disagree("implementation raised where the model does not", case, f"raise:{type(e).__name__}: {str(e)[:200]}", "ok")
            chk.fail(f"C02: peak finding raised {type(e).__name__} on a {h}x{w} map", case, None)
            continue
        finally:
            del cms
            gc.collect()
        chk.case(("large_map", h, w, r, col), {"case": "large_map", **case, "impl": got, "model": ml},
                 tags=["large_map_cells>2^24"])
        why = []
        for name, (x, y, v) in got.items():
            if name == "single_model":
                ex, ey = mx * os_ / scale / eff, my * os_ / scale / eff
                tol, cell = 1e-3 * max(1.0, ex), os_ / scale / eff
            else:
                ex, ey, tol, cell = float(mx), float(my), 1e-3, 1.0
            # float32 output: coordinates above 2^24 are not exactly representable; one ulp is the tolerance
            tolx, toly = max(tol, abs(ex) * 2.0 ** -23), max(tol, abs(ey) * 2.0 ** -23)
            if abs(x - ex) > tolx or abs(y - ey) > toly or v != 1.0:
                chk.disagree(f"{name} on a map with > 2^24 cells == Decode.unravel", case, [x, y, v], [ex, ey, 1.0])
            # oracle (model-free): the hot cell is (col, r); the answer must be within half a cell of it
            tx, ty = (col, r) if name != "single_model" else (col * cell, r * cell)
            if abs(x - tx) > 0.5 * cell + tolx or abs(y - ty) > 0.5 * cell + toly:
                why.append(f"{name}: the only non-zero cell is (x={col}, y={r}) [flat index {r * w + col} > 2^24], "
                           f"returned ({x}, {y}): {max(abs(x - tx), abs(y - ty)) / cell:.2f} cell off")
        if why:
            chk.fail("C02 fails on a large map: " + "; ".join(why[:2]), case, got)


def half_precision_cases(chk, n):
    """Half-precision confidence maps (a network running under autocast): bfloat16 / float16 cannot hold
    integers beyond 256 / 2048, so a peak finder that computes coordinates in the map's dtype loses cells
    there.  Ideal maps (repo's `generate_confmaps`, cast to the half dtype) with keypoints BEYOND those
    limits, integral refinement, through the real `SingleInstanceInferenceModel.forward` (model: `single`
    driver line with the offset measured on the half-precision map) and the real `FindInstancePeaks.forward`
    (+ the consumer's `peak + bbox top-left`; oracle only)."""
    import torch
    from sleap_nn.data.confidence_maps import generate_confmaps
    from sleap_nn.inference.single_instance import SingleInstanceInferenceModel
    from sleap_nn.inference.topdown import FindInstancePeaks

    class Fixed(torch.nn.Module):
        def __init__(self, cms):
            super().__init__()
            self.cms = cms

        def forward(self, x):
            return self.cms
    rng = chk.rng
    specs = [(torch.bfloat16, 24, 330, 256), (torch.float16, 16, 2200, 2048), (torch.bfloat16, 300, 40, 256)]
    jobs, lines = [], []
    for i in range(n):
        dt, Hm, Wm, lim = specs[i % len(specs)]
        os_ = rng.choice([1, 2])
        H, W = Hm * os_, Wm * os_
        pts = []
        for k in range(2):
            if Wm > Hm:
                gx, gy = rng.uniform(lim + 5, Wm - 5), rng.uniform(4, Hm - 5)
            else:
                gx, gy = rng.uniform(4, Wm - 5), rng.uniform(lim + 5, Hm - 5)
            # within ±0.3 cell of a cell centre (general position), on the 1/16 lattice
            pts.append([(round(gx) + rng.uniform(-0.3, 0.3)) * os_, (round(gy) + rng.uniform(-0.3, 0.3)) * os_])
        pts = [[round(p[0] * 16) / 16, round(p[1] * 16) / 16] for p in pts]
        cms32 = generate_confmaps(torch.tensor([pts], dtype=torch.float32), img_hw=(H, W), sigma=1.5, output_stride=os_)
        cms = cms32.to(dt)
        back = cms.to(torch.float64).numpy()[0]
        ds = [channel_peak(back[k], "integral")[3] for k in range(2)]
        jobs.append({"dt": str(dt), "os": os_, "H": H, "W": W, "pts": pts, "cms": cms, "ds": ds})
        lines.append(f"single 1 1 1 {os_} 1 - - {H} {W} " + pts_line(pts, ds))
    model = run_driver("C02.lean", lines) if lines else []
    for jb, ml in zip(jobs, model):
        os_, pts, cms = jb["os"], jb["pts"], jb["cms"]
        case = {"family": "half_precision_maps", "dtype": jb["dt"], "os": os_, "map_hw": list(cms.shape[-2:]), "pts": pts}
        mp = parse_pts(ml.split()[4:], 2)
        got = {}
        try:
            m = SingleInstanceInferenceModel(torch_model=Fixed(cms), output_stride=os_, peak_threshold=0.2,
                                             refinement="integral", integral_patch_size=5, input_scale=1.0)
            out = m({"image": torch.zeros((1, 1, 1, 4, 4)), "eff_scale": torch.tensor([1.0])})[0]
            got["single"] = [[float(q[0]), float(q[1])] for q in out["pred_instance_peaks"][0].to(torch.float32)]
            # the crop stage: same map seen as a crop whose top-left is (tlx, tly) in a frame scaled by si·eff
            si, eff, tl = 1.0, 1.25, (37.5, 11.5)
            f = FindInstancePeaks(torch_model=Fixed(cms), output_stride=os_, peak_threshold=0.2, refinement="integral",
                                  integral_patch_size=5, input_scale=si, max_stride=1)
            bb = torch.tensor([[[[tl[0], tl[1]], [tl[0] + jb["W"] - 1, tl[1]], [tl[0] + jb["W"] - 1, tl[1] + jb["H"] - 1],
                                 [tl[0], tl[1] + jb["H"] - 1]]]], dtype=torch.float32)
            o2 = f({"instance_image": torch.zeros((1, 1, 1, jb["H"], jb["W"])), "instance_bbox": bb,
                    "eff_scale": torch.tensor([eff])})
            fin = o2["pred_instance_peaks"][0].to(torch.float32) + o2["instance_bbox"][0, 0, 0][None, :]
            got["crop_stage"] = [[float(q[0]), float(q[1])] for q in fin]
        except Exception as e:
            chk.disagree("implementation raised where the model does not", case, f"raise:{type(e).__name__}: {str(e)[:200]}", "ok")
            chk.fail(f"C02: inference on {jb['dt']} confidence maps raised {type(e).__name__}: {str(e)[:160]}", case, None)
            continue
        chk.case(("half", jb["dt"], os_, tuple(map(tuple, pts))), {"case": "half_precision", **case, "impl": got, "model": ml[:200]},
                 tags=["half_precision_maps", jb["dt"]])
        why = []
        for k, p in enumerate(pts):
            g, mm = got["single"][k], mp[k]
            if any(x != x for x in g) or abs(g[0] - float(mm["x"])) > 2e-3 * max(1, abs(g[0]) / 256) or \
                    abs(g[1] - float(mm["y"])) > 2e-3 * max(1, abs(g[1]) / 256):
                chk.disagree("single-instance on half-precision maps == Decode.singlePoint (measured offset)", {**case, "node": k},
                             g, [float(mm["x"]), float(mm["y"])])
            bnd = bound_px(os_, 1.0, 1.0)
            if any(x != x for x in g) or max(abs(g[0] - p[0]), abs(g[1] - p[1])) > bnd + TOL:
                why.append(f"single-instance, {jb['dt']} map: keypoint {p} returned at {g} (bound {bnd} px)")
            g2 = got["crop_stage"][k]
            want = [(p[0] + 37.5) / 1.25, (p[1] + 11.5) / 1.25]
            bnd2 = bound_px(os_, 1.0, 1.25)
            if any(x != x for x in g2) or max(abs(g2[0] - want[0]), abs(g2[1] - want[1])) > bnd2 + TOL:
                why.append(f"crop stage, {jb['dt']} map: keypoint at {want} returned at {g2} (bound {bnd2} px)")
        if why:
            chk.fail("C02 fails on half-precision confidence maps: " + "; ".join(why[:2]), case, got)


def main(chk: Check):
    chk.build_and_audit()
    import_repo()
    rng = chk.rng
    np.random.seed(rng.randrange(2 ** 31))
    import torch
    torch.manual_seed(rng.randrange(2 ** 31))

    if any(e["id"] == "F-C02" for e in chk.known):
        still, detail = replay_witness(chk)
        chk.known_replay("F-C02", still_fails=still, detail=detail)
        chk.extra["F-C02_witness"] = detail

    for fid, fn in (("F-C02b", replay_border), ("F-C02c", replay_gtc), ("F-C02d", replay_band)):
        if any(e["id"] == fid for e in chk.known):
            still, detail = fn(chk)
            chk.known_replay(fid, still_fails=still, detail=detail)
            chk.extra[fid + "_witness"] = detail
    cases = []
    for f in sorted((CORPUS / "C02").glob("*.json")) if (CORPUS / "C02").exists() else []:
        cases.append(json.loads(f.read_text()))
    cases.append(WITNESS)
    n_single, n_top = chk.n(60, 600), chk.n(50, 600)
    for i in range(n_single):
        cases.append(gen_single_case(rng, refine=("integral" if i % 3 == 2 else None)))
    for i in range(n_top):
        cases.append(gen_topdown_case(rng, refine=("integral" if i % 3 == 2 else None)))
    for i in range(chk.n(10, 100)):
        cases.append(gen_gtc_case(rng, refine=("integral" if i % 3 == 2 else None)))
    for i in range(chk.n(8, 80)):
        cases.append(gen_single_border(rng))
    for i in range(chk.n(8, 80)):
        cases.append(gen_single_edge(rng))
    for i in range(chk.n(8, 80)):
        cases.append(gen_single_sigma_thr(rng))
    for i in range(chk.n(14, 150)):
        cases.append(gen_topdown_focus(rng, refine=("integral" if i % 4 == 3 else None)))
    run_cases(chk, cases)
    large_map_cases(chk, chk.n(2, 4))
    half_precision_cases(chk, chk.n(3, 18))
    # failing-input search: the correspondence broke but no input violates the property yet →
    # sweep the focused family (×20 budget) where a wrong centroid/crop/offset becomes visible
    if chk.disagreements and not chk.failing:
        chk.tag("focused_search_runs")
        run_cases(chk, [gen_topdown_focus(rng, refine=("integral" if i % 4 == 3 else None))
                        for i in range(chk.n(120, 600))])
    reader_accounting(chk)


def reader_accounting(chk):
    """every predictor run terminates its reader thread (stubs._finish_reader); what happened goes into the
    evidence, and a reader that outlives a FULLY consumed generator is reported (it is the repo's reader
    that did not end, not the harness abandoning it)"""
    import sys
    import threading
    chk.extra["reader_threads"] = dict(stubs.READER_STATS)
    chk.extra["threads_alive_at_end"] = threading.active_count()
    if stubs.READER_STATS["reader_alive_after_full_consumption"]:
        chk.fail("C12/C13: a reader thread was still alive after its consumer had consumed every output",
                 {"readers": stubs.READER_LEFTOVERS[:5]}, dict(stubs.READER_STATS))
    if stubs.READER_STATS["reader_alive_after_drain"] or stubs.READER_STATS["threads_left_over"]:
        print(f"note: harness could not terminate every reader thread: {stubs.READER_STATS}", file=sys.stderr)


def replay(chk: Check, payload):
    import_repo()
    case = payload.get("case") or payload["disagreements"][0]["case"]
    case = {k: v for k, v in case.items() if k not in ("provider", "frame", "animal", "nodes", "what", "diff")}
    print("replay case:", json.dumps(case)[:400])
    run_case(chk, case)


if __name__ == "__main__":
    chk = Check(
        "C02", module="SleapVerif.Props.C02", theorems=THEOREMS,
        build_targets=["SleapVerif.Model.Decode", "SleapVerif.Model.Proto", "SleapVerif.Lemmas.Decode"],
        trusted=[
            "Lean 4.33 kernel; axioms ⊆ {propext, Classical.choice, Quot.sound} (audited per run)",
            "hand-written model Decode.lean of the decode chains; tied to /repo by comparison on the explored grid only",
            "ideal network = argmax on the nearest grid cell of the nominally transformed keypoint (C01 cm_argmax_nearest): "
            "a hypothesis of the theorems, validated per run on every rendered channel (stub renders with the repo's own generate_confmaps)",
            "integral refinement enters the model as a measured offset (harness float64 restatement on the rendered map); "
            "the half-cell bound under refinement assumes the offset does not move away from the truth (C06/C07)",
            "float32 arithmetic of the pipeline equals field arithmetic within 1e-3 px on the explored inputs (measured)",
            "pixel-content registration of resize/crop at the sub-pixel level is C04's; the stub measures the content extent to "
            "tell which scale factor was applied, and reads the position of every crop from the ramp channels of its pixels "
            "(crop/bbox disagreement > 0.5 px is reported as a broken obligation and rendered as seen)",
            "harness/stubs.py (frame identification from pixel intensity, in-memory sio.Video/Labels, sio.load_* patched for make_pipeline)",
        ],
        rule="(H,W) in 4·[8,24] x (max_h,max_w) in {none, dyadic eff 1/2..2 (+padding), free} x scale {.5,.75,1,1.5} x max_stride "
             "{1,2,4,8,16} x output stride | max_stride x crop {16..48}² x batch 1..4 x refinement {none, integral} x provider "
             "{LabelsReader (1-2 videos), VideoReader}; keypoints on the k/16+1/64 lattice, 25% invisible; top-down: 0-3 animals "
             "per frame ≥ 7 centroid cells apart; + large single-channel maps with > 2^24 cells (one hot cell at a high odd flat "
             "index; the model side, Decode.unravel, is exact Nat div/mod) through the real peak functions and "
             "SingleInstanceInferenceModel.forward (incl. animals closer to a border than half a crop); + focused family: centroid "
             "stride padding really applied x far-corner animal x crop just covering it; distinct = distinct (pipeline, provider, config, frame size, keypoints); "
             "trivial = frame without animals",
        assumptions=["crop contains the animal: asserted from the true geometry (keypoint in the crop's grid range for every "
                     "centroid estimate within half a centroid cell), else from the implementation's own bbox",
                     "keypoints in general position: a nearest-cell decision within 1e-3 px of a midpoint is skipped and counted",
                     "keypoints lie in the grid range of the tensor / crop (others are counted and not asserted)",
                     "integral refinement: half-cell bound asserted only when the 5x5 patch lies inside the map "
                     "(border patches are zero-padded and biased inward: C06/C07's domain); decode correspondence is still compared",
                     "make_labels=True path is broken against sleap-io 0.9.2 and out of scope; line 870 (peak + bbox top-left) is "
                     "restated in the harness observer"],
    )
    run_check(chk, main, replay)
