"""C13 — frame readers deliver each frame once, in order, and always end the stream.

Correspondence: the real `VideoReader.run` / `LabelsReader.run` threads and the real
`Predictor._predict_generator` run under a scheduler that owns every visible operation
(frame read, queue put, queue get, thread join); the same schedule string (over {P,C}) and the
same parameters drive the Lean transition system `SleapVerif.Reader` through `drivers/C13.lean`.
Compared exactly, per run: the sequence of (enabled threads, thread moved, operation+payload,
batch processed), the yielded batches with (video_idx, frame_idx, orig_size), the number of
end-of-stream markers taken, the final thread states / queue length, the effective schedule.

Property oracle (independent of the model): see `oracle`.
"""
from __future__ import annotations

import atexit
import json
import os
import queue
import shutil
import tempfile
import sys
import threading
import time

os.environ.setdefault("OPENCV_LOG_LEVEL", "SILENT")   # cv2 logs every unreadable image file

from common import Check, run_check, import_repo, run_driver, CORPUS

THEOREMS = [
    "SleapVerif.C13.expected_no_fail",
    "SleapVerif.C13.expected_fail",
    "SleapVerif.C13.expected_item",
    "SleapVerif.C13.reader_inv",
    "SleapVerif.C13.reader_no_deadlock",
    "SleapVerif.C13.reader_terminates",
    "SleapVerif.C13.reader_maximal_run_final",
    "SleapVerif.C13.reader_final",
    "SleapVerif.C13.batches_partition",
    "SleapVerif.C13.batches_full_while_running",
    "SleapVerif.C13.reader_every_schedule_final",
    "SleapVerif.C13.reader_always_ends_partial",
    "SleapVerif.C13.reader_always_ends_counterexample",
]

# Seconds without every live thread reaching a scheduling point before a run is called a hang.
# Deadlocks (every live thread parked, none enabled) are detected instantly and never wait for
# this; the timeout only matters for a thread stuck OUTSIDE the scheduler's control.  It is
# generous (shared, loaded box) and a hang verdict is confirmed by re-running the same case with
# twice the timeout before it is reported.
HANG_TIMEOUT = float(os.environ.get("VERIF_C13_HANG_TIMEOUT", "60"))
MAX_STEPS = 2000


class DecodeError(Exception):
    """A custom Exception subclass, as a video backend might raise."""


EXC = {"OSError": OSError, "IndexError": IndexError, "ValueError": ValueError,
       "RuntimeError": RuntimeError, "KeyError": KeyError, "DecodeError": DecodeError}


# ----------------------------------------------------------------------------- scheduler
class Abort(BaseException):
    """Raised inside controlled threads to unwind them after a deadlock/hang verdict."""


class Sched:
    """The main thread owns the schedule; controlled threads park before every visible op."""

    def __init__(self, schedule: str, timeout: float = HANG_TIMEOUT):
        self.cv = threading.Condition()
        self.schedule = schedule
        self.timeout = timeout
        self.pending = {}       # tid -> (op, enabled_fn)
        self.granted = None
        self.finished = set()
        self.steps = []         # [enabled, tid, op]
        self.aborted = False

    def park(self, tid, op, enabled):
        with self.cv:
            if self.aborted:
                raise Abort()
            self.pending[tid] = (op, enabled)
            self.cv.notify_all()
            while self.granted != tid:
                if self.aborted:
                    self.pending.pop(tid, None)
                    raise Abort()
                self.cv.wait()
            self.granted = None
            del self.pending[tid]

    def amend(self, tid, suffix=None, op=None):
        """A thread refines the label of its own last step (thread-local work after the op)."""
        with self.cv:
            for st in reversed(self.steps):
                if st[1] == tid:
                    if op is not None:
                        st[2] = op
                    if suffix is not None:
                        st[2] += suffix
                    return
            self.steps.append(["", tid, (op or "") + (suffix or "")])

    def finish(self, tid):
        with self.cv:
            self.finished.add(tid)
            self.pending.pop(tid, None)
            self.cv.notify_all()

    def abort(self):
        with self.cv:
            self.aborted = True
            self.cv.notify_all()

    def run(self, tids=("P", "C")) -> str:
        t = 0
        streak = (None, 0)   # (thread, consecutive polling ops): weak fairness for timed waits
        while True:
            with self.cv:
                deadline = time.time() + self.timeout
                while (not all((x in self.pending) or (x in self.finished) for x in tids)
                       or self.granted is not None):
                    left = deadline - time.time()
                    if left <= 0:
                        stuck = [x for x in tids if x not in self.pending and x not in self.finished]
                        return "hang:" + ",".join(stuck)
                    self.cv.wait(timeout=min(left, 0.5))
                live = [x for x in tids if x not in self.finished]
                if not live:
                    return "done"
                en = [x for x in live if self.pending[x][1]()]
                if not en:
                    return "deadlock:" + ",".join(f"{x}@{self.pending[x][0]}" for x in live)
                if t >= MAX_STEPS:
                    return "too-long"
                want = self.schedule[t % len(self.schedule)] if self.schedule else "P"
                pick = want if want in en else en[0]
                # A timed/non-blocking put/get or a liveness poll (none in the pinned code) stands for
                # a bounded wait that expired; repeating it forever while the other thread could move
                # would be an unfair schedule, so after 3 in a row the other thread gets one step.
                if streak[0] == pick and streak[1] >= 3 and len(en) > 1:
                    pick = [x for x in en if x != pick][0]
                op = self.pending[pick][0]
                polling = op.endswith("!") or op == "alive?"
                streak = (pick, streak[1] + 1 if streak[0] == pick else 1) if polling else (None, 0)
                self.steps.append(["".join(en), pick, self.pending[pick][0]])
                self.granted = pick
                self.cv.notify_all()
            t += 1


def pixel_id(img) -> int:
    """The id FakeVideo paints into every pixel, read back from the top-left pixel (padding goes
    right/bottom; resizing a constant image keeps it constant)."""
    v = float(img.reshape(-1)[0])
    return int(round(v * 255)) if img.dtype.is_floating_point else int(v)


def item_tag(item) -> str:
    try:
        if item.get("image") is None:
            return "S"
        return (f"{int(item['video_idx'])}.{int(item['frame_idx'])}."
                f"{int(item['orig_size'][0])}.{int(item['orig_size'][1])}")
    except Exception as e:  # malformed item (only under mutation)
        return f"?{type(e).__name__}"


class SchedQueue(queue.Queue):
    """`queue.Queue` whose put/get are scheduling points; blocking = not enabled."""

    def __init__(self, maxsize, sched):
        super().__init__(maxsize)
        self.s = sched
        self.taken = []
        self.taken_pix = []     # pixel id of every frame at the moment the consumer takes it

    def _notfull(self):
        return self.maxsize <= 0 or self.qsize() < self.maxsize

    def put(self, item, block=True, timeout=None):
        tag = item_tag(item)
        op = "putS" if tag == "S" else "put." + tag
        if block and timeout is None:
            self.s.park("P", op, self._notfull)
        else:  # non-blocking / bounded wait: always schedulable, may raise queue.Full
            self.s.park("P", op + "!", lambda: True)
        super().put(item, block=False)

    def get(self, block=True, timeout=None):
        if block and timeout is None:
            self.s.park("C", "get", lambda: self.qsize() > 0)
        else:
            self.s.park("C", "get!", lambda: True)
        item = super().get(block=False)
        tag = item_tag(item)
        self.taken.append(tag)
        if tag != "S":
            try:
                self.taken_pix.append(pixel_id(item["image"]))
            except Exception as e:  # malformed item (only under mutation)
                self.taken_pix.append(f"?{type(e).__name__}")
        self.s.amend("C", op="getS" if tag == "S" else "get." + tag)
        return item


# ----------------------------------------------------------------------------- fake sources
class ReadCounter:
    def __init__(self, first):
        self.pos = first


class FakeVideo:
    """Duck-typed `sio.Video`: every `video[i]` is a scheduling point of thread P and raises (the
    exception type of the case) at the injected position.  Like the videos embedded in a
    `.pkg.slp`, all fake videos share one `filename`; the shape is uniform unless the case asks
    for per-frame sizes.  Every pixel of frame `i` of video `v` carries the id `(7 i + v) % 251`."""

    filename = "fake.pkg.slp"

    def __init__(self, vidx, n, sizes, sched, counter, fail_pos, by_index, raises=True, exc="OSError"):
        self.vidx = vidx
        self.sizes = sizes            # per frame index (h, w), cyclic; one entry = uniform video
        self.shape = (n, max(h for h, _ in sizes), max(w for _, w in sizes), 1)
        self.s = sched                # None: unscheduled (glue smoke)
        self.counter = counter
        self.fail_pos = fail_pos
        self.by_index = by_index      # VideoReader: position = frame index
        self.raises = raises          # False: the failure happens later in the reader's own code
        self.exc = EXC[exc]
        self.backend = None

    def size_of(self, i):
        return self.sizes[i % len(self.sizes)]

    @staticmethod
    def pix(vidx, i):
        return (7 * i + vidx) % 251

    def __len__(self):
        return self.shape[0]

    def __getitem__(self, i):
        import numpy as np

        i = int(i)
        pos = i if self.by_index else self.counter.pos
        self.counter.pos += 1
        bad = (self.fail_pos is not None and pos == self.fail_pos) or not (0 <= i < self.shape[0])
        if self.s is not None:
            self.s.park("P", ("readX." if bad else "read.") + f"{self.vidx}.{i}", lambda: True)
        if not (0 <= i < self.shape[0]):
            raise IndexError(f"frame {i} out of range")
        if bad and self.raises:
            raise self.exc(f"injected read failure at position {pos}")
        h, w = self.size_of(i)
        return np.full((h, w, 1), self.pix(self.vidx, i), dtype=np.uint8)


class ImgSeqPool:
    """PNG files for image-sequence `sio.Video`s (`filename` is a LIST of paths, backend
    `ImageVideo`), created lazily in a temporary directory that is removed at exit.  A frame file is
    a constant grayscale image carrying its pixel id; `bad("corrupt")` is a file that is not an
    image, `bad("missing")` a path that does not exist — the real backend raises on both."""

    def __init__(self):
        self.dir = None
        self.have = set()

    def _root(self):
        if self.dir is None:
            self.dir = tempfile.mkdtemp(prefix="verif_c13_imgseq_")
            atexit.register(shutil.rmtree, self.dir, True)
        return self.dir

    def frame(self, pix, h, w):
        path = os.path.join(self._root(), f"p{pix}_{h}x{w}.png")
        if path not in self.have:
            import imageio.v3 as iio
            import numpy as np

            iio.imwrite(path, np.full((h, w), pix, dtype=np.uint8))
            self.have.add(path)
        return path

    def bad(self, how):
        path = os.path.join(self._root(), "corrupt.png" if how == "corrupt" else "missing.png")
        if how == "corrupt" and path not in self.have:
            with open(path, "wb") as fh:
                fh.write(b"this is not a PNG file")
            self.have.add(path)
        return path


POOL = ImgSeqPool()


class SchedVideo:
    """A REAL `sio.Video` (image sequence) whose frame reads are scheduling points of thread P;
    everything else (`filename`, `shape`, `backend`, …) is the real object's."""

    def __init__(self, real, vidx, n, sched, counter, fail_pos, by_index):
        self.__dict__.update(real=real, vidx=vidx, n=n, s=sched, counter=counter, fail_pos=fail_pos,
                             by_index=by_index)

    def __getattr__(self, name):
        return getattr(self.__dict__["real"], name)

    def __len__(self):
        return self.n

    def __getitem__(self, i):
        i = int(i)
        pos = i if self.by_index else self.counter.pos
        self.counter.pos += 1
        bad = (self.fail_pos is not None and pos == self.fail_pos) or not (0 <= i < self.n)
        if self.s is not None:
            self.s.park("P", ("readX." if bad else "read.") + f"{self.vidx}.{i}", lambda: True)
        return self.real[i]       # the real backend raises on the corrupt / missing file or index


def imgseq_video(vidx, n, size, bad_index, how, sched, counter, fail_pos, by_index):
    """Image-sequence video of `n` frames (pixel id `(7 i + vidx) % 251`), frame `bad_index`
    replaced by a corrupt / missing file."""
    sio = env()["sio"]
    h, w = size
    paths = [POOL.frame(FakeVideo.pix(vidx, i), h, w) for i in range(n)]
    if bad_index is not None and 0 <= bad_index < n:
        paths[bad_index] = POOL.bad(how)
    return SchedVideo(sio.Video.from_filename(paths), vidx, n, sched, counter, fail_pos, by_index)


def imgseq_ok(case) -> bool:
    """An image-sequence source can realise the case: uniform size per video, and the bad file is
    not the first image of its list (sleap-io needs a readable first image for every read)."""
    if case["kind"] == "video":
        return len(case["sizes"]) == 1 and case["k"] != 0 and case["n"] >= 1
    if any(len(sz) != 1 for sz in case["vsizes"]):
        return False
    k = case["k"]
    if k is not None and 0 <= k < len(case["frames"]) and case.get("fail_kind") != "empty_instances":
        return case["frames"][k][1] != 0
    return True


_ENV = {}


def env():
    """Lazily import the repo and build the reusable pieces (Predictor subclass, stub model)."""
    if _ENV:
        return _ENV
    import numpy as np
    import torch
    import sleap_io as sio
    from sleap_nn.data.providers import VideoReader, LabelsReader
    from sleap_nn.inference.predictors import Predictor

    class Rec(torch.nn.Module):
        """Stub inference model: records the batch it is given — identity, size, the pixel id the
        image carries NOW (consumption time) and the instances — and returns it (`mode`: "one"
        output per batch, "none_odd": `None` for every second batch, "split": two outputs per
        batch, "raise": the network fails on its first batch)."""

        def __init__(self, sched, mode="one"):
            super().__init__()
            self.batches = []
            self.s = sched
            self.mode = mode

        def forward(self, ex):
            b = []
            for j, (v, f, sz) in enumerate(zip(ex["video_idx"], ex["frame_idx"], ex["orig_size"])):
                t = (int(v), int(f), int(sz[0]), int(sz[1]), pixel_id(ex["image"][j]))
                if "instances" in ex:
                    inst = ex["instances"][j, 0] / ex["eff_scale"][j]
                    t += (tuple(tuple(None if x != x else round(float(x) * 16) / 16
                                      for x in one.reshape(-1)) for one in inst),)
                b.append(t)
            k = len(self.batches)
            self.batches.append(b)
            if self.s is not None:
                self.s.amend("C", suffix="+proc." + ",".join(str(x[1]) for x in b))
            if self.mode == "raise":
                raise RuntimeError("stub network failure")
            if self.mode == "none_odd" and k % 2 == 1:
                return None
            if self.mode == "split" and len(b) > 1:
                cut = lambda sl: {kk: (vv[sl] if isinstance(vv, torch.Tensor) else vv) for kk, vv in ex.items()}
                return [cut(slice(0, 1)), cut(slice(1, None))]
            return [ex]

    class MiniPredictor(Predictor):
        @classmethod
        def from_trained_models(cls, *a, **k):
            pass

        @property
        def data_config(self):
            return None

        def make_pipeline(self, *a, **k):
            pass

        def _initialize_inference_model(self):
            # the `inference_model is None` branch of `_predict_generator`
            self.inference_model = self._lazy_model

        def _make_labeled_frames_from_generator(self, g):
            pass

    try:  # the readers log every injected failure through loguru; keep the check's output clean
        from loguru import logger
        logger.remove()
    except Exception:
        pass
    skel = sio.Skeleton(nodes=["a", "b"])
    _ENV.update(np=np, torch=torch, sio=sio, VideoReader=VideoReader, LabelsReader=LabelsReader,
                Rec=Rec, MiniPredictor=MiniPredictor, skel=skel)
    return _ENV


# ----------------------------------------------------------------------------- cases
def first_failing(case):
    """VideoReader: first position of range(start, end) whose read raises (injected failure or
    index past the end of the video); None if every read succeeds."""
    n = case["n"]
    start = 0 if case["start"] is None else case["start"]
    stop = n if case["stop"] is None else case["stop"]
    for i in range(start, stop):
        if i >= n or (case["k"] is not None and i == case["k"]):
            return i
    return None


def payloads(case):
    """Position → (frame_idx, video_idx, h, w): what the reader must attach to that position."""
    if case["kind"] == "video":
        sizes = case["sizes"]
        top = max(case["n"], case["stop"] or 0, case["start"] or 0) + 1
        return [(i, 0) + tuple(sizes[i % len(sizes)]) for i in range(top)]
    vs = case["vsizes"]
    return [(f, v) + tuple(vs[v][f % len(vs[v])]) for v, f in case["frames"]]


def model_params(case):
    """(start, stop, fail) of the model for this case.  Video length is not a model concept: a
    read past the end of the video is a read failure at that position."""
    if case["kind"] == "video":
        start = 0 if case["start"] is None else case["start"]
        stop = case["n"] if case["stop"] is None else case["stop"]
        return start, stop, first_failing(case)
    return 0, len(case["frames"]), case["k"]


def driver_line(case) -> str:
    start, stop, k = model_params(case)
    pays = payloads(case)
    body = " ".join(f"{f} {v} {h} {w}" for f, v, h, w in pays)
    return (f"run {case['cap']} {case['B']} {start} {stop} {'nan' if k is None else k} "
            f"{len(pays)} {body} {case['sched'] or '-'}").replace("  ", " ")


def inst_points(pos, j):
    """Distinct coordinates (multiples of 1/2) for instance `j` of the labelled frame at `pos`."""
    return [[pos + 0.5 * j, 2.0 * pos + 1.0], [j + 3.0, pos + 2.0]]


def build_reader(case, s, q):
    """The real reader object of the case on fake sources (`s` = scheduler or None)."""
    E = env()
    np, sio = E["np"], E["sio"]
    exc = case.get("exc") or "OSError"
    imgseq = case.get("src") == "imgseq" and imgseq_ok(case)
    how = case.get("bad_file") or "corrupt"
    if case["kind"] == "video":
        start = 0 if case["start"] is None else case["start"]
        if imgseq:
            fv = imgseq_video(0, case["n"], tuple(case["sizes"][0]), case["k"], how, s,
                              ReadCounter(start), case["k"], True)
        else:
            fv = FakeVideo(0, case["n"], [tuple(x) for x in case["sizes"]], s, ReadCounter(start),
                           case["k"], True, exc=exc)
        return E["VideoReader"](fv, q, case["start"], case["stop"])
    ctr = ReadCounter(0)
    if imgseq:
        k = case["k"]
        hit = (case["frames"][k] if k is not None and 0 <= k < len(case["frames"])
               and case.get("fail_kind") != "empty_instances" else None)
        vids = [imgseq_video(v, 20, tuple(sz[0]), hit[1] if hit and hit[0] == v else None, how, s, ctr,
                             case["k"], False)
                for v, sz in enumerate(case["vsizes"])]
    else:
        vids = [FakeVideo(v, 64, [tuple(x) for x in sz], s, ctr, case["k"], False,
                          raises=case.get("fail_kind") != "empty_instances", exc=exc)
                for v, sz in enumerate(case["vsizes"])]
    ninst = case.get("ninst") or [1] * len(case["frames"])
    lfs = []
    for pos, (v, f) in enumerate(case["frames"]):
        insts = [sio.Instance.from_numpy(np.array(inst_points(pos, j)), skeleton=E["skel"])
                 for j in range(ninst[pos])]
        if case.get("fail_kind") == "empty_instances" and pos == case["k"]:
            insts = []
        lfs.append(sio.LabeledFrame(video=vids[v], frame_idx=f, instances=insts))
    labels = sio.Labels(labeled_frames=lfs, videos=vids, skeletons=[E["skel"]])
    return E["LabelsReader"](labels, q, bool(case.get("instances_key")))


def run_impl(case, timeout: float = HANG_TIMEOUT) -> dict:
    """Run the real reader thread + the real `_predict_generator` under the schedule."""
    E = env()
    s = Sched(case["sched"], timeout)
    q = SchedQueue(case["cap"], s)
    inst_key = bool(case.get("instances_key"))
    rd = build_reader(case, s, q)
    rd.daemon = True
    stat = {"p": "not-started", "c": "running"}
    orig_run, orig_join, orig_alive = rd.run, rd.join, rd.is_alive

    def run_wrapped():
        stat["p"] = "running"
        try:
            orig_run()
            stat["p"] = "done"
        except Abort:
            stat["p"] = "aborted"
        except BaseException as e:  # noqa
            stat["p"] = "raise:" + type(e).__name__
        finally:
            s.finish("P")

    def join_wrapped(timeout=None):
        s.park("C", "join", lambda: "P" in s.finished)
        orig_join(s.timeout)

    def alive_wrapped():
        # not called by the pinned code; any liveness test the consumer makes on the reader
        # thread is a point where the other thread may run first
        s.park("C", "alive?", lambda: True)
        return "P" not in s.finished

    rd.run = run_wrapped
    rd.join = join_wrapped
    rd.is_alive = alive_wrapped
    rec = E["Rec"](s, case.get("rec_mode") or "one")
    lazy = bool(case.get("lazy_model"))
    pred = E["MiniPredictor"](
        preprocess=bool(case.get("preprocess")),
        preprocess_config={"batch_size": case["B"], "scale": 1.0, "is_rgb": bool(case.get("is_rgb")),
                           "max_stride": case.get("max_stride", 1),
                           "max_height": case.get("max_hw", 12), "max_width": case.get("max_hw", 12)},
        pipeline=rd, inference_model=None if lazy else rec, instances_key=inst_key)
    pred._lazy_model = rec
    yields = []

    def consume():
        try:
            g = pred._predict_generator()
            for o in g:
                yields.append([(int(v), int(f), int(sz[0]), int(sz[1])) for v, f, sz in
                               zip(o["video_idx"], o["frame_idx"], o["orig_size"])])
                if case.get("consumer") == "close":   # the caller abandons the generator early
                    g.close()
                    break
            stat["c"] = "finished"
        except Abort:
            stat["c"] = "aborted"
        except BaseException as e:  # noqa
            stat["c"] = "raise:" + type(e).__name__ + ":" + str(e)[:80]
        finally:
            s.finish("C")

    ct = threading.Thread(target=consume, daemon=True)
    ct.start()
    status = s.run()
    p_alive_at_verdict = orig_alive()
    if status != "done":
        s.abort()
    grace = s.timeout if status == "done" else 5.0   # aborted threads unwind at once or are stuck for good
    ct.join(grace)
    if rd.ident is not None:
        orig_join(grace)
    if stat["p"] == "not-started" and status == "done":
        stat["p"] = "never-started"
    return {
        "status": status,
        "steps": [f"{e}:{t}:{o}" for e, t, o in s.steps],
        "yields": yields,
        "rec": rec.batches,
        "taken": list(q.taken),
        "taken_pix": list(q.taken_pix),
        "p": stat["p"], "c": stat["c"],
        "p_alive": orig_alive(), "c_alive": ct.is_alive(),
        "p_alive_at_verdict": p_alive_at_verdict,
        "qsize": q.qsize(),
        "eff": "".join(t for _, t, _ in s.steps),
    }


def impl_line(r) -> str:
    """Same format as the driver's answer (batches = what the network was given)."""
    batches = ";".join(",".join(f"{x[0]}.{x[1]}.{x[2]}.{x[3]}" for x in b) for b in r["rec"])
    nsent = sum(1 for t in r["taken"] if t == "S")
    p = "done" if (r["p"] == "done" and not r["p_alive"]) else r["p"] + ("(alive)" if r["p_alive"] else "")
    c = "finished" if (r["c"] == "finished" and not r["c_alive"]) else r["c"] + ("(alive)" if r["c_alive"] else "")
    final = r["status"] == "done" and p == "done" and c == "finished" and r["qsize"] == 0
    if r["status"] != "done":
        p += "[" + r["status"] + "]"
    return (f"{' '.join(r['steps'])} | {batches} | sent={nsent} pending= | p={p} c={c} q={r['qsize']} "
            f"final={'true' if final else 'false'} | {r['eff']}")


# ----------------------------------------------------------------------------- property oracle
def wanted(case) -> list[tuple]:
    """What must reach the network, from the case alone: (video_idx, frame_idx, h, w, pixel id
    [, instances]) of positions start … min(end, first failing position) - 1."""
    if case["kind"] == "video":
        n = case["n"]
        start = 0 if case["start"] is None else case["start"]
        end = n if case["stop"] is None else case["stop"]
        idx = list(range(start, end))
        bad = [i for i in idx if i >= n or (case["k"] is not None and i == case["k"])]
        if bad:
            idx = idx[: idx.index(bad[0])]
        return [(0, i) + tuple(case["sizes"][i % len(case["sizes"])]) + ((7 * i) % 251,) for i in idx]
    fr = case["frames"]
    m = len(fr) if case["k"] is None or not (0 <= case["k"] < len(fr)) else case["k"]
    ninst = case.get("ninst") or [1] * len(fr)
    counts = [0 if (case.get("fail_kind") == "empty_instances" and p == case["k"]) else ninst[p]
              for p in range(len(fr))]
    max_inst = max(counts) if counts else -1
    want = []
    for pos, (v, f) in enumerate(fr[:m]):
        sz = case["vsizes"][v]
        t = (v, f) + tuple(sz[f % len(sz)]) + ((7 * f + v) % 251,)
        if case.get("instances_key"):
            # one flat (x0, y0, x1, y1) per instance
            inst = [tuple(x for node in inst_points(pos, j) for x in node) for j in range(counts[pos])]
            if max_inst != 1:   # padded with NaN instances up to the maximum over the labels
                inst += [(None,) * 4] * (max_inst - counts[pos])
            t += (tuple(inst),)
        want.append(t)
    return want


def oracle(case, r) -> list[str]:
    """The property, restated on what the implementation did (no reference to the model):
    the items taken from the queue are the frames of positions start … min(end, first failing
    position)-1, in order, each with the index / video index / size / pixels (/ instances) of its
    own position, followed by exactly one marker; the network is given exactly those frames in
    batches of B (last one partial, none empty) and still sees each frame's own pixels at that
    time; every output the network returns is yielded; both threads end; nothing hangs."""
    errs = []
    want = wanted(case)
    want_tags = [f"{x[0]}.{x[1]}.{x[2]}.{x[3]}" for x in want]
    if r["status"] != "done":
        errs.append("hang: " + r["status"])
    if r["p"] != "done" or r["p_alive"]:
        errs.append(f"reader thread did not end normally: {r['p']} alive={r['p_alive']}")
    if r["c"] != "finished" or r["c_alive"]:
        errs.append(f"consumer did not finish: {r['c']} alive={r['c_alive']}")
    if r["taken"] != want_tags + ["S"]:
        errs.append(f"items taken from the queue {r['taken']} != {want_tags + ['S']}")
    if r["taken_pix"] != [x[4] for x in want]:
        errs.append(f"pixel ids of the frames when taken from the queue {r['taken_pix']} != {[x[4] for x in want]}")
    flat = [x for b in r["rec"] for x in b]
    if [x[:4] for x in flat] != [x[:4] for x in want]:
        errs.append(f"frames given to the network {[x[:4] for x in flat]} != {[x[:4] for x in want]}")
    elif [x[4] for x in flat] != [x[4] for x in want]:
        errs.append(f"frame content at consumption time: pixel ids {[x[4] for x in flat]} != {[x[4] for x in want]}")
    elif case.get("instances_key") and [x[5:] for x in flat] != [x[5:] for x in want]:
        errs.append(f"instances travelling with the frames {[x[5:] for x in flat]} != {[x[5:] for x in want]}")
    sizes = [len(b) for b in r["rec"]]
    B = case["B"]
    if any(sz != B for sz in sizes[:-1]) or (sizes and not (1 <= sizes[-1] <= B)):
        errs.append(f"batch sizes {sizes} are not B={B} … with a non-empty last one")
    mode = case.get("rec_mode") or "one"
    kept = [b for i, b in enumerate(r["rec"]) if not (mode == "none_odd" and i % 2 == 1)]
    yflat = [x for b in r["yields"] for x in b]
    if yflat != [x[:4] for b in kept for x in b]:
        errs.append(f"yielded records {yflat} != outputs of the network {[x[:4] for b in kept for x in b]}")
    n_out = sum(2 if (mode == "split" and len(b) > 1) else 1 for b in kept)
    if len(r["yields"]) != n_out:
        errs.append(f"{len(r['yields'])} records yielded for {n_out} network outputs")
    if r["qsize"] != 0:
        errs.append(f"{r['qsize']} items left in the queue")
    return errs


# ----------------------------------------------------------------------------- generator
def rand_sched(rng) -> str:
    style = rng.randrange(8)
    if style == 0:
        return rng.choice(["", "P", "C", "PC", "CP", "PPC", "PCC", "PPPC", "PCCC"])
    bias = rng.choice([0.15, 0.3, 0.5, 0.5, 0.7, 0.85])
    return "".join("P" if rng.random() < bias else "C" for _ in range(rng.randrange(1, 40)))


def rand_sizes(rng, m):
    if rng.random() < 0.5:
        return [[rng.randrange(4, 13), rng.randrange(4, 13)]]
    return [[rng.randrange(4, 13), rng.randrange(4, 13)] for _ in range(m)]


def rand_k(rng, lo, hi):
    """failure position: none / first / last / inside / outside the range"""
    c = rng.randrange(10)
    if c < 3 or hi <= lo:
        return None if c < 3 or rng.random() < 0.5 else rng.choice([lo, max(0, lo - 1), hi, hi + 1])
    if c < 5:
        return lo
    if c < 7:
        return hi - 1
    if c < 9:
        return rng.randrange(lo, hi)
    return rng.choice([max(0, lo - 1), hi, hi + 2])


def rand_extras(rng, case) -> dict:
    """Consumer-side variants (all inside the property's domain)."""
    if case["k"] is not None:
        case["exc"] = rng.choice(sorted(EXC))
    if rng.random() < 0.3:       # real image-sequence sio.Video (filename is a list of paths)
        case["src"] = "imgseq"
        case["bad_file"] = rng.choice(["corrupt", "corrupt", "missing"])
    if rng.random() < 0.12:
        case["is_rgb"] = True
    if rng.random() < 0.2:
        case["rec_mode"] = rng.choice(["none_odd", "split"])
    if rng.random() < 0.1:
        case["lazy_model"] = True
    if rng.random() < 0.1:
        case["preprocess"] = True
        case["max_stride"] = 2
    return case


def rand_case(rng) -> dict:
    cap = rng.choice([1, 1, 1, 2, 2, 3, 5, 0])
    B = rng.choice([1, 1, 2, 2, 3, 4, 7])
    sched = rand_sched(rng)
    if rng.random() < 0.5:
        n = rng.randrange(0, 9)
        mode = rng.randrange(12)
        if mode == 0:
            start, stop = None, None
        elif mode == 1:
            start, stop = rng.randrange(0, n + 1), None
        elif mode == 2:
            start, stop = None, rng.randrange(0, n + 1)
        elif mode == 3:      # empty or inverted range
            a = rng.randrange(0, n + 1)
            start, stop = a, rng.randrange(0, a + 1)
        elif mode == 4:      # end beyond the video: video[n] raises
            start, stop = rng.randrange(0, n + 1), n + rng.randrange(1, 3)
        elif mode == 5:      # start exactly at the end of the video
            start, stop = n, rng.choice([None, n, n + 1, n + 3])
        elif mode == 6:      # start past the end: the very first read raises
            start = n + rng.randrange(1, 3)
            stop = rng.choice([None, start, start + 1, start + 2])
        else:
            start = rng.randrange(0, n + 1)
            stop = rng.randrange(start, n + 1)
        lo = 0 if start is None else start
        hi = n if stop is None else stop
        sizes = rand_sizes(rng, 3) if rng.random() < 0.15 else rand_sizes(rng, 1)[:1]
        return rand_extras(rng, {"kind": "video", "cap": cap, "B": B, "n": n, "start": start, "stop": stop,
                                 "k": rand_k(rng, lo, hi), "sizes": sizes, "sched": sched})
    nv = rng.choice([1, 2, 2, 3])
    m = rng.randrange(0, 8)
    pool = [(v, f) for v in range(nv) for f in range(0, 20)]
    frames = rng.sample(pool, m)
    if rng.random() < 0.6:
        frames.sort()
    case = {"kind": "labels", "cap": cap, "B": B, "frames": [list(x) for x in frames],
            "vsizes": [rand_sizes(rng, 1)[:1] for _ in range(nv)], "k": rand_k(rng, 0, m), "sched": sched}
    if rng.random() < 0.5:   # several instances in some frames (NaN padding to the maximum)
        case["ninst"] = [rng.choice([1, 1, 2, 3]) for _ in range(m)]
    if rng.random() < 0.35:
        case["instances_key"] = True
        if case["k"] is not None and 0 <= case["k"] < m and rng.random() < 0.6:
            case["fail_kind"] = "empty_instances"   # np.stack([]) raises inside the reader
    return rand_extras(rng, case)


def small_grid(thorough: bool):
    """Parameter grid for the all-schedules cross-check."""
    out = []
    nmax = 4 if thorough else 3
    caps = [1, 2, 3, 0] if thorough else [1, 2]
    Bs = [1, 2, 3] if thorough else [1, 2]
    for kind in ("video", "labels"):
        for cap in caps:
            for B in Bs:
                for n in range(0, nmax + 1):
                    for start in ([0, 2] if kind == "video" else [0]):
                        for k in [None] + list(range(start, start + n)):
                            out.append((kind, cap, B, start, n, k))
    return out


def grid_case(kind, cap, B, start, n, k, sched) -> dict:
    exc = None if k is None else sorted(EXC)[(cap + 2 * B + 3 * n + 5 * k + len(sched)) % len(EXC)]
    src = {"src": "imgseq", "bad_file": "missing" if (cap + n) % 3 == 0 else "corrupt"} \
        if (cap + B + n + (k or 0) + len(sched)) % 2 == 0 else {}
    if kind == "video":
        return {"kind": "video", "cap": cap, "B": B, "n": start + n + 1, "start": start,
                "stop": start + n, "k": k, "sizes": [[6, 8]], "sched": sched, "exc": exc, **src}
    frames = [[0, 3], [1, 0], [0, 9], [1, 4]][:n]
    return {"kind": "labels", "cap": cap, "B": B, "frames": frames,
            "vsizes": [[[6, 8]], [[5, 9]]], "k": k, "sched": sched, "exc": exc, **src}


def case_key(case, eff):
    start, stop, k = model_params(case)
    return (case["kind"], case["cap"], case["B"], start, stop, k, bool(case.get("instances_key")), eff)


def tags_of(case, r):
    start, stop, k = model_params(case)
    t = [case["kind"], f"cap={case['cap'] if case['cap'] in (0, 1, 2) else '3+'}",
         f"B={min(case['B'], 4)}"]
    if stop <= start:
        t.append("empty-range")
    if k is not None and start <= k < stop:
        t.append("fail-first" if k == start else "fail-last" if k == stop - 1 else "fail-mid")
        t.append("exc=" + ("ValueError(np.stack)" if case.get("fail_kind") else
                           "IndexError(past-end)" if case["kind"] == "video" and k >= case["n"]
                           else f"ValueError(imgseq-{case.get('bad_file') or 'corrupt'})"
                           if case.get("src") == "imgseq" and imgseq_ok(case)
                           else case.get("exc") or "OSError"))
        if case.get("src") == "imgseq" and imgseq_ok(case) and not case.get("fail_kind"):
            t.append("imgseq-fail-" + ("first" if k == start else "last" if k == stop - 1 else "mid"))
    else:
        t.append("no-fail")
    if case["kind"] == "video":
        n = case["n"]
        if case["start"] is None:
            t.append("start-none")
        if case["stop"] is None:
            t.append("stop-none")
        if stop > n:
            t.append("end-beyond-video")
        if start == n:
            t.append("start-at-end")
        if start > n:
            t.append("start-past-end")
        if stop < start:
            t.append("inverted-range")
        if len(case["sizes"]) > 1:
            t.append("nonuniform-size")
    else:
        if len({v for v, _ in case["frames"]}) > 1:
            t.append("multi-video")
        if case["frames"] != sorted(case["frames"]):
            t.append("non-monotone-frame-idx")
        if case.get("ninst") and max(case["ninst"], default=1) > 1:
            t.append("multi-instance")
            if case.get("instances_key"):
                t.append("instances-key-nan-padding")
    if case.get("src") == "imgseq" and imgseq_ok(case):
        t.append("src=image-sequence(filename-is-list)")
    if case.get("instances_key"):
        t.append("instances-key")
    if case.get("fail_kind"):
        t.append("fail-by-empty-instances")
    for flag in ("is_rgb", "lazy_model", "preprocess"):
        if case.get(flag):
            t.append(flag)
    if case.get("rec_mode"):
        t.append("outputs=" + case["rec_mode"])
    if any(st.startswith("C:C:get") and "put" in " ".join(r["steps"][i + 1:])
           for i, st in enumerate(r["steps"])):
        t.append("producer-blocked-on-full")
    if any(st.startswith("P:P:") and ":get" in " ".join(r["steps"][:i])
           for i, st in enumerate(r["steps"]) if "C" in r["eff"][i:]):
        t.append("consumer-blocked-on-empty-midstream")
    return t


# ----------------------------------------------------------------------------- search
def shrink(case, fails):
    """Greedy shrink of a failing case (fewer frames, simpler schedule, smaller parameters)."""
    best = case
    improved = True
    budget = 60
    while improved and budget > 0:
        improved = False
        cands = []
        c = dict(best)
        if len(c["sched"]) > 1:
            cands += [{**c, "sched": c["sched"][: len(c["sched"]) // 2]}, {**c, "sched": "P"}, {**c, "sched": "C"},
                      {**c, "sched": "PC"}]
        if c["B"] > 1:
            cands.append({**c, "B": c["B"] - 1})
        if c["cap"] > 1:
            cands.append({**c, "cap": 1})
        for key in ("rec_mode", "is_rgb", "lazy_model", "preprocess", "ninst", "src"):
            if c.get(key):
                cands.append({kk: vv for kk, vv in c.items() if kk != key})
        if c["kind"] == "video":
            start, stop, k = model_params(c)
            if c["stop"] is not None and stop - start > 0 and stop - 1 >= 0:
                cands.append({**c, "stop": stop - 1, "start": start})
            if start > 0 and c["start"] is not None:
                cands.append({**c, "start": start - 1, "stop": (stop - 1) if c["stop"] is not None else None,
                              "k": None if c["k"] is None else max(0, c["k"] - 1)})
            if c["k"] is not None:
                cands.append({**c, "k": None})
            if len(c["sizes"]) > 1:
                cands.append({**c, "sizes": c["sizes"][:1]})
        else:
            if c["frames"]:
                cands.append({**c, "frames": c["frames"][:-1],
                              "k": None if c["k"] is not None and c["k"] >= len(c["frames"]) - 1 else c["k"]})
            if c["k"] is not None:
                cands.append({**c, "k": None, "fail_kind": None})
            if c.get("instances_key"):
                cands.append({**c, "instances_key": False, "fail_kind": None})
        for cand in cands:
            budget -= 1
            if cand == best:
                continue
            try:
                if fails(cand):
                    best = cand
                    improved = True
                    break
            except Exception:
                pass
            if budget <= 0:
                break
    return best


def run_checked(case) -> dict:
    """`run_impl`, with a hang verdict (a thread stuck outside the scheduler: wall-clock based)
    confirmed by a second run with twice the timeout before it counts."""
    r = run_impl(case)
    if r["status"].startswith("hang"):
        r2 = run_impl(case, 2 * HANG_TIMEOUT)
        if not r2["status"].startswith("hang"):
            print(f"NOTE: slow run (>{HANG_TIMEOUT:.0f}s to a scheduling point) was not a hang on re-run",
                  file=sys.stderr)
        return r2
    return r


def consumer_abort_limit(chk: Check):
    """Replay of `reader_always_ends_counterexample` on the implementation (NOT a C13 violation:
    the statement assumes a consumer that keeps draining): the network raises on its first batch /
    the caller closes the generator after the first record; the reader thread must then be found
    alive and blocked in `put` — recorded in the evidence, reported only as a NOTE if it changes."""
    out = {}
    for how, extra in (("network-raises", {"rec_mode": "raise"}), ("generator-closed", {"consumer": "close"})):
        case = {"kind": "video", "cap": 1, "B": 1, "n": 4, "start": 0, "stop": 3, "k": None,
                "sizes": [[6, 8]], "sched": "CP", **extra}
        r = run_impl(case)
        stuck = r["status"].startswith("deadlock:P@put") and r["p_alive_at_verdict"]
        out[how] = {"status": r["status"], "reader_alive_blocked_in_put": stuck, "consumer": r["c"][:40]}
        if not stuck:
            print(f"NOTE: consumer-abort limit ({how}) no longer reproduces: {r['status']}")
            if r["status"].startswith("hang"):
                break
    chk.extra["consumer_abort_limit"] = {"lean": "SleapVerif.C13.reader_always_ends_counterexample", **out}
    chk.tag("limit-replay:consumer-abort")


def glue_smoke(chk: Check):
    """The real glue once per run, unscheduled, on the repo's own assets: a real predictor's
    `make_pipeline(provider, path, queue_maxsize, start, end)` → `VideoReader.from_filename` /
    `LabelsReader.from_filename` → `Queue(maxsize=queue_maxsize)` (an anchor), then the real
    `_predict_generator` with a recording stub network.  Checked: queue type and capacity, range
    defaults, frames delivered in order (incl. a range that runs past the end of the file), the
    reader thread ended.  Guarded by generous join timeouts."""
    E = env()
    from omegaconf import OmegaConf
    from sleap_nn.inference.predictors import SingleInstancePredictor
    import common

    assets = common.REPO / "tests" / "assets"
    mp4, slp = assets / "centered_pair_small.mp4", assets / "minimal_instance.pkg.slp"
    if not (mp4.exists() and slp.exists()):
        chk.extra["glue_smoke"] = "skipped: test assets missing"
        return
    cfg = OmegaConf.create({
        "data_config": {"preprocessing": {"scale": 1.0, "is_rgb": False, "max_height": None,
                                          "max_width": None, "crop_hw": None}},
        "model_config": {"backbone_config": {"unet": {"max_stride": 1, "output_stride": 1}},
                         "head_configs": {"single_instance": {"confmaps": {"sigma": 1.5, "output_stride": 1,
                                                                           "anchor_part": None}}}}})
    runs = [("VideoReader", mp4, 2, 5, 9, 3, list(range(5, 9))),
            ("VideoReader", mp4, 1, 1097, 1103, 2, [1097, 1098, 1099]),     # file has 1100 frames
            ("VideoReader", mp4, 3, 1098, None, 4, [1098, 1099]),
            ("LabelsReader", slp, 1, None, None, 2, [0])]
    res = []
    for provider, path, qmax, a, b, B, want in runs:
        case = {"glue": provider, "path": str(path), "queue_maxsize": qmax, "start": a, "stop": b, "B": B}
        rec = E["Rec"](None)
        p = SingleInstancePredictor(confmap_config=cfg, confmap_model=E["torch"].nn.Identity(),
                                    backbone_type="unet", skeletons=None, peak_threshold=0.2,
                                    integral_refinement=None, batch_size=B, preprocess_config=None)
        p.make_pipeline(provider, str(path), queue_maxsize=qmax, video_start_idx=a, video_end_idx=b)
        p.inference_model = rec
        rd = p.pipeline
        errs = []
        if type(rd.frame_buffer) is not queue.Queue or rd.frame_buffer.maxsize != qmax:
            errs.append(f"frame_buffer is {type(rd.frame_buffer).__name__}(maxsize={rd.frame_buffer.maxsize}), "
                        f"expected Queue(maxsize={qmax})")
        if provider == "VideoReader" and (rd.start_idx, rd.end_idx) != (a or 0, 1100 if b is None else b):
            errs.append(f"range ({rd.start_idx},{rd.end_idx}) from ({a},{b})")
        if p.preprocess_config["batch_size"] != B:
            errs.append("batch size not propagated")
        got, stat = [], {}

        def consume():
            try:
                for o in p._predict_generator():
                    got.extend(int(f) for f in o["frame_idx"])
                stat["c"] = "finished"
            except BaseException as e:  # noqa
                stat["c"] = "raise:" + type(e).__name__ + ":" + str(e)[:80]

        rd.daemon = True
        ct = threading.Thread(target=consume, daemon=True)
        ct.start()
        ct.join(2 * HANG_TIMEOUT)
        hung = ct.is_alive()
        if hung or stat.get("c") != "finished":
            errs.append(f"consumer did not finish: {stat.get('c', 'hang')}")
        if rd.is_alive():
            errs.append("reader thread still alive")
        if got != want:
            errs.append(f"frames {got} != {want}")
        if [x[1] for b_ in rec.batches for x in b_] != want or any(len(b_) != B for b_ in rec.batches[:-1]):
            errs.append(f"batches {[[x[1] for x in b_] for b_ in rec.batches]}")
        if not rd.frame_buffer.empty():
            errs.append("items left in the queue")
        chk.case(("glue", provider, qmax, a, b, B), None, ["glue:" + provider + ".from_filename"])
        res.append({**case, "ok": not errs})
        if errs:
            chk.fail("glue smoke (make_pipeline → from_filename → _predict_generator) fails", case, errs, ())
            if hung:
                break
    chk.extra["glue_smoke"] = res


def main(chk: Check):
    chk.build_and_audit()
    import_repo()
    rng = chk.rng
    env()["torch"].manual_seed(rng.randrange(2 ** 31))

    if chk.replay_path:
        d = json.loads(open(chk.replay_path).read())
        case = d["case"]
        if "glue" in case:
            print("glue smoke cases are re-run by every check run; nothing to replay separately")
            sys.exit(0)
        r = run_impl(case)
        errs = oracle(case, r)
        print("replay case:", json.dumps(case))
        print("implementation:", impl_line(r))
        print("model:         ", run_driver("C13.lean", [driver_line(case)])[0])
        print("property oracle:", "FAILS: " + "; ".join(errs) if errs else "holds")
        if errs:   # replay mode never rewrites evidence/replays
            print(f"VIOLATION property=C13 replay={chk.replay_path}")
        sys.exit(1 if errs else 0)

    cases: list[dict] = []
    # 1. corpus of past minimised failures / design examples
    cdir = CORPUS / "C13"
    if cdir.is_dir():
        for f in sorted(cdir.glob("*.json")):
            c = json.loads(f.read_text())
            cases += c if isinstance(c, list) else [c]
    n_corpus = len(cases)
    # 2. all schedules for small parameters (schedules enumerated by the model; the enabled sets
    #    compared at every step make this a bisimulation check along every path)
    grid = small_grid(chk.thorough)
    enum_lines = []
    for kind, cap, B, start, n, k in grid:
        enum_lines.append(f"enum {cap} {B} {start} {start + n} {'nan' if k is None else k}")
    enum_out = run_driver("C13.lean", enum_lines)
    n_enum = 0
    cap_per = chk.n(12, 10 ** 9)
    for g, line in zip(grid, enum_out):
        scheds = line.split()
        if len(scheds) > cap_per:
            scheds = rng.sample(scheds, cap_per)
        for sc in scheds:
            cases.append(grid_case(*g, sc))
            n_enum += 1
    # 3. random parameters and schedules
    for _ in range(chk.n(800, 15000)):
        cases.append(rand_case(rng))
    chk.extra["n_corpus"] = n_corpus
    chk.extra["n_all_schedule_cases"] = n_enum

    model_out = run_driver("C13.lean", [driver_line(c) for c in cases])
    # warm-up (lazy torch/torchvision initialisation happens inside the consumer thread): not counted
    # A hang verdict costs minutes of wall clock (timeout + confirmation); after the first one
    # nothing else is explored, so a tree that hangs is reported within ~3 min.
    warm = {"kind": "video", "cap": 2, "B": 2, "n": 3, "start": 0, "stop": 3, "k": None,
            "sizes": [[6, 8]], "sched": "PC", "is_rgb": True}
    w = run_impl(warm, 2 * HANG_TIMEOUT)
    hangs = 0
    if w["status"].startswith("hang"):
        hangs = 1
        chk.fail("property oracle fails on the implementation (warm-up case)", warm, oracle(warm, w), ())
    disagreeing = []
    for case, m in zip(cases, model_out):
        if hangs >= 1:     # one replay is enough
            break
        r = run_checked(case)
        if r["status"].startswith("hang"):
            hangs += 1
        il = impl_line(r)
        chk.case(case_key(case, r["eff"]), {"case": case, "impl": il} if len(r["eff"]) >= 12 else None,
                 tags_of(case, r))
        errs = oracle(case, r)
        if il != m:
            chk.disagree("schedule-for-schedule trace of reader/consumer vs Lean LTS", case, il, m)
            disagreeing.append(case)
        if errs:
            chk.fail("property oracle fails on the implementation", case, errs, ())
        if len(chk.failing) >= 3 or len(chk.disagreements) >= 12:
            break
    if hangs == 0:
        glue_smoke(chk)
        consumer_abort_limit(chk)

    # 4. failing-input search around disagreements that did not themselves violate the property
    if chk.disagreements and not chk.failing:
        def fails(c):
            return bool(oracle(c, run_impl(c)))
        tried = 0
        for base in disagreeing[:4]:
            for _ in range(60):
                c = dict(base)
                c["sched"] = rand_sched(rng)
                c["cap"] = rng.choice([1, 1, 2, base["cap"]])
                c["B"] = rng.choice([1, 2, 3, base["B"]])
                start, stop, _k = model_params(c)
                c["k"] = rng.choice([None, start, max(start, stop - 1), base["k"]])
                tried += 1
                if fails(c):
                    chk.fail("property oracle fails near a disagreeing case", c, oracle(c, run_impl(c)), ())
                    break
            if chk.failing:
                break
        chk.extra["search_cases"] = tried
    # shrink what was found (the replay carries the schedule string)
    if chk.failing and "sched" in chk.failing[0]["case"] and hangs == 0:
        f0 = chk.failing[0]
        try:
            small = shrink(f0["case"], lambda c: bool(oracle(c, run_impl(c))))
            if small != f0["case"]:
                r = run_impl(small)
                chk.failing.insert(0, {"what": f0["what"] + " (shrunk)", "case": small,
                                       "observed": {"errors": oracle(small, r), "impl": impl_line(r),
                                                    "model": run_driver("C13.lean", [driver_line(small)])[0]},
                                       "signatures": []})
        except Exception as e:  # shrinking is best effort
            print("shrink failed:", e, file=sys.stderr)


if __name__ == "__main__":
    chk = Check(
        "C13", module="SleapVerif.Props.C13", theorems=THEOREMS,
        build_targets=["SleapVerif.Model.Reader", "SleapVerif.Lemmas.Reader"],
        trusted=[
            "Lean 4 kernel",
            "queue.Queue: put/get atomic, FIFO, put blocks iff full (maxsize>0), get blocks iff empty",
            "threading: Thread.join returns iff run() ended; interleaving semantics at put/get/read/join granularity",
            "harness shims: scheduler-controlled Queue subclass, fake video objects (constant-pixel frames carrying an "
            "id, raise at the injected position), recording stub network, instance-level wrappers of "
            "Thread.run/join/is_alive",
            "wall clock only for the hang verdict (60 s to reach a scheduling point, confirmed by a re-run with 120 s)",
            "model-implementation tie is by correspondence (sampled + all schedules for small parameters), not by proof",
        ],
        rule="case = reader kind × capacity × batch size × range × failing position × effective schedule; "
             "distinct = distinct tuple (payload tables, exception type and consumer variants not counted); corpus "
             "first, then every maximal schedule of the model for small parameters, then random parameters/schedule "
             "strings; plus 4 unscheduled glue runs through make_pipeline/from_filename on the repo's assets",
        assumptions=[
            "batch_size >= 1 (batch_size = 0 makes _predict_generator spin; outside the property)",
            "start/end are non-negative ints or None",
            "the consumer keeps draining the queue: if the network raises or the generator is closed early the "
            "reader thread stays alive, blocked in put (Lean: reader_always_ends_counterexample; replayed on the "
            "implementation every run, evidence key consumer_abort_limit); outside the property's statement",
            "read failures are Exception subclasses (OSError, IndexError, ValueError, RuntimeError, KeyError, custom)",
            "only the first read failure matters (the loop is left at the first exception)",
        ],
    )
    run_check(chk, main)
