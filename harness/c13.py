"""C13 — frame readers deliver each frame once, in order, and always end the stream.

Correspondence: the real `VideoReader.run` / `LabelsReader.run` threads and the real
`Predictor._predict_generator` run under a scheduler that owns every visible operation
(frame read, queue put, queue get, thread join); the same schedule string (over {P,C}) and the
same parameters drive the Lean transition system `SleapVerif.Reader` through `drivers/C13.lean`.
Compared exactly, per run: the sequence of (enabled threads, thread moved, operation+payload,
batch processed), the yielded batches with (video_idx, frame_idx, orig_size), the number of
end-of-stream markers taken, the final thread states / queue length, the effective schedule.

Property oracle (independent of the model): see `oracle`.
"""
from __future__ import annotations

import itertools
import json
import queue
import sys
import threading
import time

from common import Check, run_check, import_repo, run_driver, CORPUS

THEOREMS = [
    "SleapVerif.C13.expected_no_fail",
    "SleapVerif.C13.expected_fail",
    "SleapVerif.C13.expected_item",
    "SleapVerif.C13.reader_inv",
    "SleapVerif.C13.reader_no_deadlock",
    "SleapVerif.C13.reader_terminates",
    "SleapVerif.C13.reader_maximal_run_final",
    "SleapVerif.C13.reader_final",
    "SleapVerif.C13.batches_partition",
    "SleapVerif.C13.batches_full_while_running",
    "SleapVerif.C13.reader_every_schedule_final",
]

HANG_TIMEOUT = 20.0   # seconds without every live thread reaching a scheduling point
MAX_STEPS = 2000


# ----------------------------------------------------------------------------- scheduler
class Abort(BaseException):
    """Raised inside controlled threads to unwind them after a deadlock/hang verdict."""


class Sched:
    """The main thread owns the schedule; controlled threads park before every visible op."""

    def __init__(self, schedule: str):
        self.cv = threading.Condition()
        self.schedule = schedule
        self.pending = {}       # tid -> (op, enabled_fn)
        self.granted = None
        self.finished = set()
        self.steps = []         # [enabled, tid, op]
        self.aborted = False

    def park(self, tid, op, enabled):
        with self.cv:
            if self.aborted:
                raise Abort()
            self.pending[tid] = (op, enabled)
            self.cv.notify_all()
            while self.granted != tid:
                if self.aborted:
                    self.pending.pop(tid, None)
                    raise Abort()
                self.cv.wait()
            self.granted = None
            del self.pending[tid]

    def amend(self, tid, suffix=None, op=None):
        """A thread refines the label of its own last step (thread-local work after the op)."""
        with self.cv:
            for st in reversed(self.steps):
                if st[1] == tid:
                    if op is not None:
                        st[2] = op
                    if suffix is not None:
                        st[2] += suffix
                    return
            self.steps.append(["", tid, (op or "") + (suffix or "")])

    def finish(self, tid):
        with self.cv:
            self.finished.add(tid)
            self.pending.pop(tid, None)
            self.cv.notify_all()

    def abort(self):
        with self.cv:
            self.aborted = True
            self.cv.notify_all()

    def run(self, tids=("P", "C")) -> str:
        t = 0
        streak = (None, 0)   # (thread, consecutive polling ops): weak fairness for timed waits
        while True:
            with self.cv:
                deadline = time.time() + HANG_TIMEOUT
                while (not all((x in self.pending) or (x in self.finished) for x in tids)
                       or self.granted is not None):
                    left = deadline - time.time()
                    if left <= 0:
                        stuck = [x for x in tids if x not in self.pending and x not in self.finished]
                        return "hang:" + ",".join(stuck)
                    self.cv.wait(timeout=min(left, 0.5))
                live = [x for x in tids if x not in self.finished]
                if not live:
                    return "done"
                en = [x for x in live if self.pending[x][1]()]
                if not en:
                    return "deadlock:" + ",".join(f"{x}@{self.pending[x][0]}" for x in live)
                if t >= MAX_STEPS:
                    return "too-long"
                want = self.schedule[t % len(self.schedule)] if self.schedule else "P"
                pick = want if want in en else en[0]
                # A timed/non-blocking put/get or a liveness poll (none in the pinned code) stands for
                # a bounded wait that expired; repeating it forever while the other thread could move
                # would be an unfair schedule, so after 3 in a row the other thread gets one step.
                if streak[0] == pick and streak[1] >= 3 and len(en) > 1:
                    pick = [x for x in en if x != pick][0]
                op = self.pending[pick][0]
                polling = op.endswith("!") or op == "alive?"
                streak = (pick, streak[1] + 1 if streak[0] == pick else 1) if polling else (None, 0)
                self.steps.append(["".join(en), pick, self.pending[pick][0]])
                self.granted = pick
                self.cv.notify_all()
            t += 1


def item_tag(item) -> str:
    try:
        if item.get("image") is None:
            return "S"
        return (f"{int(item['video_idx'])}.{int(item['frame_idx'])}."
                f"{int(item['orig_size'][0])}.{int(item['orig_size'][1])}")
    except Exception as e:  # malformed item (only under mutation)
        return f"?{type(e).__name__}"


class SchedQueue(queue.Queue):
    """`queue.Queue` whose put/get are scheduling points; blocking = not enabled."""

    def __init__(self, maxsize, sched):
        super().__init__(maxsize)
        self.s = sched
        self.taken = []

    def _notfull(self):
        return self.maxsize <= 0 or self.qsize() < self.maxsize

    def put(self, item, block=True, timeout=None):
        tag = item_tag(item)
        op = "putS" if tag == "S" else "put." + tag
        if block and timeout is None:
            self.s.park("P", op, self._notfull)
        else:  # non-blocking / bounded wait: always schedulable, may raise queue.Full
            self.s.park("P", op + "!", lambda: True)
        super().put(item, block=False)

    def get(self, block=True, timeout=None):
        if block and timeout is None:
            self.s.park("C", "get", lambda: self.qsize() > 0)
        else:
            self.s.park("C", "get!", lambda: True)
        item = super().get(block=False)
        tag = item_tag(item)
        self.taken.append(tag)
        self.s.amend("C", op="getS" if tag == "S" else "get." + tag)
        return item


# ----------------------------------------------------------------------------- fake sources
class ReadCounter:
    def __init__(self, first):
        self.pos = first


class FakeVideo:
    """Duck-typed `sio.Video`: every `video[i]` is a scheduling point of thread P and raises at
    the injected position."""

    def __init__(self, vidx, n, sizes, sched, counter, fail_pos, by_index, raises=True):
        self.vidx = vidx
        self.sizes = sizes            # per frame index (h, w), cyclic
        self.shape = (n, max(h for h, _ in sizes), max(w for _, w in sizes), 1)
        self.s = sched
        self.counter = counter
        self.fail_pos = fail_pos
        self.by_index = by_index      # VideoReader: position = frame index
        self.raises = raises          # False: the failure happens later in the reader's own code

    def size_of(self, i):
        return self.sizes[i % len(self.sizes)]

    def __len__(self):
        return self.shape[0]

    def __getitem__(self, i):
        import numpy as np

        i = int(i)
        pos = i if self.by_index else self.counter.pos
        self.counter.pos += 1
        bad = (self.fail_pos is not None and pos == self.fail_pos) or not (0 <= i < self.shape[0])
        self.s.park("P", ("readX." if bad else "read.") + f"{self.vidx}.{i}", lambda: True)
        if not (0 <= i < self.shape[0]):
            raise IndexError(f"frame {i} out of range")
        if bad and self.raises:
            raise IOError(f"injected read failure at position {pos}")
        h, w = self.size_of(i)
        return np.full((h, w, 1), (7 * i + self.vidx) % 251, dtype=np.uint8)


_ENV = {}


def env():
    """Lazily import the repo and build the reusable pieces (Predictor subclass, stub model)."""
    if _ENV:
        return _ENV
    import numpy as np
    import torch
    import sleap_io as sio
    from sleap_nn.data.providers import VideoReader, LabelsReader
    from sleap_nn.inference.predictors import Predictor

    class Rec(torch.nn.Module):
        """Stub inference model: records the batch it is given and returns it."""

        def __init__(self, sched):
            super().__init__()
            self.batches = []
            self.s = sched

        def forward(self, ex):
            b = [(int(v), int(f), int(sz[0]), int(sz[1]))
                 for v, f, sz in zip(ex["video_idx"], ex["frame_idx"], ex["orig_size"])]
            self.batches.append(b)
            self.s.amend("C", suffix="+proc." + ",".join(str(x[1]) for x in b))
            return [ex]

    class MiniPredictor(Predictor):
        @classmethod
        def from_trained_models(cls, *a, **k):
            pass

        @property
        def data_config(self):
            return None

        def make_pipeline(self, *a, **k):
            pass

        def _initialize_inference_model(self):
            pass

        def _make_labeled_frames_from_generator(self, g):
            pass

    try:  # the readers log every injected failure through loguru; keep the check's output clean
        from loguru import logger
        logger.remove()
    except Exception:
        pass
    skel = sio.Skeleton(nodes=["a", "b"])
    _ENV.update(np=np, torch=torch, sio=sio, VideoReader=VideoReader, LabelsReader=LabelsReader,
                Rec=Rec, MiniPredictor=MiniPredictor, skel=skel)
    return _ENV


# ----------------------------------------------------------------------------- cases
def payloads(case):
    """Position → (frame_idx, video_idx, h, w): what the reader must attach to that position."""
    if case["kind"] == "video":
        sizes = case["sizes"]
        return [(i, 0) + tuple(sizes[i % len(sizes)]) for i in range(case["n"] + 1)]
    vs = case["vsizes"]
    return [(f, v) + tuple(vs[v][f % len(vs[v])]) for v, f in case["frames"]]


def model_params(case):
    """(start, stop, fail) of the model for this case."""
    if case["kind"] == "video":
        start = 0 if case["start"] is None else case["start"]
        stop = case["n"] if case["stop"] is None else case["stop"]
        k = case["k"]
        if stop > case["n"] and (k is None or k > case["n"] or k < start):
            k = case["n"]          # video[n] raises IndexError: a read failure at position n
        return start, stop, k
    return 0, len(case["frames"]), case["k"]


def driver_line(case) -> str:
    start, stop, k = model_params(case)
    pays = payloads(case)
    body = " ".join(f"{f} {v} {h} {w}" for f, v, h, w in pays)
    return (f"run {case['cap']} {case['B']} {start} {stop} {'nan' if k is None else k} "
            f"{len(pays)} {body} {case['sched'] or '-'}").replace("  ", " ")


def run_impl(case) -> dict:
    """Run the real reader thread + the real `_predict_generator` under the schedule."""
    E = env()
    np, sio = E["np"], E["sio"]
    s = Sched(case["sched"])
    q = SchedQueue(case["cap"], s)
    inst_key = bool(case.get("instances_key"))
    if case["kind"] == "video":
        start = 0 if case["start"] is None else case["start"]
        fv = FakeVideo(0, case["n"], [tuple(x) for x in case["sizes"]], s, ReadCounter(start),
                       case["k"], True)
        rd = E["VideoReader"](fv, q, case["start"], case["stop"])
    else:
        ctr = ReadCounter(0)
        vids = [FakeVideo(v, 64, [tuple(x) for x in sz], s, ctr, case["k"], False,
                          raises=case.get("fail_kind") != "empty_instances")
                for v, sz in enumerate(case["vsizes"])]
        lfs = []
        for pos, (v, f) in enumerate(case["frames"]):
            insts = [sio.Instance.from_numpy(np.array([[1.0, 2.0], [3.0, 4.0]]), skeleton=E["skel"])]
            if case.get("fail_kind") == "empty_instances" and pos == case["k"]:
                insts = []
            lfs.append(sio.LabeledFrame(video=vids[v], frame_idx=f, instances=insts))
        labels = sio.Labels(labeled_frames=lfs, videos=vids, skeletons=[E["skel"]])
        rd = E["LabelsReader"](labels, q, inst_key)
    rd.daemon = True
    stat = {"p": "not-started", "c": "running"}
    orig_run, orig_join, orig_alive = rd.run, rd.join, rd.is_alive

    def run_wrapped():
        stat["p"] = "running"
        try:
            orig_run()
            stat["p"] = "done"
        except Abort:
            stat["p"] = "aborted"
        except BaseException as e:  # noqa
            stat["p"] = "raise:" + type(e).__name__
        finally:
            s.finish("P")

    def join_wrapped(timeout=None):
        s.park("C", "join", lambda: "P" in s.finished)
        orig_join(HANG_TIMEOUT)

    def alive_wrapped():
        # not called by the pinned code; any liveness test the consumer makes on the reader
        # thread is a point where the other thread may run first
        s.park("C", "alive?", lambda: True)
        return "P" not in s.finished

    rd.run = run_wrapped
    rd.join = join_wrapped
    rd.is_alive = alive_wrapped
    rec = E["Rec"](s)
    pred = E["MiniPredictor"](
        preprocess=False,
        preprocess_config={"batch_size": case["B"], "scale": 1.0, "is_rgb": False, "max_stride": 1,
                           "max_height": case.get("max_hw", 12), "max_width": case.get("max_hw", 12)},
        pipeline=rd, inference_model=rec, instances_key=inst_key)
    yields = []

    def consume():
        try:
            for o in pred._predict_generator():
                yields.append([(int(v), int(f), int(sz[0]), int(sz[1])) for v, f, sz in
                               zip(o["video_idx"], o["frame_idx"], o["orig_size"])])
            stat["c"] = "finished"
        except Abort:
            stat["c"] = "aborted"
        except BaseException as e:  # noqa
            stat["c"] = "raise:" + type(e).__name__ + ":" + str(e)[:80]
        finally:
            s.finish("C")

    ct = threading.Thread(target=consume, daemon=True)
    ct.start()
    status = s.run()
    if status != "done":
        s.abort()
    ct.join(HANG_TIMEOUT)
    if rd.ident is not None:
        orig_join(HANG_TIMEOUT)
    if stat["p"] == "not-started" and status == "done":
        stat["p"] = "never-started"
    return {
        "status": status,
        "steps": [f"{e}:{t}:{o}" for e, t, o in s.steps],
        "yields": yields,
        "rec": rec.batches,
        "taken": list(q.taken),
        "p": stat["p"], "c": stat["c"],
        "p_alive": orig_alive(), "c_alive": ct.is_alive(),
        "qsize": q.qsize(),
        "eff": "".join(t for _, t, _ in s.steps),
    }


def impl_line(r) -> str:
    """Same format as the driver's answer."""
    batches = ";".join(",".join(f"{v}.{f}.{h}.{w}" for v, f, h, w in b) for b in r["yields"]
                       if isinstance(b, list))
    nsent = sum(1 for t in r["taken"] if t == "S")
    p = "done" if (r["p"] == "done" and not r["p_alive"]) else r["p"] + ("(alive)" if r["p_alive"] else "")
    c = "finished" if (r["c"] == "finished" and not r["c_alive"]) else r["c"] + ("(alive)" if r["c_alive"] else "")
    final = r["status"] == "done" and p == "done" and c == "finished" and r["qsize"] == 0
    if r["status"] != "done":
        p += "[" + r["status"] + "]"
    return (f"{' '.join(r['steps'])} | {batches} | sent={nsent} pending= | p={p} c={c} q={r['qsize']} "
            f"final={'true' if final else 'false'} | {r['eff']}")


# ----------------------------------------------------------------------------- property oracle
def oracle(case, r) -> list[str]:
    """The property, restated on what the implementation did (no reference to the model):
    the items taken from the queue are the frames of positions start … min(end, first failing
    position)-1, in order, each with the index / video index / size of its own position, followed
    by exactly one marker; the consumer yields exactly those frames in batches of B (last one
    partial, none empty); both threads end; nothing hangs."""
    errs = []
    if case["kind"] == "video":
        n = case["n"]
        start = 0 if case["start"] is None else case["start"]
        end = n if case["stop"] is None else case["stop"]
        idx = list(range(start, end))
        bad = [i for i in idx if i >= n or (case["k"] is not None and i == case["k"])]
        if bad:
            idx = idx[: idx.index(bad[0])]
        want = [(0, i) + tuple(case["sizes"][i % len(case["sizes"])]) for i in idx]
    else:
        fr = case["frames"]
        m = len(fr) if case["k"] is None or not (0 <= case["k"] < len(fr)) else case["k"]
        want = []
        for v, f in fr[:m]:
            sz = case["vsizes"][v]
            want.append((v, f) + tuple(sz[f % len(sz)]))
    want_tags = [f"{v}.{f}.{h}.{w}" for v, f, h, w in want]
    if r["status"] != "done":
        errs.append("hang: " + r["status"])
    if r["p"] != "done" or r["p_alive"]:
        errs.append(f"reader thread did not end normally: {r['p']} alive={r['p_alive']}")
    if r["c"] != "finished" or r["c_alive"]:
        errs.append(f"consumer did not finish: {r['c']} alive={r['c_alive']}")
    if r["taken"] != want_tags + ["S"]:
        errs.append(f"items taken from the queue {r['taken']} != {want_tags + ['S']}")
    flat = [x for b in r["yields"] for x in (b if isinstance(b, list) else [b])]
    if flat != want:
        errs.append(f"yielded frames {flat} != {want}")
    sizes = [len(b) if isinstance(b, list) else 1 for b in r["yields"]]
    B = case["B"]
    if any(sz != B for sz in sizes[:-1]) or (sizes and not (1 <= sizes[-1] <= B)):
        errs.append(f"batch sizes {sizes} are not B={B} … with a non-empty last one")
    if r["rec"] != [b for b in r["yields"] if isinstance(b, list)]:
        errs.append("batches given to the network differ from the yielded ones")
    if r["qsize"] != 0:
        errs.append(f"{r['qsize']} items left in the queue")
    return errs


# ----------------------------------------------------------------------------- generator
def rand_sched(rng) -> str:
    style = rng.randrange(8)
    if style == 0:
        return rng.choice(["", "P", "C", "PC", "CP", "PPC", "PCC", "PPPC", "PCCC"])
    bias = rng.choice([0.15, 0.3, 0.5, 0.5, 0.7, 0.85])
    return "".join("P" if rng.random() < bias else "C" for _ in range(rng.randrange(1, 40)))


def rand_sizes(rng, m):
    if rng.random() < 0.5:
        return [[rng.randrange(4, 13), rng.randrange(4, 13)]]
    return [[rng.randrange(4, 13), rng.randrange(4, 13)] for _ in range(m)]


def rand_k(rng, lo, hi):
    """failure position: none / first / last / inside / outside the range"""
    c = rng.randrange(10)
    if c < 3 or hi <= lo:
        return None if c < 3 or rng.random() < 0.5 else rng.choice([lo, max(0, lo - 1), hi, hi + 1])
    if c < 5:
        return lo
    if c < 7:
        return hi - 1
    if c < 9:
        return rng.randrange(lo, hi)
    return rng.choice([max(0, lo - 1), hi, hi + 2])


def rand_case(rng) -> dict:
    cap = rng.choice([1, 1, 1, 2, 2, 3, 5, 0])
    B = rng.choice([1, 1, 2, 2, 3, 4, 7])
    sched = rand_sched(rng)
    if rng.random() < 0.5:
        n = rng.randrange(0, 9)
        mode = rng.randrange(10)
        if mode == 0:
            start, stop = None, None
        elif mode == 1:
            start, stop = rng.randrange(0, n + 1), None
        elif mode == 2:
            start, stop = None, rng.randrange(0, n + 1)
        elif mode == 3:      # empty or inverted range
            a = rng.randrange(0, n + 1)
            start, stop = a, rng.randrange(0, a + 1)
        elif mode == 4:      # end beyond the video: video[n] raises
            start, stop = rng.randrange(0, n + 1), n + rng.randrange(1, 3)
        else:
            start = rng.randrange(0, n + 1)
            stop = rng.randrange(start, n + 1)
        lo = 0 if start is None else start
        hi = n if stop is None else stop
        return {"kind": "video", "cap": cap, "B": B, "n": n, "start": start, "stop": stop,
                "k": rand_k(rng, lo, hi), "sizes": rand_sizes(rng, 3), "sched": sched}
    nv = rng.choice([1, 2, 2, 3])
    m = rng.randrange(0, 8)
    pool = [(v, f) for v in range(nv) for f in range(0, 20)]
    frames = rng.sample(pool, m)
    if rng.random() < 0.6:
        frames.sort()
    case = {"kind": "labels", "cap": cap, "B": B, "frames": [list(x) for x in frames],
            "vsizes": [rand_sizes(rng, 1) for _ in range(nv)], "k": rand_k(rng, 0, m), "sched": sched}
    if rng.random() < 0.25:
        case["instances_key"] = True
        if case["k"] is not None and 0 <= case["k"] < m and rng.random() < 0.7:
            case["fail_kind"] = "empty_instances"   # np.stack([]) raises inside the reader
    return case


def small_grid(thorough: bool):
    """Parameter grid for the all-schedules cross-check."""
    out = []
    nmax = 4 if thorough else 3
    caps = [1, 2, 3, 0] if thorough else [1, 2]
    Bs = [1, 2, 3] if thorough else [1, 2]
    for kind in ("video", "labels"):
        for cap in caps:
            for B in Bs:
                for n in range(0, nmax + 1):
                    for start in ([0, 2] if kind == "video" else [0]):
                        for k in [None] + list(range(start, start + n)):
                            out.append((kind, cap, B, start, n, k))
    return out


def grid_case(kind, cap, B, start, n, k, sched) -> dict:
    if kind == "video":
        return {"kind": "video", "cap": cap, "B": B, "n": start + n + 1, "start": start,
                "stop": start + n, "k": k, "sizes": [[6, 8], [7, 5]], "sched": sched}
    frames = [[0, 3], [1, 0], [0, 9], [1, 4]][:n]
    return {"kind": "labels", "cap": cap, "B": B, "frames": frames,
            "vsizes": [[[6, 8]], [[5, 9]]], "k": k, "sched": sched}


def case_key(case, eff):
    start, stop, k = model_params(case)
    return (case["kind"], case["cap"], case["B"], start, stop, k, bool(case.get("instances_key")), eff)


def tags_of(case, r):
    start, stop, k = model_params(case)
    t = [case["kind"], f"cap={case['cap'] if case['cap'] in (0, 1, 2) else '3+'}",
         f"B={min(case['B'], 4)}"]
    if stop <= start:
        t.append("empty-range")
    if k is not None and start <= k < stop:
        t.append("fail-first" if k == start else "fail-last" if k == stop - 1 else "fail-mid")
    else:
        t.append("no-fail")
    if case.get("fail_kind"):
        t.append("fail-by-empty-instances")
    if any(st.startswith("C:C:get") and "put" in " ".join(r["steps"][i + 1:])
           for i, st in enumerate(r["steps"])):
        t.append("producer-blocked-on-full")
    if any(st.startswith("P:P:") and ":get" in " ".join(r["steps"][:i])
           for i, st in enumerate(r["steps"]) if "C" in r["eff"][i:]):
        t.append("consumer-blocked-on-empty-midstream")
    return t


# ----------------------------------------------------------------------------- search
def shrink(case, fails):
    """Greedy shrink of a failing case (fewer frames, simpler schedule, smaller parameters)."""
    best = case
    improved = True
    budget = 60
    while improved and budget > 0:
        improved = False
        cands = []
        c = dict(best)
        if len(c["sched"]) > 1:
            cands += [{**c, "sched": c["sched"][: len(c["sched"]) // 2]}, {**c, "sched": "P"}, {**c, "sched": "C"},
                      {**c, "sched": "PC"}]
        if c["B"] > 1:
            cands.append({**c, "B": c["B"] - 1})
        if c["cap"] > 1:
            cands.append({**c, "cap": 1})
        if c["kind"] == "video":
            start, stop, k = model_params(c)
            if c["stop"] is not None and stop - start > 0 and stop - 1 >= 0:
                cands.append({**c, "stop": stop - 1, "start": start})
            if start > 0 and c["start"] is not None:
                cands.append({**c, "start": start - 1, "stop": (stop - 1) if c["stop"] is not None else None,
                              "k": None if c["k"] is None else max(0, c["k"] - 1)})
            if c["k"] is not None:
                cands.append({**c, "k": None})
            if len(c["sizes"]) > 1:
                cands.append({**c, "sizes": c["sizes"][:1]})
        else:
            if c["frames"]:
                cands.append({**c, "frames": c["frames"][:-1],
                              "k": None if c["k"] is not None and c["k"] >= len(c["frames"]) - 1 else c["k"]})
            if c["k"] is not None:
                cands.append({**c, "k": None, "fail_kind": None})
            if c.get("instances_key"):
                cands.append({**c, "instances_key": False, "fail_kind": None})
        for cand in cands:
            budget -= 1
            if cand == best:
                continue
            try:
                if fails(cand):
                    best = cand
                    improved = True
                    break
            except Exception:
                pass
            if budget <= 0:
                break
    return best


def main(chk: Check):
    chk.build_and_audit()
    import_repo()
    rng = chk.rng
    env()["torch"].manual_seed(rng.randrange(2 ** 31))

    if chk.replay_path:
        d = json.loads(open(chk.replay_path).read())
        case = d["case"]
        r = run_impl(case)
        errs = oracle(case, r)
        print("replay case:", json.dumps(case))
        print("implementation:", impl_line(r))
        print("model:         ", run_driver("C13.lean", [driver_line(case)])[0])
        print("property oracle:", "FAILS: " + "; ".join(errs) if errs else "holds")
        if errs:   # replay mode never rewrites evidence/replays
            print(f"VIOLATION property=C13 replay={chk.replay_path}")
        sys.exit(1 if errs else 0)

    cases: list[dict] = []
    # 1. corpus of past minimised failures / design examples
    cdir = CORPUS / "C13"
    if cdir.is_dir():
        for f in sorted(cdir.glob("*.json")):
            c = json.loads(f.read_text())
            cases += c if isinstance(c, list) else [c]
    n_corpus = len(cases)
    # 2. all schedules for small parameters (schedules enumerated by the model; the enabled sets
    #    compared at every step make this a bisimulation check along every path)
    grid = small_grid(chk.thorough)
    enum_lines = []
    for kind, cap, B, start, n, k in grid:
        enum_lines.append(f"enum {cap} {B} {start} {start + n} {'nan' if k is None else k}")
    enum_out = run_driver("C13.lean", enum_lines)
    n_enum = 0
    cap_per = chk.n(12, 10 ** 9)
    for g, line in zip(grid, enum_out):
        scheds = line.split()
        if len(scheds) > cap_per:
            scheds = rng.sample(scheds, cap_per)
        for sc in scheds:
            cases.append(grid_case(*g, sc))
            n_enum += 1
    # 3. random parameters and schedules
    for _ in range(chk.n(800, 15000)):
        cases.append(rand_case(rng))
    chk.extra["n_corpus"] = n_corpus
    chk.extra["n_all_schedule_cases"] = n_enum

    model_out = run_driver("C13.lean", [driver_line(c) for c in cases])
    hangs = 0
    disagreeing = []
    for case, m in zip(cases, model_out):
        if hangs >= 3:
            break
        r = run_impl(case)
        if r["status"].startswith("hang"):
            hangs += 1
        il = impl_line(r)
        chk.case(case_key(case, r["eff"]), {"case": case, "impl": il} if len(r["eff"]) >= 12 else None,
                 tags_of(case, r))
        errs = oracle(case, r)
        if il != m:
            chk.disagree("schedule-for-schedule trace of reader/consumer vs Lean LTS", case, il, m)
            disagreeing.append(case)
        if errs:
            chk.fail("property oracle fails on the implementation", case, errs, ())
        if len(chk.failing) >= 3 or len(chk.disagreements) >= 12:
            break

    # 4. failing-input search around disagreements that did not themselves violate the property
    if chk.disagreements and not chk.failing:
        def fails(c):
            return bool(oracle(c, run_impl(c)))
        tried = 0
        for base in disagreeing[:4]:
            for _ in range(60):
                c = dict(base)
                c["sched"] = rand_sched(rng)
                c["cap"] = rng.choice([1, 1, 2, base["cap"]])
                c["B"] = rng.choice([1, 2, 3, base["B"]])
                start, stop, _k = model_params(c)
                c["k"] = rng.choice([None, start, max(start, stop - 1), base["k"]])
                tried += 1
                if fails(c):
                    chk.fail("property oracle fails near a disagreeing case", c, oracle(c, run_impl(c)), ())
                    break
            if chk.failing:
                break
        chk.extra["search_cases"] = tried
    # shrink what was found (the replay carries the schedule string)
    if chk.failing:
        f0 = chk.failing[0]
        try:
            small = shrink(f0["case"], lambda c: bool(oracle(c, run_impl(c))))
            if small != f0["case"]:
                r = run_impl(small)
                chk.failing.insert(0, {"what": f0["what"] + " (shrunk)", "case": small,
                                       "observed": {"errors": oracle(small, r), "impl": impl_line(r),
                                                    "model": run_driver("C13.lean", [driver_line(small)])[0]},
                                       "signatures": []})
        except Exception as e:  # shrinking is best effort
            print("shrink failed:", e, file=sys.stderr)


if __name__ == "__main__":
    chk = Check(
        "C13", module="SleapVerif.Props.C13", theorems=THEOREMS,
        build_targets=["SleapVerif.Model.Reader", "SleapVerif.Lemmas.Reader"],
        trusted=[
            "Lean 4 kernel",
            "queue.Queue: put/get atomic, FIFO, put blocks iff full (maxsize>0), get blocks iff empty",
            "threading: Thread.join returns iff run() ended; interleaving semantics at put/get/read/join granularity",
            "harness shims: scheduler-controlled Queue subclass, fake video objects (raise at the injected position), "
            "stub network, instance-level wrappers of Thread.run/join",
            "model-implementation tie is by correspondence (sampled + all schedules for small parameters), not by proof",
        ],
        rule="case = reader kind × capacity × batch size × range × failing position × effective schedule; "
             "distinct = distinct tuple (payload tables not counted); corpus first, then every maximal schedule of "
             "the model for small parameters, then random parameters/schedule strings",
        assumptions=[
            "batch_size >= 1 (batch_size = 0 makes _predict_generator spin; outside the property)",
            "start/end are non-negative ints or None",
            "the consumer does not raise (a consumer-side exception leaves the reader blocked; outside the property)",
            "only the first read failure matters (the loop is left at the first exception)",
        ],
    )
    run_check(chk, main)
