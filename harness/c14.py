"""C14 — every valid model configuration yields outputs of the contracted shape; eval determinism.

Model: lean/SleapVerif/Model/Arch.lean (hand model of the stride / channel / size bookkeeping of
sleap_nn.architectures) + lean/SleapVerif/Gen/TranslatedArch.lean (regenerated here from the Python
AST by harness/py2lean.py).  Theorems: lean/SleapVerif/Props/C14.lean.

Correspondence: the REAL `sleap_nn.architectures.model.Model` is built for seeded grid points
(quick) / the factored grid (thorough) and run on tiny inputs; decoder strides, decoder filters,
head in_channels, every decoder stage's (stride, channels, h, w), every head's output shape and
the kind of exception (construction vs forward) are compared exactly with the Lean driver.
Eval-mode determinism / batch independence / call-history independence are floating-point
facts about torch kernels: exercised on the real modules and reported as *tests* in
evidence.extra (only the pooling-state part is a theorem).
"""
from __future__ import annotations

import itertools
import json
import os
import subprocess
import sys
import time

from common import LEAN, REPO, Check, call, import_repo, lst, run_check, run_driver
import py2lean

THEOREMS = [
    "SleapVerif.C14.scale_int_rate",
    "SleapVerif.C14.head_in_channels_eq_decoder_out",
    "SleapVerif.C14.selected_stride_eq_head_stride",
    "SleapVerif.C14.output_channels",
    "SleapVerif.C14.paf_channels_eq_two_len",
    "SleapVerif.C14.confmap_channels_eq_len",
    "SleapVerif.C14.paf_channels_no_dedup",
    "SleapVerif.C14.same_padding_preserves_size",
    "SleapVerif.C14.explicit_half_padding_grows_even_kernel",
    "SleapVerif.C14.stem_kernel_irrelevant",
    "SleapVerif.C14.arch_contract_stem_kernel",
    "SleapVerif.C14.stem_kernel_invalid_rejected",
    "SleapVerif.C14.enc_spatial_exact",
    "SleapVerif.C14.dec_spatial_exact",
    "SleapVerif.C14.output_spatial",
    "SleapVerif.C14.heads_independent",
    "SleapVerif.C14.head_contract_order_independent",
    "SleapVerif.C14.up_interpolate_irrelevant",
    "SleapVerif.C14.arch_grid_ok",
    "SleapVerif.C14.arch_grid_ok_partial",
    "SleapVerif.C14.arch_contract",
    "SleapVerif.C14.maxpool_state_irrelevant",
    "SleapVerif.C14.maxpool_state_counterexample",
    "SleapVerif.C14.call_history_irrelevant",
    "SleapVerif.C14.head_stride_eq_max_rejected",
    "SleapVerif.C14.arch_full_counterexample_convs_per_block",
    "SleapVerif.C14.arch_full_counterexample_wrapper_filters_rate",
    "SleapVerif.C14.arch_full_counterexample_wrapper_max_stride",
    "SleapVerif.C14.targets_shape_match",
    "SleapVerif.C14.arch_grid_full_false",
    "SleapVerif.C14.arch_middle_block_asIs_counterexample",
    "SleapVerif.C14.arch_wrapper_output_stride_asIs_counterexample",
    "SleapVerif.C14.offgrid_counterexample_raise",
    "SleapVerif.C14.offgrid_counterexample_size",
    "SleapVerif.C14.gen_calc_same_pad_pool",
    "SleapVerif.C14.gen_same_pad_gives_ceil_half",
    "SleapVerif.C14.gen_unet_blocks_eq_model",
    "SleapVerif.C14.gen_unet_blocks_pow2",
    "SleapVerif.C14.gen_block_filters_eq_model",
    "SleapVerif.C14.gen_dec_block_filters_is_model",
    "SleapVerif.C14.closed_form_ne_incremental",
    "SleapVerif.C14.arch_head_in_channels_counterexample",
]

RATES = {"1": (1, 1), "3/2": (3, 2), "2": (2, 1), "5/4": (5, 4), "7/4": (7, 4), "5/2": (5, 2)}
KINDS = ["single_instance", "centroid", "centered_instance", "bottomup"]
HEAD_NAMES = {"single_instance": ["SingleInstanceConfmapsHead"], "centroid": ["CentroidConfmapsHead"],
              "centered_instance": ["CenteredInstanceConfmapsHead"],
              "bottomup": ["MultiInstanceConfmapsHead", "PartAffinityFieldsHead"]}
VARIANTS = {"convnext": ["tiny", "small", "base", "large"], "swint": ["tiny", "small", "base"]}


# ------------------------------------------------------------------ configurations
def real_max_stride(c):
    return c["ms"] if c["fam"] == "unet" else c["stem"] * 8


def parts_of(c):
    """configured part list as ids (name = f"n{id}"; a repeated id is a repeated name)"""
    return list(c["part_ids"]) if "part_ids" in c else list(range(c["parts"]))


def edges_of(c):
    """configured edge list as (src id, dst id) pairs — may hold reversed and exact duplicates"""
    return [tuple(e) for e in c["edge_list"]] if "edge_list" in c else [(i, i + 1) for i in range(c["edges"])]


def head_list(c):
    """[(output_stride, channels)] in the order Model builds the heads; the contracted channel
    counts restated independently of the model: len(part_names) | 1 | 2 x len(edges) (of the LISTS as
    configured, no de-duplication — generate_pafs makes one field per listed edge)"""
    if c["kind"] == "centroid":
        return [(c["hos"], 1)]
    if c["kind"] == "bottomup":
        return [(c["hos"], len(parts_of(c))), (c["pos"], 2 * len(edges_of(c)))]
    return [(c["hos"], len(parts_of(c)))]


def head_specs(c):
    """the `head_configs` MAPPING for the Lean driver, in the mapping's own key order: `name spec` per
    entry; the model looks the entries up by name (`getHeads`) and computes the channel counts from the lists"""
    cm = f"confmaps c {c['hos']} " + lst(parts_of(c))
    if c["kind"] == "centroid":
        return [f"confmaps k {c['hos']}"]
    if c["kind"] == "bottomup":
        pf = f"pafs p {c['pos']} " + lst(edges_of(c), lambda e: f"{e[0]} {e[1]}")
        return [pf, cm] if c.get("pafs_first") else [cm, pf]
    return [cm]


def expected_by_name(c, B, h, w):
    """the contract PER HEAD NAME (independent of the model and of any position): each head's own config
    entry gives its stride and its channel count"""
    names = HEAD_NAMES[c["kind"]]
    return {name: (B, ch, h // os_, w // os_) for (os_, ch), name in zip(head_list(c), names)}


def doc_valid(c):
    """Documented validity — the SAME predicate as Lean `docValid` (Lemmas/ArchTable.lean), independent of
    the model's verdicts: backbone output_stride <= every head stride <= max_stride / 2 with the
    CONFIGURED max_stride (a head AT max_stride is an invalid configuration that must be rejected
    loudly: DESIGN §4 C14).  docs/config.md restricts neither filters_rate, convs_per_block,
    middle_block, the stem kernel nor the wrappers' max_stride, so none of them is a validity condition:
    configurations that fail there are judged by the oracle and routed through `known` findings."""
    return all(c["bos"] <= h and 2 * h <= c["ms"] for h, _ in head_list(c))


def in_grid(c):
    """the property's grid (Lean `inGrid`, plus the sampled conv-geometry dimensions); configurations
    outside it (UNet stem_stride >= 8: stem_stride >= max_stride is possible there) are
    correspondence-only"""
    return c["fam"] != "unet" or c["stem"] in (None, 2, 4)


def excluded_regions(c):
    """the regions Lean `supported` (and the stem-kernel window of `arch_contract_stem_kernel`) exclude —
    each one belongs to a `known` finding and is sampled with the property oracle"""
    r = []
    if c["fam"] == "unet":
        if c["cpb"] < 2 and (c["rate"] != "1" or c["stem"] is None):
            r.append("unet_convs_per_block_lt_2")
        # non-integer rate outside the Lean grid (filters {8,16,24,32,64} x rate 3/2 x max_stride <= 32, where the
        # tables prove the head arithmetic agrees): Model.__init__'s round/** may disagree with the decoder
        if RATES[c["rate"]][1] != 1 and not FIX["head"] and not (
                c["rate"] == "3/2" and c["filters"] in (8, 16, 24, 32, 64) and c["ms"] <= 32):
            r.append("head_in_channels_ne_decoder_filters")
    else:
        if c["rate"] != "2":
            r.append("wrapper_filters_rate_ne_2")
        if c["ms"] != 8 * c["stem"]:
            r.append("wrapper_max_stride_ignored")
        if not (2 < c.get("stem_kernel", 4) <= c["stem"] + 2):
            r.append("wrapper_stem_kernel_geometry")
    return r


def known_region(c):
    """configuration lies in a region excluded because of a finding that is still `known`"""
    return bool(excluded_regions(c))


def signatures(c, info=None, made=()):
    """Narrow structural predicates of the C14 findings: the configuration lies in the finding's
    region AND the observed failure is the finding's failure mode.  Any other oracle failure on
    such a configuration (wrong shape, channels, batch, non-finite, target mismatch, another
    exception) matches nothing and is an ordinary VIOLATION."""
    status, exc = (info or {}).get("status"), (info or {}).get("exc")
    fwd_runtime = status == "fwd-raise" and exc == "RuntimeError"
    regions = excluded_regions(c)
    s = []
    if "unet_convs_per_block_lt_2" in regions and fwd_runtime:
        s.append("unet_convs_per_block_lt_2")
    if "head_in_channels_ne_decoder_filters" in regions and fwd_runtime and (info or {}).get("head_mismatch"):
        s.append("head_in_channels_ne_decoder_filters")
    if "wrapper_filters_rate_ne_2" in regions and fwd_runtime:
        s.append("wrapper_filters_rate_ne_2")
    if "wrapper_stem_kernel_geometry" in regions and fwd_runtime:
        s.append("wrapper_stem_kernel_geometry")
    if "wrapper_max_stride_ignored" in regions and status in ("fwd-raise", "construct-raise"):
        S = 8 * c["stem"]
        size_off = any(h % S or w % S for h, w in made)
        head_off = any(2 * h > S for h, _ in head_list(c))
        if (fwd_runtime and size_off) or (exc == "ValueError" and head_off):
            s.append("wrapper_max_stride_ignored")
    # signatures of the two FIXED findings (suppress nothing; kept for the evidence histogram)
    if c["fam"] == "unet" and not c["mid"] and c["rate"] != "1" and fwd_runtime:
        s.append("unet_no_middle_block")
    if c["fam"] != "unet" and c["bos"] > c["stem"] and fwd_runtime:
        s.append("wrapper_output_stride_gt_stem")
    return s


def model_line(c, calls):
    p, q = RATES[c["rate"]]
    var = VARIANTS[c["fam"]].index(c["variant"]) if c["fam"] != "unet" else 0
    hl = head_specs(c)
    return (f"model {c['fam']} {var} {c['filters']} {p} {q} {c['ms']} {c['bos']} {c['stem'] or 0} {c['cpb']} "
            f"{int(c['mid'])} {int(c['upi'])} 1 {int(FIX['mid'])} {int(FIX['wrap'])} {c.get('stem_kernel', 4)} {int(FIX['head'])} {int(c['kind'] == 'bottomup')} " + lst(hl) + " "
            + lst(calls, lambda hw: f"{hw[0]} {hw[1]}"))


def cost(c):
    """rough number of channels at the bottleneck (drives construction time)"""
    if c["fam"] != "unet":
        return {"tiny": 768, "small": 900, "base": 1400, "large": 2500}[c["variant"]]
    p, q = RATES[c["rate"]]
    D = c["ms"].bit_length() - 1
    return c["filters"] * p ** D // q ** D


def gen_cfg(rng, fam=None, small=True):
    fam = fam or rng.choice(["unet"] * 6 + ["convnext", "swint"])
    kind = rng.choice(KINDS)
    n_parts = rng.choice([1, 2, 3, 5, 13])
    part_ids = list(range(n_parts))
    if rng.random() < 0.25:  # repeated part names (the heads accept any list)
        part_ids = [rng.randrange(max(1, n_parts - 1)) for _ in range(n_parts)]
    n_nodes = max(n_parts, 2)
    edge_list = [(i, i + 1) for i in range(rng.choice([1, 2, 4]))] if rng.random() < 0.4 else \
        [tuple(rng.sample(range(max(n_nodes, 3)), 2)) for _ in range(rng.choice([1, 2, 3, 5]))]
    if rng.random() < 0.6:  # reversed duplicates, exact duplicates, shuffled (never self-loops)
        for e in rng.sample(edge_list, rng.randrange(1, len(edge_list) + 1)):
            edge_list.append((e[1], e[0]) if rng.random() < 0.6 else e)
        rng.shuffle(edge_list)
    c = dict(fam=fam, kind=kind, parts=n_parts, edges=len(edge_list), part_ids=part_ids,
             edge_list=[list(e) for e in edge_list],
             cpb=rng.choice([1, 2, 2, 2, 3]), upi=rng.random() < 0.6, mid=rng.random() < 0.8,
             rate=rng.choice(["1", "3/2", "2", "2"]), filters=0, variant="", float_rate=rng.random() < 0.2)
    c["pafs_first"] = kind == "bottomup" and rng.random() < 0.5  # key order of the head_configs mapping
    c["kernel"] = rng.choice([3, 3, 3, 1, 2, 4, 5, 2, 4])  # conv geometry: every k >= 1 is valid ("same" padding)
    if fam == "unet":
        c["filters"] = rng.choice([8, 16, 24, 32, 64])
        c["ms"] = rng.choice([8, 16, 32])
        c["stem"] = rng.choice([None, None, 2, 4])
        if rng.random() < 0.06:  # outside the grid: stem_stride >= 8, possibly >= max_stride (negative down_blocks)
            c["stem"] = rng.choice([8, 16])
            c["float_rate"] = False  # model assumption there: an integer-valued rate is a Python int
        if rng.random() < 0.3:  # truncation compounds: non-integer rate x small / odd filters x deep encoders
            c["rate"] = rng.choice(["3/2", "3/2", "5/4", "7/4", "5/2"])
            c["filters"] = rng.choice([4, 5, 6, 7, 9, 10, 12, 20, 24])
            c["ms"] = rng.choice([16, 32, 64, 64])
            c["float_rate"] = False
            while cost(c) > 1500:
                c["ms"] //= 2
            small = False
        S = c["ms"]
    else:
        c["variant"] = rng.choice(VARIANTS[fam][:2] if small else VARIANTS[fam])
        c["stem"] = rng.choice([2, 4])
        S = c["stem"] * 8
        c["ms"] = rng.choice([S, S, 16, 32])  # config.max_stride is ignored by the wrappers
        c["stem_kernel"] = rng.choice([4, 4, 4, 3, 5, 6, 2, 7])  # stem_patch_kernel / patch_size
        c["mid"] = True
        if rng.random() < 0.75:
            c["rate"] = "2"
    strides = [s for s in (1, 2, 4, 8, 16, 32, 64) if s <= S]
    mode = rng.random()
    if mode < 0.7:  # documented-valid stride combination
        ok = [s for s in strides if 2 * s <= S]
        c["bos"] = rng.choice(ok)
        c["hos"] = rng.choice([s for s in ok if s >= c["bos"]])
        c["pos"] = rng.choice([s for s in ok if s >= c["bos"]])
        if rng.random() < 0.5:  # backbone stride = min head stride (what the trainer does)
            c["bos"] = min(c["hos"], c["pos"]) if kind == "bottomup" else c["hos"]
    else:
        c["bos"], c["hos"], c["pos"] = (rng.choice(strides) for _ in range(3))
    if small and cost(c) > 700 and fam == "unet":
        c["filters"] = 8
    return c


def grid_unet(full_dims):
    """the factored UNet table of `arch_grid_ok` (bookkeeping dimensions)"""
    for f, r, ms, stem in itertools.product([8, 16, 24, 32, 64], ["1", "3/2", "2"], [8, 16, 32], [None, 2, 4]):
        for bos, hos in itertools.product([1, 2, 4, 8, 16, 32], repeat=2):
            if bos <= ms and hos <= ms:
                for cpb, mid, upi in full_dims:
                    yield dict(fam="unet", kind="single_instance", parts=3, edges=1, cpb=cpb, upi=upi, mid=mid,
                               rate=r, filters=f, variant="", float_rate=False, ms=ms, stem=stem, bos=bos,
                               hos=hos, pos=hos)


def grid_wrap():
    """the factored ConvNeXt / Swin tables of `arch_grid_ok` (`tableWrap`), every variant"""
    for fam in ("convnext", "swint"):
        for variant, sps in itertools.product(VARIANTS[fam], [2, 4]):
            S = 8 * sps
            for bos, hos in itertools.product([1, 2, 4, 8, 16], repeat=2):
                if bos <= hos and 2 * hos <= S:
                    yield dict(fam=fam, kind="centroid", parts=1, edges=1, cpb=2, upi=False, mid=True, rate="2",
                               filters=0, variant=variant, float_rate=False, ms=S, stem=sps, bos=bos, hos=hos, pos=hos)


# ------------------------------------------------------------------ implementation side
def build_real(c):
    from omegaconf import OmegaConf

    p, q = RATES[c["rate"]]
    rate = p / q if (q != 1 or c.get("float_rate")) else p
    if c["fam"] == "unet":
        bc = dict(in_channels=1, kernel_size=c.get("kernel", 3), filters=c["filters"], filters_rate=rate, max_stride=c["ms"],
                  convs_per_block=c["cpb"], stacks=1, stem_stride=c["stem"], middle_block=c["mid"],
                  up_interpolate=c["upi"], output_stride=c["bos"])
    elif c["fam"] == "convnext":
        bc = dict(in_channels=1, model_type=c["variant"], arch=None, kernel_size=c.get("kernel", 3), filters_rate=rate,
                  convs_per_block=c["cpb"], up_interpolate=c["upi"], stem_patch_kernel=c.get("stem_kernel", 4),
                  stem_patch_stride=c["stem"], output_stride=c["bos"], max_stride=c["ms"])
    else:
        bc = dict(in_channels=1, model_type=c["variant"], arch=None,
                  patch_size=[c.get("stem_kernel", 4), c.get("stem_kernel", 4)], window_size=[7, 7],
                  kernel_size=c.get("kernel", 3), filters_rate=rate, convs_per_block=c["cpb"], up_interpolate=c["upi"],
                  stem_patch_stride=c["stem"], output_stride=c["bos"], max_stride=c["ms"])
    parts = [f"n{i}" for i in parts_of(c)]
    if c["kind"] == "centroid":
        hc = {"confmaps": dict(anchor_part=None, sigma=2.0, output_stride=c["hos"], loss_weight=1.0)}
    else:
        cm = dict(part_names=parts, sigma=2.0, output_stride=c["hos"], loss_weight=1.0)
        if c["kind"] == "centered_instance":
            cm["anchor_part"] = None
        hc = {"confmaps": cm}
        if c["kind"] == "bottomup":
            hc["pafs"] = dict(edges=[[f"n{u}", f"n{v}"] for u, v in edges_of(c)], sigma=4.0,
                              output_stride=c["pos"], loss_weight=1.0)
            if c.get("pafs_first"):  # the mapping's key order is the user's: `pafs` may come before `confmaps`
                hc = {"pafs": hc["pafs"], "confmaps": hc["confmaps"]}
    from sleap_nn.architectures.model import Model

    # the public construction path, with DictConfig mappings as the trainer passes them
    return Model.from_config(backbone_type=c["fam"], backbone_config=OmegaConf.create(bc),
                             head_configs=OmegaConf.create(hc), input_expand_channels=1, model_type=c["kind"])


def norm(s):
    return " ".join(s.split())


# The model is always run with both fix flags ON: that is what /repo's HEAD does (24db0b1, e4cd03e) and
# what the theorems are about.  A tree in which a fix is reverted disagrees with the model and fails
# the oracle on the repaired region; the `fixed` entries' witnesses are replayed as regressions.
# `head`: fixes/C14-head-in-channels.patch = /repo commit c60aeeb, forced ON like the other two.
FIX = {"mid": True, "wrap": True, "head": True}


def detect_fixes():
    """Report (evidence only) whether the tree under test still carries the two C14 fixes."""
    det = {"mid": None, "wrap": None}
    m = call(build_real, WITNESSES["F-C14-middle-block"])
    if m[0] == "ok":
        det["mid"] = (m[1].backbone.dec.x_in_shape, m[1].backbone.max_channels) == (32, 64)
    m = call(build_real, WITNESSES["F-C14-wrapper-output-stride"])
    if m[0] == "ok":
        det["wrap"] = list(m[1].backbone.dec.current_strides) == [8, 4]
    m = call(build_real, WITNESSES["F-C14-head-in-channels"])
    if m[0] == "ok":
        det["head"] = [hl[0].in_channels for hl in m[1].head_layers] == [20]
    return det


def canon_exc(r):
    cls, msg = r[1], r[2]
    if cls == "ValueError" and msg.endswith("is not in list"):
        return f"ValueError {msg.split()[0]}"
    return cls


def impl_run(c, calls, B=1, seed=0):
    """Build the real Model, run the call history.  -> (canonical line, calls actually made, info)"""
    import torch

    r = call(build_real, c)
    if r[0] == "raise":
        return "construct-raise " + canon_exc(r), calls, {"status": "construct-raise", "exc": r[1]}
    m = r[1]
    m.eval()
    dec = m.backbone.dec
    head = ("built L " + lst(dec.current_strides) + " O " + lst(int(b.refine_convs_filters) for b in dec.decoder_stack)
            + " I " + lst(hl[0].in_channels for hl in m.head_layers))
    # every block's declared channels by module introspection: UNet encoder convs (in, out), and per decoder
    # block the first refine conv's in_channels and the ConvTranspose2d's channels (0 under up_interpolate)
    enc_io, dec_io = [], []
    if c["fam"] == "unet":
        for blk in m.backbone.enc.encoder_stack:
            for layer in getattr(blk, "blocks", []):
                if isinstance(layer, torch.nn.Conv2d):
                    enc_io += [layer.in_channels, layer.out_channels]
    for blk in dec.decoder_stack:
        convs = [l for l in blk.blocks if isinstance(l, torch.nn.Conv2d)]
        tconv = [l for l in blk.blocks if isinstance(l, torch.nn.ConvTranspose2d)]
        dec_io += [convs[0].in_channels if convs else 0, tconv[0].in_channels if tconv else 0]
    head += " E " + lst(enc_io) + " C " + lst(dec_io)
    # structural fact used by the signature of F-C14-head-in-channels: a head layer sized differently
    # from the decoder block it reads
    strides_, outs_ = list(dec.current_strides), [int(b.refine_convs_filters) for b in dec.decoder_stack]
    head_mismatch = any(hd.output_stride in strides_ and hl[0].in_channels != outs_[strides_.index(hd.output_stride)]
                        for hd, hl in zip(m.heads, m.head_layers))
    cap = {}
    hook = m.backbone.register_forward_hook(lambda mod, i, o: cap.__setitem__("o", o))
    g = torch.Generator().manual_seed(seed)
    res, made = None, []
    for (h, w) in calls:
        cap.clear()
        made.append((h, w))
        x = torch.rand(B, 1, h, w, generator=g)
        with torch.no_grad():
            res = call(m, x)
        if res[0] == "raise":
            break  # later calls would see partially flipped pooling state: the history ends here
    hook.remove()
    info = {"status": "ok", "model": m, "head_mismatch": head_mismatch}
    if res is None:
        return head, made, info
    if res[0] == "raise":
        info["status"] = "fwd-raise"
        info["exc"] = res[1]
        return head + " | fwd-raise " + canon_exc(res), made, info
    z = res[1]
    o = cap["o"]
    stages = [f"{s} {t.shape[1]} {t.shape[2]} {t.shape[3]}" for s, t in zip(o["strides"], o["outputs"])]
    outs = [f"{v.shape[1]} {v.shape[2]} {v.shape[3]}" for v in z.values()]
    info["out"] = {k: tuple(v.shape) for k, v in z.items()}
    info["batch_ok"] = all(v.shape[0] == B for v in z.values())
    info["finite"] = all(bool(torch.isfinite(v).all()) for v in z.values())
    return (head + " | ok G " + f"{len(stages)} " + " ".join(stages) + " H " + f"{len(outs)} " + " ".join(outs),
            made, info)


FRAME_CONTENTS = ["two_instances", "empty", "all_nan"]


def target_shapes(c, h, w):
    """Shapes (without the sample axis) the REAL data pipeline produces for the heads' targets, through
    the functional API (generate_confmaps / generate_multiconfmaps / generate_pafs) and through the
    legacy IterDataPipe generators, for frames with two instances, with NO instance (a labelled
    negative frame) and with all-NaN instances.  -> [(label, head index, shape | 'raise:<Class>')]"""
    import torch
    from sleap_nn.data.confidence_maps import (ConfidenceMapGenerator, MultiConfidenceMapGenerator,
                                               generate_confmaps, generate_multiconfmaps)
    from sleap_nn.data.edge_maps import PartAffinityFieldsGenerator, generate_pafs

    out = []

    def rec(label, head, fn):
        r = call(fn)
        out.append((label, head, tuple(r[1]) if r[0] == "ok" else "raise:" + r[1]))

    n = len(parts_of(c))
    img = torch.zeros(1, 1, h, w)
    hos = c["hos"]
    for content in FRAME_CONTENTS:
        k = 0 if content == "empty" else 2
        nan = content == "all_nan"
        if c["kind"] in ("single_instance", "centered_instance"):
            if content == "empty":
                continue  # these heads always get exactly one instance
            inst = torch.full((1, n, 2), float("nan")) if nan else torch.rand(1, n, 2) * min(h, w)
            rec(f"generate_confmaps/{content}", 0, lambda: generate_confmaps(inst, (h, w), 2.0, hos).shape[1:])
            key = "instance" if c["kind"] == "centered_instance" else "instances"
            ex = {"image": img, key: inst if key == "instance" else inst.unsqueeze(1)}
            rec(f"ConfidenceMapGenerator/{content}", 0,
                lambda: next(iter(ConfidenceMapGenerator([ex], sigma=2.0, output_stride=hos, instance_key=key)))[
                    "confidence_maps"].shape[1:])
        elif c["kind"] == "centroid":
            cen = torch.full((1, k, 2), float("nan")) if nan else torch.rand(1, k, 2) * min(h, w)
            rec(f"generate_multiconfmaps(centroids)/{content}", 0,
                lambda: generate_multiconfmaps(cen, (h, w), k, 2.0, hos, is_centroids=True).shape[1:])
            ex = {"image": img, "centroids": cen, "num_instances": k}
            rec(f"MultiConfidenceMapGenerator(centroids)/{content}", 0,
                lambda: next(iter(MultiConfidenceMapGenerator([ex], sigma=2.0, output_stride=hos, centroids=True)))[
                    "centroids_confidence_maps"].shape[1:])
        else:
            E = edges_of(c)  # the list as configured: generate_pafs makes one field per listed edge
            nn = max([n] + [max(e) + 1 for e in E])
            inst = torch.full((1, k, nn, 2), float("nan")) if nan else torch.rand(1, k, nn, 2) * (min(h, w) - 2) + 1
            ei = torch.tensor(E)
            rec(f"generate_multiconfmaps/{content}", 0,
                lambda: generate_multiconfmaps(inst[:, :, :n], (h, w), k, 2.0, hos).shape[1:])
            ex = {"image": img, "instances": inst[:, :, :n], "num_instances": k}
            rec(f"MultiConfidenceMapGenerator/{content}", 0,
                lambda: next(iter(MultiConfidenceMapGenerator([ex], sigma=2.0, output_stride=hos, centroids=False)))[
                    "confidence_maps"].shape[1:])
            rec(f"generate_pafs/{content}", 1,
                lambda: generate_pafs(inst, (h, w), 4.0, c["pos"], edge_inds=ei, flatten_channels=True).shape)
            ex2 = {"image": img, "instances": inst}
            rec(f"PartAffinityFieldsGenerator/{content}", 1,
                lambda: next(iter(PartAffinityFieldsGenerator([ex2], sigma=4.0, output_stride=c["pos"], edge_inds=ei,
                                                              flatten_channels=True)))["part_affinity_fields"].shape)
    return out


def oracle(c, calls, made, info, B):
    """Property C14 on the implementation's observable output, independent of the Lean model.
    (a) a documented-valid configuration must build and run on inputs that are multiples of the
        max stride;  (b) whenever forward succeeds the dict has one entry per head with the
        contracted shape (B, channels, H / stride, W / stride) = shape of the pipeline's targets."""
    S = c["ms"]  # the CONFIGURED max_stride: what the property and the data pipeline's padding refer to
    on_grid = all(h % S == 0 and w % S == 0 and h > 0 and w > 0 for h, w in made)
    if info["status"] == "construct-raise":
        # construction does not depend on the input size: judged regardless of on_grid
        if doc_valid(c) and in_grid(c):
            return f"valid configuration raised at construction ({info.get('exc')})"
        return None
    if not on_grid and info["status"] != "ok":
        info["offgrid"] = info["status"]
    if info["status"] != "ok":
        if doc_valid(c) and in_grid(c) and on_grid:
            return f"valid configuration raised ({info['status']} {info.get('exc')})"
        return None
    if "out" not in info:
        return None
    h, w = made[-1]
    names = HEAD_NAMES[c["kind"]]
    if list(info["out"].keys()) != names:
        return f"output keys {list(info['out'].keys())} != {names}"
    if not on_grid:
        # EXCLUDED REGION (sizes that are not multiples of the max stride; no theorem speaks here,
        # see offgrid_counterexample_*): size-agnostic oracle only — one entry per head with the
        # head's channel count, batch kept, finite; the size class is recorded for the evidence.
        cls = "ok_floor"
        for (os_, ch), name in zip(head_list(c), names):
            sh = info["out"][name]
            if sh[1] != ch:
                return f"{name}: {sh[1]} channels != {ch} (off-grid input)"
            if (sh[2], sh[3]) != (h // os_, w // os_):
                cls = "ok_other_size"
        info["offgrid"] = cls
        if not info["batch_ok"] or not info["finite"]:
            return "batch dimension changed or non-finite output (off-grid input)"
        return None
    for name, want in expected_by_name(c, B, h, w).items():  # shape clause per head NAME
        if info["out"][name] != want:
            return f"{name}: shape {info['out'][name]} != contracted {want}"
    # "the same shape the data pipeline produces for that head's targets": every entry point, also for
    # frames without instances and with all-NaN instances (a pipeline call that raises is counted, not judged)
    for label, i, shape in target_shapes(c, h, w):
        if isinstance(shape, str):
            info.setdefault("target_raises", []).append(label + ":" + shape)
            continue
        if tuple(info["out"][names[i]][1:]) != tuple(shape):
            return (f"{names[i]}: output shape {info['out'][names[i]][1:]} != target shape {tuple(shape)} "
                    f"produced by {label} for a {h}x{w} image")
    if not info["batch_ok"] or not info["finite"]:
        return "batch dimension changed or non-finite output"
    return None


NUMERIC_FIXED = [  # one per backbone family: the numeric clause is never left to the random stream
    dict(fam="unet", kind="bottomup", parts=3, edges=2, cpb=2, upi=True, mid=True, rate="2", filters=8,
         variant="", float_rate=False, ms=16, stem=None, bos=2, hos=2, pos=4),
    dict(fam="convnext", kind="centroid", parts=1, edges=1, cpb=2, upi=True, mid=True, rate="2", filters=0,
         variant="tiny", float_rate=False, ms=16, stem=2, bos=2, hos=2, pos=2),
    dict(fam="swint", kind="single_instance", parts=2, edges=1, cpb=2, upi=False, mid=True, rate="2",
         filters=0, variant="tiny", float_rate=False, ms=16, stem=2, bos=4, hos=4, pos=4)]

FRAME_KINDS = ["unit", "raw255", "uint8like", "negative", "large", "const0", "const1", "const255", "constneg"]


def make_frame(kind, seed, h, w):
    """one (1, 1, h, w) float32 frame, rebuilt exactly from (kind, seed, h, w)"""
    import torch

    g = torch.Generator().manual_seed(seed)
    if kind == "unit":
        return torch.rand(1, 1, h, w, generator=g)
    if kind == "raw255":
        return torch.rand(1, 1, h, w, generator=g) * 255.0
    if kind == "uint8like":
        return torch.randint(0, 256, (1, 1, h, w), generator=g).float()
    if kind == "negative":
        return torch.randn(1, 1, h, w, generator=g) * 3.0 - 1.0
    if kind == "large":
        return torch.rand(1, 1, h, w, generator=g) * 1.0e4
    return torch.full((1, 1, h, w), {"const0": 0.0, "const1": 1.0, "const255": 255.0, "constneg": -2.5}[kind])


def batch_independence_tests(c, rng, tol=1e-4):
    """NUMERIC CLAUSE of C14 (a test, not a theorem): in eval mode the output for a frame must not
    depend on its batch-mates.  Mixed-range batches: a frame alone vs inside batches whose other
    frames have different value ranges (normalised [0,1], raw 0..255, integer-valued, negative,
    large, constant), at every position, and permuted.  Tolerance `tol * max(1, max|y_alone|)` with
    tol = 1e-4 (observed noise on the unchanged tree <= 7e-7; a batch-dependent rescaling gives >= 3e-2).
    -> (list of failures, each with the concrete batch spec; stats)"""
    import torch

    m = build_real(c)
    m.eval()
    S = real_max_stride(c)
    h, w = S * rng.choice([1, 2]), S * rng.choice([1, 1, 2])
    specs = {k: (k, rng.randrange(2 ** 31), h, w) for k in FRAME_KINDS}
    frames = {k: make_frame(*specs[k]) for k in FRAME_KINDS}
    fails, worst, n = [], 0.0, 0

    def rel(a, b):
        d = 0.0
        for k in a:
            scale = max(1.0, float(a[k].abs().max()))
            d = max(d, float((a[k] - b[k]).abs().max()) / scale)
        return d

    with torch.no_grad():
        m(frames["unit"])  # put the pooling layers in their steady state first
        alone = {k: m(frames[k]) for k in FRAME_KINDS}
        targets = ["unit", "unit", "const1"] + rng.sample(FRAME_KINDS, 3)
        for t in targets:
            mates = rng.sample([k for k in FRAME_KINDS if k != t], 2)
            if t in ("unit", "const1", "const0") and not set(mates) & {"raw255", "uint8like", "large", "const255"}:
                mates[0] = rng.choice(["raw255", "uint8like", "large", "const255"])
            for order in ([t, mates[0]], [mates[0], t], [mates[0], t, mates[1]], [mates[1], mates[0], t]):
                y = m(torch.cat([frames[k] for k in order], 0))
                i = order.index(t)
                d = rel(alone[t], {k: v[i:i + 1] for k, v in y.items()})
                n += 1
                worst = max(worst, d)
                if not d <= tol:
                    fails.append({"target_frame": t, "position": i, "batch": [list(specs[k]) for k in order],
                                  "relative_deviation": d,
                                  "frame_ranges": {k: [float(frames[k].min()), float(frames[k].max())] for k in order}})
        # permutation equivariance of a whole mixed batch
        order = rng.sample(FRAME_KINDS, 3)
        perm = [order[2], order[0], order[1]]
        ya, yb = m(torch.cat([frames[k] for k in order], 0)), m(torch.cat([frames[k] for k in perm], 0))
        d = rel({k: v[[2, 0, 1]] for k, v in ya.items()}, yb)
        n += 1
        worst = max(worst, d)
        if not d <= tol:
            fails.append({"target_frame": "permutation", "batch": [list(specs[k]) for k in order],
                          "permuted": [list(specs[k]) for k in perm], "relative_deviation": d})
    return fails, {"comparisons": n, "worst_relative_deviation": worst}


def determinism_tests(c, rng, tol=1e-5):
    """eval-mode determinism, call-history independence, batch independence on the real module
    (tests, not theorems).  -> list of failure strings"""
    import torch

    m = build_real(c)
    m.eval()
    S = real_max_stride(c)
    g = torch.Generator().manual_seed(rng.randrange(2 ** 31))
    x = torch.rand(1, 1, S * rng.choice([1, 2]), S * rng.choice([1, 2]), generator=g)
    others = [torch.rand(rng.choice([1, 2]), 1, S * rng.choice([1, 2, 3]), S * rng.choice([1, 2, 3]), generator=g)
              for _ in range(2)]
    mate = torch.rand(2, 1, x.shape[2], x.shape[3], generator=g)
    fails = []

    def dev(a, b):  # relative to the output magnitude
        return max(float((a[k] - b[k]).abs().max()) / max(1.0, float(a[k].abs().max())) for k in a)

    with torch.no_grad():
        y0 = m(x)           # first call: pools in the "same" state
        y1 = m(x)           # second call: pools in the 0-padding state
        for o in others:
            m(o)
        y2 = m(x)           # after calls of other sizes / batch sizes
        yb = m(torch.cat([mate[:1], x, mate[1:]], 0))
        yb1 = {k: v[1:2] for k, v in yb.items()}
        m2 = build_real(c)
        m2.load_state_dict(m.state_dict())
        m2.eval()
        y3 = m2(x)          # a fresh module with the same weights
    d = {"repeat": dev(y0, y1), "history": dev(y0, y2), "batch": dev(y0, yb1), "fresh_module": dev(y0, y3)}
    for k, v in d.items():
        if not v <= tol:
            fails.append(f"{k}: max relative deviation {v:.3g} > {tol}")
    return fails, d


# ------------------------------------------------------------------ one case
def run_case(chk, c, calls, B, tags, model_out=None):
    line, made, info = impl_run(c, calls, B)
    m = model_out if (model_out is not None and made == calls) else run_driver("C14.lean", [model_line(c, made)])[0]
    line, m = norm(line), norm(m)
    valid = doc_valid(c)
    key = json.dumps({k: c[k] for k in sorted(c) if k != "float_rate"}, sort_keys=True) + str(made)
    chk.case(key, {"cfg": {k: v for k, v in c.items()}, "calls": made, "impl": line, "model": m},
             tags=list(tags) + [c["fam"], "docvalid" if valid else "invalid", info["status"]])
    case = {"cfg": c, "calls": made, "B": B}
    if line != m:
        chk.disagree("Model(...) construction/forward bookkeeping == Arch.construct/forward", case, line, m)
    why = oracle(c, calls, made, info, B)
    if "offgrid" in info:
        chk.tag("excluded_region(offgrid):" + info["offgrid"])
    if why:
        sigs = signatures(c, info, made)
        chk.fail(f"C14 fails: {why}", case, line, sigs)
        chk.tag("oracle_fail:" + ",".join(sigs or ["UNLISTED"]))
    info.pop("model", None)
    return why


def pick_calls(rng, c, kind):
    S = real_max_stride(c)
    if c["fam"] != "unet" and c["ms"] != S and kind != "offgrid" and rng.random() < 0.6:
        S = c["ms"]  # multiples of the CONFIGURED max_stride (which the wrappers ignore)
    if kind == "single":
        return [(S * rng.choice([1, 2, 2, 3]), S * rng.choice([1, 2, 2, 3]))]
    if kind == "history":
        return [(S * rng.choice([1, 2, 3]), S * rng.choice([1, 2, 3])) for _ in range(rng.choice([2, 3]))]
    # off-grid: sizes that are not multiples of the max stride (outside the property's domain;
    # still a correspondence obligation: the model predicts the raise / the sizes)
    n = rng.choice([2, 3])
    return [(rng.randrange(S, 3 * S + 1), rng.randrange(S, 3 * S + 1)) for _ in range(n)][-rng.choice([1, n]):]


WITNESSES = {
    "F-C14-middle-block": dict(fam="unet", kind="single_instance", parts=3, edges=1, cpb=2, upi=True, mid=False,
                               rate="2", filters=8, variant="", ms=8, stem=None, bos=2, hos=2, pos=2),
    "F-C14-convs-per-block": dict(fam="unet", kind="single_instance", parts=3, edges=1, cpb=1, upi=True, mid=True,
                                  rate="2", filters=8, variant="", ms=8, stem=None, bos=2, hos=2, pos=2),
    "F-C14-wrapper-output-stride": dict(fam="swint", kind="centroid", parts=1, edges=1, cpb=2, upi=True, mid=True,
                                        rate="2", filters=0, variant="tiny", ms=16, stem=2, bos=4, hos=4, pos=4),
    "F-C14-head-in-channels": dict(fam="unet", kind="single_instance", parts=3, edges=1, cpb=2, upi=True, mid=True,
                                   rate="3/2", filters=4, variant="", ms=32, stem=None, bos=8, hos=16, pos=16),
    "F-C14-wrapper-filters-rate": dict(fam="swint", kind="centroid", parts=1, edges=1, cpb=2, upi=True, mid=True,
                                       rate="3/2", filters=0, variant="tiny", ms=16, stem=2, bos=2, hos=2, pos=2),
    "F-C14-wrapper-max-stride": dict(fam="convnext", kind="centroid", parts=1, edges=1, cpb=2, upi=True, mid=True,
                                     rate="2", filters=0, variant="tiny", ms=16, stem=4, bos=4, hos=4, pos=4,
                                     input=(16, 16)),
    "F-C14-wrapper-stem-kernel": dict(fam="convnext", kind="centroid", parts=1, edges=1, cpb=2, upi=True, mid=True,
                                      rate="2", filters=0, variant="tiny", ms=16, stem=2, bos=2, hos=2, pos=2,
                                      stem_kernel=2),
}


def _worker(args):
    c, calls, B = args
    import_repo()  # spawn-ed worker: fresh interpreter
    import torch

    torch.set_num_threads(1)
    line, made, info = impl_run(c, calls, B)
    why = oracle(c, calls, made, info, B)
    return (line, made, info["status"] + ("|offgrid:" + info["offgrid"] if "offgrid" in info else ""), why,
            signatures(c, info, made) if why else [])


# ------------------------------------------------------------------ main
def main(chk: Check):
    # (0) regenerate the translated file from the Python source that is being checked
    changed, problems = py2lean.sync(REPO, LEAN)
    chk.extra["translator"] = {"regenerated": changed, "problems": problems,
                               "targets": [f"{t['cls']}.{t['func']}" for t in py2lean.TARGETS]}
    if problems:
        chk.broken.append("py2lean: source left the supported fragment (gen_* obligations not re-established): "
                          + "; ".join(problems))
    chk.build_and_audit()
    if problems and not chk.no_build:  # the gen_* theorems checked are about a stale generated file
        chk.discharged = max(0, chk.discharged - sum(1 for t in THEOREMS if ".gen_" in t))
    import_repo()
    import torch

    rng = chk.rng
    torch.manual_seed(rng.randrange(2 ** 31))
    chk.extra["fixes_detected_in_tree"] = detect_fixes()
    t_budget = time.time() + (150 if not chk.thorough else 1500)

    # (1) generated definitions vs the real Python functions
    from sleap_nn.architectures.common import MaxPool2dWithSamePadding
    from sleap_nn.architectures.unet import UNet

    mp = MaxPool2dWithSamePadding(kernel_size=2, stride=2, padding="same")
    lines, impl = [], []
    for _ in range(chk.n(150, 1500)):
        i, k, s, d = rng.randrange(1, 200), rng.choice([2, 2, 3, 5]), rng.choice([1, 2, 2, 3, 4]), rng.choice([1, 1, 2])
        lines.append(f"pad {i} {k} {s} {d}")
        r = call(mp._calc_same_pad, i, k, s, d)
        impl.append(str(r[1]) if r[0] == "ok" else "raise " + r[1])
    # torch's padding="same" (stride 1): the modelling assumption behind `same_padding_preserves_size`
    for k in range(1, 8):
        conv = torch.nn.Conv2d(1, 1, kernel_size=k, stride=1, padding="same")
        for n in sorted({1, 2, 3, 8, rng.randrange(4, 40), rng.randrange(4, 40)}):
            with torch.no_grad():
                r = call(lambda: conv(torch.zeros(1, 1, n, n + 1)).shape)
            lines.append(f"sameconv {n} {k}")
            impl.append(f"{r[1][2]}" if r[0] == "ok" else "raise")
    # generated filter-count definitions vs the REAL Encoder / Decoder modules, at points where truncation compounds
    from sleap_nn.architectures.encoder_decoder import Decoder, Encoder
    for f, rate, stem, down in ((4, "3/2", 0, 5), (6, "3/2", 1, 4), (10, "3/2", 2, 3), (8, "3/2", 0, 6), (24, "3/2", 2, 4),
                                (5, "5/4", 0, 5), (7, "7/4", 1, 3), (6, "5/2", 0, 4), (rng.choice([4, 9, 12, 20]),
                                 rng.choice(["3/2", "5/4", "7/4"]), rng.choice([0, 1, 2]), rng.choice([3, 4]))):
        p_, q_ = RATES[rate]
        r = call(lambda: Encoder(in_channels=1, filters=f, down_blocks=down, filters_rate=p_ / q_, stem_blocks=stem))
        if r[0] == "ok":
            blocks = [b for b in r[1].encoder_stack if hasattr(b, "num_convs")][:stem + down]
            for i, b in enumerate(blocks):
                which, blk = ("stem", i) if i < stem else ("down", i - stem)
                lines.append(f"gfilt {which} {f} {p_} {q_} {blk} {stem} {down}")
                impl.append(str(int(b.filters)))
        up = stem + down - 1
        r = call(lambda: Decoder(x_in_shape=8, output_stride=2, current_stride=2 ** up, filters=f, up_blocks=up,
                                 down_blocks=down, stem_blocks=stem, filters_rate=p_ / q_))
        if r[0] == "ok":
            for i, b in enumerate(r[1].decoder_stack[:up]):
                lines.append(f"gfilt dec {f} {p_} {q_} {i} {stem} {down}")
                impl.append(str(int(b.refine_convs_filters)))
    cap = {}
    orig_init = UNet.__init__
    try:
        UNet.__init__ = lambda self, **kw: cap.update(kw)  # observe the kwargs from_config computes
        from omegaconf import OmegaConf
        for stem, ms, bos in itertools.product([None, 1, 2, 4, 8], [4, 8, 16, 32, 64], [1, 2, 4, 8, 16, 32, 64]):
            cfgd = dict(in_channels=1, kernel_size=3, filters=8, filters_rate=2, max_stride=ms, convs_per_block=2,
                        stacks=1, stem_stride=stem, middle_block=True, up_interpolate=True, output_stride=bos)
            r = call(UNet.from_config, OmegaConf.create(cfgd))
            lines.append(f"blocks {int(stem is None)} {stem or 0} {ms} {bos}")
            impl.append("raise" if r[0] == "raise" else
                        f"{int(cap['down_blocks'])} {int(cap['up_blocks'])} {int(cap['stem_blocks'])}")
    finally:
        UNet.__init__ = orig_init
    for l, i, m in zip(lines, impl, run_driver("C14.lean", lines)):
        chk.case(l, None, tags=["gen:" + l.split()[0]])
        if l.startswith("sameconv"):
            m = m.split()[0]  # second number: the explicit k//2 padding (documented contrast, not the code)
            if i != l.split()[1]:
                chk.fail('nn.Conv2d(padding="same") does not preserve the size', {"line": l}, i)
        if i != m:
            chk.disagree("generated definition == python function", {"line": l}, i, m)
            if l.startswith("pad"):
                _, a, k, s, d = l.split()
                if (k, s, d) == ("2", "2", "1") and int(i) != int(a) % 2:
                    chk.fail("same-padding of the 2x2/2 pool is not i % 2", {"line": l}, i)

    # (2) known findings: replay the witnesses
    for fid, wc in WITNESSES.items():
        if any(f["id"] == fid for f in chk.known):
            S = real_max_stride(wc)
            line, made, info = impl_run(wc, [tuple(wc.get("input", (2 * S, 2 * S)))])
            why = oracle(wc, None, made, info, 1)
            ent = next(f for f in chk.known if f["id"] == fid)
            # a `known` witness must fail in ITS failure mode (its narrow signature), not in any way
            if why and ent["status"] == "known" and ent["signature"] not in signatures(wc, info, made):
                chk.fail(f"witness of {fid} fails outside the finding's signature: {why}", {"cfg": wc}, line, [])
            chk.known_replay(fid, still_fails=bool(why), detail=line)
            m = norm(run_driver("C14.lean", [model_line(wc, made)])[0])
            line = norm(line)
            chk.case("witness:" + fid, {"cfg": wc, "impl": line, "model": m}, tags=["witness"])
            if line != m:
                chk.disagree("known-finding witness: impl == model", {"cfg": wc}, line, m)

    # (3a) eval-mode determinism / batch / history independence: tests on the real modules
    det = {"configs": 0, "max_dev": {}, "failures": [], "families": {}}
    det_cfgs, tries = list(NUMERIC_FIXED), 0
    while len(det_cfgs) < chk.n(9, 60) and tries < 400:
        tries += 1
        c = gen_cfg(rng)
        if doc_valid(c) and in_grid(c) and not known_region(c) and cost(c) <= 800:
            det_cfgs.append(c)
    for c in det_cfgs:
        r = call(determinism_tests, c, rng)
        if r[0] == "raise":  # a valid, supported configuration must build and run: a concrete failing input
            chk.fail(f"C14 fails: valid configuration raised during the determinism test ({r[1]}: {r[2][:120]})",
                     {"cfg": c, "calls": "a*S x b*S inputs, see determinism_tests"}, r[1], [])
            continue
        fails, d = r[1]
        det["families"][c["fam"]] = det["families"].get(c["fam"], 0) + 1
        det["configs"] += 1
        for k, v in d.items():
            det["max_dev"][k] = max(det["max_dev"].get(k, 0.0), v)
        chk.case(None, None, tags=["determinism_test:" + c["fam"]])
        if fails:
            det["failures"].append({"cfg": c, "fails": fails})
            chk.fail("C14 eval-mode determinism fails: " + "; ".join(fails), {"cfg": c}, d, [])
    det["label"] = ("TESTS (floating-point facts about torch kernels; not covered by a theorem); one fixed config per "
                    "family (UNet, ConvNeXt, Swin-T) always run; relative tolerance 1e-5 * max(1, max|y|)")
    chk.extra["eval_determinism_tests"] = det

    # (3b) batch independence with mixed-range batches, every backbone family (numeric clause: a TEST)
    bt = {"label": "TEST of the numeric clause (eval output of a frame is independent of its batch-mates), "
                   "mixed value ranges " + "/".join(FRAME_KINDS) + "; relative tolerance 1e-4; not a theorem",
          "configs": 0, "comparisons": 0, "worst_relative_deviation": 0.0, "failures": 0, "families": {}}
    fixed = list(NUMERIC_FIXED)
    extra_cfgs, tries = [], 0
    while len(extra_cfgs) < chk.n(3, 30) and tries < 300:
        tries += 1
        c = gen_cfg(rng)
        if doc_valid(c) and in_grid(c) and not known_region(c) and cost(c) <= 800:
            extra_cfgs.append(c)
    for c in fixed + extra_cfgs:
        r = call(batch_independence_tests, c, rng)
        if r[0] == "raise":
            chk.fail(f"C14 fails: valid configuration raised during the batch-independence test ({r[1]}: {r[2][:120]})",
                     {"cfg": c, "calls": "mixed-range batches of a*S x b*S frames"}, r[1], [])
            continue
        fails, st = r[1]
        bt["configs"] += 1
        bt["comparisons"] += st["comparisons"]
        bt["worst_relative_deviation"] = max(bt["worst_relative_deviation"], st["worst_relative_deviation"])
        bt["families"][c["fam"]] = bt["families"].get(c["fam"], 0) + 1
        chk.case(None, None, tags=["batch_independence_test:" + c["fam"]])
        for f in fails[:2]:
            bt["failures"] += 1
            chk.fail(f"C14 numeric clause fails: eval output of frame '{f['target_frame']}' changes with its "
                     f"batch-mates (relative deviation {f['relative_deviation']:.3g} > 1e-4)",
                     {"cfg": c, "batch": f, "rebuild": "harness/c14.py make_frame(kind, seed, h, w)"},
                     f["relative_deviation"], [])
    chk.extra["batch_independence_tests"] = bt
    chk.extra["excluded_region_cases"] = {
        "offgrid_inputs (not multiples of max stride; oracle only: keys/channels/batch/finite)":
            {k.split(":", 1)[1]: v for k, v in chk.hist.items() if k.startswith("excluded_region(offgrid):")},
        "unet_convs_per_block_lt_2 (known finding)": sum(v for k, v in chk.hist.items()
                                                         if k.startswith("oracle_fail:unet_convs_per_block_lt_2")),
    }
    if (det["configs"] < 3 or bt["configs"] < 3) and not chk.failing:
        chk.broken.append("numeric clause of C14 not exercised for every backbone family")

    # (3) corpus, then generated cases
    cases = []
    cdir = chk_corpus = os.path.join(os.path.dirname(os.path.dirname(os.path.abspath(__file__))), "corpus", "C14")
    if os.path.isdir(cdir):
        for f in sorted(os.listdir(cdir)):
            if f.endswith(".json"):
                d = json.load(open(os.path.join(cdir, f)))
                cases.append((d["cfg"], [tuple(x) for x in d["calls"]], d.get("B", 1), ["corpus"]))
    # fixed regression cases: the suite's own configs + every family at its smallest valid point
    for fam, extra in (("unet", dict(filters=16, ms=16, stem=None, variant="", bos=1, hos=1, rate="3/2")),
                       ("convnext", dict(filters=0, ms=16, stem=2, variant="tiny", bos=1, hos=1, rate="2")),
                       ("swint", dict(filters=0, ms=32, stem=4, variant="tiny", bos=1, hos=1, rate="2"))):
        c = dict(fam=fam, kind="single_instance", parts=13, edges=1, cpb=2, upi=fam != "convnext", mid=True, pos=1,
                 float_rate=False, **extra)
        cases.append((c, [(2 * real_max_stride(c),) * 2], 1, ["suite_like"]))
    # regions a seeded change can break in isolation: always covered, not left to the random stream
    for rate in ("2", "3/2"):  # UNet without middle block x transposed-conv up-sampling (ConvTranspose2d channels)
        c = dict(fam="unet", kind="single_instance", parts=3, edges=1, cpb=2, upi=False, mid=False, rate=rate,
                 filters=8, variant="", float_rate=False, ms=16, stem=None, bos=2, hos=4, pos=4)
        cases.append((c, [(32, 16)], 1, ["fixed_region:no_middle_x_transpose"]))
    # skeleton with a limb listed in both directions and an edge listed twice: 2 x len(edges) PAF channels
    c = dict(fam="unet", kind="bottomup", parts=4, edges=5, part_ids=[0, 1, 2, 3],
             edge_list=[[0, 1], [1, 2], [2, 1], [2, 3], [1, 2]], cpb=2, upi=True, mid=True, rate="2", filters=8,
             variant="", float_rate=False, ms=16, stem=None, bos=2, hos=2, pos=4)
    cases.append((c, [(32, 48)], 1, ["fixed_region:duplicate_edges"]))
    c = dict(c, kind="single_instance", part_ids=[0, 1, 1, 0, 2])  # repeated part names
    cases.append((c, [(16, 16)], 2, ["fixed_region:repeated_parts"]))
    # UNet stem_stride >= max_stride (outside the grid; Python keeps a negative down_blocks in the exponents)
    for stem, ms, bos in ((16, 8, 2), (8, 8, 2), (16, 16, 4), (8, 16, 1), (32, 8, 1)):
        c = dict(fam="unet", kind="single_instance", parts=3, edges=1, cpb=2, upi=True, mid=True, rate="2", filters=8,
                 variant="", float_rate=False, ms=ms, stem=stem, bos=bos, hos=bos, pos=bos)
        cases.append((c, [(2 * ms, 2 * ms)], 1, ["fixed_region:stem_ge_max_stride"]))
    # excluded regions of `supported` (one `known` finding each) and the working part of convs_per_block=1
    base_w = dict(kind="centroid", parts=1, edges=1, cpb=2, upi=True, mid=True, filters=0, variant="tiny",
                  float_rate=False, bos=2, hos=2, pos=2)
    for c, size in ((dict(base_w, fam="swint", rate="3/2", ms=16, stem=2), (32, 32)),
                    (dict(base_w, fam="convnext", rate="1", ms=16, stem=2), (32, 16)),
                    (dict(base_w, fam="convnext", rate="2", ms=16, stem=4, bos=4, hos=4, pos=4), (16, 16)),
                    (dict(base_w, fam="swint", rate="2", ms=16, stem=4, bos=4, hos=4, pos=4), (48, 32)),
                    (dict(base_w, fam="convnext", rate="2", ms=16, stem=4, bos=4, hos=4, pos=4), (32, 32)),
                    (dict(base_w, fam="swint", rate="2", ms=32, stem=2, bos=2, hos=16, pos=16), (32, 32)),
                    (dict(base_w, fam="convnext", rate="2", ms=16, stem=2, stem_kernel=2), (32, 32)),
                    (dict(base_w, fam="unet", rate="1", ms=16, stem=4, cpb=1, filters=8, variant=""), (32, 16)),
                    (dict(base_w, fam="unet", rate="1", ms=8, stem=2, cpb=1, mid=False, filters=16, variant=""), (8, 16)),
                    (dict(base_w, fam="unet", rate="1", ms=16, stem=None, cpb=1, filters=8, variant=""), (16, 16))):
        cases.append((c, [size], 1, ["fixed_region:excluded_or_boundary"]))
    # head_configs mapping in BOTH key orders, different strides per head (the only multi-head model type
    # get_head builds is bottomup: confmaps + pafs)
    for fam, extra, hos, pos in (("unet", dict(filters=8, ms=16, stem=None, variant="", bos=2), 2, 4),
                                 ("unet", dict(filters=8, ms=16, stem=2, variant="", bos=1), 4, 1),
                                 ("swint", dict(filters=0, ms=16, stem=2, variant="tiny", bos=2), 2, 8)):
        for pf in (True, False):
            c = dict(fam=fam, kind="bottomup", parts=3, edges=2, cpb=2, upi=True, mid=True, rate="2", float_rate=False,
                     hos=hos, pos=pos, pafs_first=pf, **extra)
            S = real_max_stride(c)
            cases.append((c, [(2 * S, 3 * S)], 2, ["fixed_region:head_mapping_order"]))
    # truncation compounds (non-integer rate x small filters x deep encoder): every block's channels by
    # introspection + forward; chosen so that the head arithmetic agrees on the unchanged tree
    for f, rate, ms, stem, bos, hos in ((6, "3/2", 16, None, 2, 2), (4, "3/2", 32, None, 1, 1), (10, "3/2", 32, 2, 2, 4),
                                         (20, "3/2", 32, None, 4, 4), (8, "3/2", 64, None, 4, 4), (12, "3/2", 64, 4, 8, 8),
                                         (5, "5/4", 32, None, 2, 2), (7, "7/4", 16, 2, 1, 1), (6, "5/2", 16, None, 2, 2)):
        c = dict(fam="unet", kind="single_instance", parts=3, edges=1, cpb=2, upi=(f % 2 == 0), mid=True, rate=rate,
                 filters=f, variant="", float_rate=False, ms=ms, stem=stem, bos=bos, hos=hos, pos=hos)
        cases.append((c, [(ms, 2 * ms)] if cost(c) <= 800 else [], 1, ["fixed_region:compounding_truncation"]))
    # conv geometry: even kernels, one decoder block (a size error would be silent) and several blocks
    for fam, kern, extra in (("unet", 2, dict(filters=8, ms=16, stem=None, variant="", bos=8, hos=8)),
                             ("unet", 4, dict(filters=8, ms=16, stem=None, variant="", bos=2, hos=4)),
                             ("unet", 1, dict(filters=8, ms=8, stem=2, variant="", bos=1, hos=1)),
                             ("convnext", 2, dict(filters=0, ms=16, stem=2, variant="tiny", bos=8, hos=8, stem_kernel=3)),
                             ("swint", 4, dict(filters=0, ms=32, stem=4, variant="tiny", bos=4, hos=8, stem_kernel=6))):
        c = dict(fam=fam, kind="centroid", parts=1, edges=1, cpb=3 if kern == 4 else 2, upi=kern != 4, mid=True,
                 pos=extra["hos"], rate="2", float_rate=False, kernel=kern, **extra)
        S = real_max_stride(c)
        cases.append((c, [(S, 2 * S)], 1, ["fixed_region:kernel_size"]))
    # target shapes on NON-square images incl. empty / all-NaN frames: every head kind, always
    for kind in KINDS:
        c = dict(fam="unet", kind=kind, parts=3, edges=2, cpb=2, upi=True, mid=True, rate="2", filters=8, variant="",
                 float_rate=False, ms=16, stem=None, bos=2, hos=2, pos=4)
        cases.append((c, [(32, 64)], 1, ["fixed_region:nonsquare_targets"]))
    # strided sample (quick) / all (thorough) of the factored table behind `arch_grid_ok`
    dims = [(2, True, True)]
    table = list(grid_unet(dims))
    if not chk.thorough:
        table = [c for c in rng.sample(table, 60) if cost(c) <= 700]
    else:  # the heaviest rows (>= 2048 bottleneck channels, ~2 GB each) are sampled, not swept
        heavy = [c for c in table if cost(c) > 1100]
        table = [c for c in table if cost(c) <= 1100] + rng.sample(heavy, min(8, len(heavy)))
    for c in table:
        cases.append((c, [(2 * c["ms"], 2 * c["ms"])], 1, ["table"]))
    if chk.thorough:  # kernel_size in full on every table row that is cheap to build
        for c in table:
            if cost(c) <= 300:
                for kern in (1, 2, 4, 5):
                    cases.append((dict(c, kernel=kern), [(2 * c["ms"], c["ms"])], 1, ["table_x_kernel"]))

    if chk.thorough:  # ConvNeXt / Swin tables against the real models: every variant, stride pair, stem
        for c in grid_wrap():
            cases.append((c, [(2 * c["ms"], c["ms"])], 1, ["table_wrap"]))
    n_fixed = len(cases)
    # the random stream comes LAST: a time budget can only truncate it, never the fixed / table cases
    n_rand = chk.n(170, 1200)
    for i in range(n_rand):
        c = gen_cfg(rng, small=not (chk.thorough or i % 40 == 0))
        ck = rng.choice(["single"] * 5 + ["history"] * 2 + ["offgrid"] * 2)
        if c["fam"] == "unet" and cost(c) > 800 and c["filters"] not in (8, 16, 24, 32, 64):
            cases.append((c, [], 1, ["build_only"]))  # deep / wide compounding configs: module introspection only
        else:
            cases.append((c, pick_calls(rng, c, ck), rng.choice([1, 1, 2]), [ck]))

    model_outs = run_driver("C14.lean", [model_line(c, calls) for c, calls, _, _ in cases])
    n_done = 0
    if chk.thorough:
        import multiprocessing as mpc

        # spawn (not fork: the parent has already run torch / OpenMP) + bounded worker life + global timeout:
        # a hung or OOM-killed worker ends the run with exit 2 (infrastructure), never a verdict
        ctx = mpc.get_context("spawn")
        with ctx.Pool(int(os.environ.get("VERIF_PROCS", "8")), maxtasksperchild=200) as pool:
            ar = pool.map_async(_worker, [(c, calls, B) for c, calls, B, _ in cases], chunksize=4)
            try:
                results = ar.get(timeout=1500)
            except mpc.TimeoutError:
                pool.terminate()
                raise subprocess.TimeoutExpired("c14 thorough worker pool", 1500)
        for (c, calls, B, tags), mo, (line, made, status, why, sigs) in zip(cases, model_outs, results):
            m = norm(mo if made == calls else run_driver("C14.lean", [model_line(c, made)])[0])
            line = norm(line)
            status, _, og = status.partition("|offgrid:")
            if og:
                chk.tag("excluded_region(offgrid):" + og)
            chk.case(json.dumps(c, sort_keys=True) + str(made), {"cfg": c, "calls": made, "impl": line, "model": m},
                     tags=list(tags) + [c["fam"], "docvalid" if doc_valid(c) else "invalid", status])
            if line != m:
                chk.disagree("Model(...) construction/forward bookkeeping == Arch.construct/forward",
                             {"cfg": c, "calls": made, "B": B}, line, m)
            if why:
                chk.fail(f"C14 fails: {why}", {"cfg": c, "calls": made, "B": B}, line, sigs)
                chk.tag("oracle_fail:" + ",".join(sigs or ["UNLISTED"]))
        n_done = len(cases)
    else:
        for (c, calls, B, tags), mo in zip(cases, model_outs):
            if time.time() > t_budget:
                break
            run_case(chk, c, calls, B, tags, mo)
            n_done += 1
    chk.extra["cases_planned"] = len(cases)
    chk.extra["cases_run"] = n_done
    if n_done < len(cases):
        msg = (f"time budget hit: only {n_done} of {len(cases)} planned cases run "
               f"({max(0, n_done - n_fixed)} of {len(cases) - n_fixed} random ones; all fixed/table cases "
               f"{'run' if n_done >= n_fixed else 'NOT run'})")
        print("WARNING: " + msg)
        chk.extra["budget_truncated"] = msg
        if n_done < n_fixed + (len(cases) - n_fixed) // 4:
            # less than a quarter of the random stream: the run says too little — infrastructure, not a verdict
            chk.broken.append("correspondence not exercised (machine overloaded): " + msg)

    # on a disagreement: focused failing-input search around the disagreeing configurations
    if chk.disagreements and not chk.failing:
        seen = 0
        for d in list(chk.disagreements)[:5]:
            c0 = d["case"].get("cfg")
            if not c0:
                continue
            for _ in range(40):
                c = dict(c0)
                for k in rng.sample(["bos", "hos", "pos", "filters", "rate", "stem", "upi", "kind", "edge_list", "part_ids"], 2):
                    c[k] = gen_cfg(rng, fam=c0["fam"])[k]
                if c["fam"] != "unet":
                    c["stem"] = c["stem"] or 2
                    c["filters"] = 0
                if not doc_valid(c) or not in_grid(c) or known_region(c):
                    continue
                S = real_max_stride(c)
                line, made, info = impl_run(c, [(2 * S, S)])
                why = oracle(c, None, made, info, 1)
                seen += 1
                if why:
                    chk.fail(f"C14 fails: {why}", {"cfg": c, "calls": made, "B": 1}, line, signatures(c, info, made))
                    break
        chk.extra["focused_search_cases"] = seen


def replay(chk: Check, payload):
    import_repo()
    case = payload.get("case") or payload["disagreements"][0]["case"]
    c, calls, B = case["cfg"], [tuple(x) for x in case.get("calls") or [(2 * real_max_stride(case["cfg"]),) * 2]], case.get("B", 1)
    why = run_case(chk, c, calls, B, ["replay"])
    print(f"replay cfg={c} calls={calls} oracle={why}")


if __name__ == "__main__":
    chk = Check(
        "C14", module="SleapVerif.Props.C14", theorems=THEOREMS,
        build_targets=["SleapVerif.Model.Proto", "SleapVerif.Model.Arch", "SleapVerif.Gen.TranslatedArch"],
        trusted=[
            "Lean 4.33 kernel; axioms ⊆ {propext, Classical.choice, Quot.sound} (audited per run)",
            "hand-written model Arch.lean of the stride/channel/size bookkeeping, run with fixMid = fixWrap = true (= /repo HEAD); tied to /repo by exact comparison "
            "of strides, decoder filters, head in_channels, stage and output shapes and exception kinds on the explored configurations",
            "torch layer shape semantics (Conv2d same/strided, Upsample x2, ConvTranspose2d k2 s2, max_pool2d, concat, "
            "torchvision CNBlock / Swin blocks preserve shape; PatchMerging halves with ceil): modelled, validated by the correspondence",
            "py2lean translator (harness/py2lean.py): its patterns ceilDiv / log2Trunc for torch.ceil(tensor(a/b)).item() and "
            "np.log2(..).astype(int) are validated against the real functions on every run",
            "eval-mode numerical determinism / batch / history independence of torch kernels: TESTED (extra.eval_determinism_tests), not proved",
        ],
        rule="configurations drawn from the property's grid (family x variant x filters x rate x max_stride x backbone/head "
             "strides x stem x convs_per_block x middle_block x up_interpolate x head type), 70% documented-valid stride "
             "combinations, 30% arbitrary; inputs a*S x b*S, call histories, off-grid sizes (excluded region: "
             "model still compared exactly, property oracle size-agnostic there); plus a sample (quick) / all "
             "(thorough) of the factored UNet table; distinct = distinct (config, call history)",
        assumptions=["in_channels = 1; kernel_size in {1..5} and stem_patch_kernel / patch_size in {2..7} are sampled (kernel_size does "
                     "not enter the model: same_padding_preserves_size); the UNet stem kernel (7) is not configurable",
                     "a forward that raises ends a call history (the model keeps ONE pooling bit; in the real code all pools "
                     "have run before the decoder can raise, so a call after a failed call behaves like a fresh module — "
                     "observed by the audit, covered by no case)",
                     "never generated: in_channels != 1, custom `arch` dicts / unknown model_type fall-back, non-square Swin "
                     "patch_size, block_contraction (unreachable via from_config), train() mode, class/offset heads (not built by get_head)",
                     "UNet stem_stride >= 8 (outside the grid) is run with integer-valued rates as Python ints only "
                     "(numpy raises on int ** negative int; the model has no float/int distinction)",
                     "log2Trunc returns 0 for non-positive arguments (numpy gives -inf); unreachable from the generator"],
    )
    run_check(chk, main, replay)
