"""Stub networks and in-memory data sources for the inference checks (C02, C12; reused by C03).

Nothing here re-implements sleap-nn: the stubs only stand in for the *trained network* (the
shipped checkpoints cannot be loaded) and for the *files* the readers would open.

* `Scene` — a table of synthetic frames.  Every frame is a constant-intensity uint8 image whose
  intensity is the frame's **code** (32…255), so a network stub can tell which frame (and how much
  of the tensor is image content vs zero padding) it is looking at from the pixels alone; it never
  reads `frame_idx`/`video_idx`/`eff_scale` from the pipeline's dictionaries.
* `IdealNet` — `torch.nn.Module` that returns, for the tensor it receives, the confidence maps the
  training pipeline would generate for that input: the repo's own `generate_confmaps` /
  `generate_multiconfmaps` applied to the frame's keypoints multiplied by the scale factor the
  tensor was *actually* produced with (measured from the content extent, snapped to the candidates
  {eff·s, eff, s, 1}), on the grid of the tensor's own shape.
  kinds: "single" (one channel per node), "centroid" (one channel, max over animals),
  "centered" (one channel per node of the animal the crop is centred on, coordinates relative to
  the crop's top-left corner, learnt from a forward-pre-hook on the real `FindInstancePeaks`).
* `ArrayBackend`, `make_video`, `make_labels` — in-memory `sio.Video` / `sio.Labels`.
* `patched_loaders` — context manager that makes `sio.load_slp` / `sio.load_video` return the
  in-memory objects, so the REAL `make_pipeline` builds the REAL readers around them.
* `mk_config` — minimal OmegaConf training config as the predictors read it.
"""
from __future__ import annotations

import contextlib
from dataclasses import dataclass, field
from fractions import Fraction

import numpy as np
import torch


class StubError(RuntimeError):
    """The stub cannot interpret the tensor it was given (not a verdict by itself)."""


class StubAmbiguous(StubError):
    """Two different candidate scales explain the tensor equally well: case is skipped."""


# --------------------------------------------------------------------------- scene
@dataclass
class Animal:
    centroid: tuple  # (x, y) original-image coordinates
    pts: list        # per node (x, y) or None (invisible)
    rendered: bool = True   # False: labelled, but the centroid network does not see it (no bump)
    gain: float = 1.0       # height of its centroid bump (weak vs strong detections)


@dataclass
class FrameSpec:
    code: int        # pixel intensity 32..255, unique in the scene
    H: int
    W: int
    animals: list = field(default_factory=list)
    video: int = 0
    frame_idx: int = 0
    phantoms: list = field(default_factory=list)   # extra centroid bumps (x, y) that are NOT labelled animals
    undershoot: float = 0.0   # > 0: the ideal maps of this frame dip to about -undershoot away from a bump


class Scene:
    def __init__(self, frames, n_nodes):
        self.frames = {f.code: f for f in frames}
        assert len(self.frames) == len(frames), "codes must be unique"
        self.n_nodes = n_nodes
        self.order = [f.code for f in frames]

    def by_code(self, code):
        f = self.frames.get(code)
        if f is None:
            raise StubError(f"no frame with code {code}")
        return f


def eff_scale_nominal(H, W, max_h, max_w) -> Fraction:
    """The size-matching factor as the *specification* has it: the largest uniform scale that
    fits (H, W) into (max_h, max_w); 1 when no target is set or the size already matches."""
    mh = H if max_h is None else max_h
    mw = W if max_w is None else max_w
    if mh == H and mw == W:
        return Fraction(1)
    return min(Fraction(mh, H), Fraction(mw, W))


# --------------------------------------------------------------------------- the network stub
def _content_extent(img2d: torch.Tensor, code: int):
    """(rows, cols) whose maximum exceeds half the code intensity."""
    thr = 0.5 * code / 255.0
    rows = int((img2d.max(dim=1).values > thr).sum())
    cols = int((img2d.max(dim=0).values > thr).sum())
    return rows, cols


def measure(img: torch.Tensor, scene: Scene, scale: float, max_hw):
    """Identify frame and actual geometric scale of one image tensor (..., H, W) in [0,1]."""
    img2d = img.reshape(-1, img.shape[-2], img.shape[-1])[0]   # channel 0 carries the frame code
    code = int(round(float(img2d.max()) * 255.0))
    fr = scene.by_code(code)
    rows, cols = _content_extent(img2d, code)
    eff = float(eff_scale_nominal(fr.H, fr.W, max_hw[0], max_hw[1]))
    cands = sorted({eff * scale, eff, scale, 1.0})
    scored = sorted((abs(fr.H * a - rows) + abs(fr.W * a - cols), a) for a in cands)
    # content may be clipped by the tensor (never happens for bottom/right padding pipelines)
    err, a = scored[0]
    if err > 6.0:
        raise StubError(f"content extent {rows}x{cols} of frame {fr.H}x{fr.W} matches no candidate scale {cands}")
    if len(scored) > 1 and scored[1][0] - err < 2.0:
        raise StubAmbiguous(f"content extent {rows}x{cols}: candidates {scored[:2]}")
    return fr, a, eff


ORIGIN_TOL = 1.5   # px: content further than this from where "padding only at the bottom/right" puts it is a shift


def content_origin(img: torch.Tensor, fr, a: float):
    """Where does the frame's content start in the tensor?  Read from the ABSOLUTE ramp channels
    (channel 1 = RAMP0 + x, channel 2 = RAMP0 + y of the original frame): a content pixel at tensor
    column j shows original column u = 255·v − RAMP0; with the resizer's pixel-centre convention it should
    sit at column (u + ½)·a − ½.  Returns the (dx, dy) by which the content is displaced from there
    (≈ 0 for a pipeline that resizes and pads at the bottom/right only), or None when the frame has no ramp.
    Sub-pixel registration (|d| < ORIGIN_TOL) is C04's and reads as (0, 0)."""
    t = img.reshape(-1, img.shape[-2], img.shape[-1])
    if t.shape[0] < 3:
        return None
    f = t.detach().cpu().numpy().astype(np.float64)
    v = fr.code / 255.0
    inside = np.abs(f[0] - v) < 1e-4
    rows = np.where(inside.any(axis=1))[0]
    cols = np.where(inside.any(axis=0))[0]
    if len(rows) < 5 or len(cols) < 5:
        return None
    r0, c0 = int(rows[len(rows) // 2]), int(cols[len(cols) // 2])
    if not inside[r0, c0]:
        return None
    ux, uy = 255.0 * f[1, r0, c0] - RAMP0, 255.0 * f[2, r0, c0] - RAMP0
    dx = c0 - ((ux + 0.5) * a - 0.5)
    dy = r0 - ((uy + 0.5) * a - 0.5)
    return (float(dx) if abs(dx) > ORIGIN_TOL else 0.0, float(dy) if abs(dy) > ORIGIN_TOL else 0.0)


def locate_crop(crop: torch.Tensor, full: torch.Tensor, code: int, crop_hw=None):
    """Where was `crop` (C,h,w) taken from `full` (C,H,W)?  Top-left corner of the crop in `full`'s
    pixel coordinates, read from the ramp channels of pixels around the crop's centre, by inverting
    `full`'s own ramp profile (no assumption about any resize convention).  `None` when the frames
    carry no ramp or the centre of the crop is not plain image content."""
    if crop.dim() != 3 or crop.shape[0] < 3 or full.shape[0] < 3:
        return None
    c, f = crop.detach().cpu().numpy().astype(np.float64), full.detach().cpu().numpy().astype(np.float64)
    v = code / 255.0
    inside = np.abs(f[0] - v) < 1e-4
    rows = np.where(inside.any(axis=1))[0]
    cols = np.where(inside.any(axis=0))[0]
    if len(rows) < 5 or len(cols) < 5:
        return None
    r0, c0 = rows[len(rows) // 2], cols[len(cols) // 2]
    xs = cols[1:-1]
    ys = rows[1:-1]
    px, py = f[1, r0, xs], f[2, ys, c0]
    if not (np.all(np.diff(px) > 0) and np.all(np.diff(py) > 0)):
        return None
    h, w = crop_hw if crop_hw is not None else c.shape[-2:]   # the crop proper (without stride padding)
    h, w = min(h, c.shape[-2]), min(w, c.shape[-1])
    ests = []
    for di in (-1, 0, 1):
        for dj in (-1, 0, 1):
            i, j = h // 2 + di, w // 2 + dj
            if not (0 <= i < h and 0 <= j < w) or abs(c[0, i, j] - v) > 1e-4:
                continue
            g, b = c[1, i, j], c[2, i, j]
            if not (px[0] <= g <= px[-1] and py[0] <= b <= py[-1]):
                continue
            ests.append((float(np.interp(g, px, xs)) - j, float(np.interp(b, py, ys)) - i))
    if len(ests) < 3:
        return None
    return float(np.median([e[0] for e in ests])), float(np.median([e[1] for e in ests]))


CROP_TOL = 0.5   # px: a crop further than this from where `instance_bbox` says is a crop/bbox disagreement


class IdealNet(torch.nn.Module):
    def __init__(self, scene: Scene, kind: str, output_stride: int, sigma: float = 1.5,
                 scale: float = 1.0, max_hw=(None, None)):
        super().__init__()
        assert kind in ("single", "centroid", "centered")
        self.scene, self.kind, self.os, self.sigma = scene, kind, int(output_stride), float(sigma)
        self.scale, self.max_hw = float(scale), tuple(max_hw)
        self.context = None     # inputs dict of FindInstancePeaks (centered only)
        self.log = []           # one entry per forward call (what was rendered)
        self.cms_log = []       # the maps returned by each forward call (float64 numpy copies)

    # pre-hook for the REAL FindInstancePeaks module: lets the crop-stage stub see where the crop is
    def attach(self, find_instance_peaks_module):
        def hook(_mod, args):
            self.context = args[0]
        return find_instance_peaks_module.register_forward_pre_hook(hook)

    def forward(self, x: torch.Tensor) -> torch.Tensor:
        from sleap_nn.data.confidence_maps import generate_confmaps, generate_multiconfmaps

        if x.dim() == 5:
            x = x.squeeze(dim=1)
        B, _, Hin, Win = x.shape
        out, entries = [], []
        for b in range(B):
            if self.kind == "centered":
                ctx = self.context
                fr, a, eff = measure(ctx["image"][b], self.scene, self.scale, self.max_hw)
                org = content_origin(ctx["image"][b], fr, a) or (0.0, 0.0)
                bbox = ctx["instance_bbox"][b].reshape(4, 2).to(torch.float64)
                tl = bbox[0]
                tl_bbox = (float(tl[0]), float(tl[1]))
                # the crop the network ACTUALLY receives: located from its pixels; `instance_bbox` is
                # only used (for its exact sub-pixel value) when the pixels agree with it
                crop_hw = (int(round(float(bbox[3, 1] - bbox[0, 1]))) + 1, int(round(float(bbox[1, 0] - bbox[0, 0]))) + 1)
                tl_px = locate_crop(x[b], ctx["image"][b], fr.code, crop_hw)
                mismatch = tl_px is not None and max(abs(tl_px[0] - tl_bbox[0]), abs(tl_px[1] - tl_bbox[1])) > CROP_TOL
                if mismatch:
                    tl = torch.tensor(tl_px, dtype=torch.float64)
                centre = bbox.mean(dim=0)   # which detection the crop belongs to: always the bbox's
                if not fr.animals:
                    raise StubError("crop from a frame without animals")
                d = [max(abs(an.centroid[0] * a - float(centre[0])), abs(an.centroid[1] * a - float(centre[1])))
                     for an in fr.animals]
                k = int(np.argmin(d))
                pts = torch.tensor([[float("nan")] * 2 if p is None else
                                    [p[0] * a + org[0] - float(tl[0]), p[1] * a + org[1] - float(tl[1])]
                                    for p in fr.animals[k].pts], dtype=torch.float32)
                cm = generate_confmaps(pts.unsqueeze(0), img_hw=(Hin, Win), sigma=self.sigma,
                                       output_stride=self.os)
                entries.append({"code": fr.code, "a": a, "eff": eff, "animal": k,
                                "tl": (float(tl[0]), float(tl[1])), "hw": (Hin, Win),
                                "tl_bbox": tl_bbox, "tl_px": tl_px, "tl_mismatch": bool(mismatch), "origin": org})
            else:
                fr, a, eff = measure(x[b], self.scene, self.scale, self.max_hw)
                org = content_origin(x[b], fr, a) or (0.0, 0.0)   # where the content really starts in the tensor
                if self.kind == "single":
                    if fr.animals:
                        pts = torch.tensor([[float("nan")] * 2 if p is None else [p[0] * a + org[0], p[1] * a + org[1]]
                                            for p in fr.animals[0].pts], dtype=torch.float32)
                    else:
                        pts = torch.full((self.scene.n_nodes, 2), float("nan"))
                    cm = generate_confmaps(pts.unsqueeze(0), img_hw=(Hin, Win), sigma=self.sigma,
                                           output_stride=self.os)
                else:
                    bumps = [(an.centroid, an.gain) for an in fr.animals if an.rendered] + [(ph, 1.0) for ph in fr.phantoms]
                    if bumps and all(g == 1.0 for _, g in bumps):
                        cs = torch.tensor([[c[0] * a + org[0], c[1] * a + org[1]] for c, _ in bumps], dtype=torch.float32)
                        cm = generate_multiconfmaps(cs.unsqueeze(0), img_hw=(Hin, Win), num_instances=len(bumps),
                                                    sigma=self.sigma, output_stride=self.os, is_centroids=True)
                    elif bumps:
                        # bumps of different heights: the repo's map of each bump, scaled, combined by max
                        cm = None
                        for c, g in bumps:
                            one = torch.tensor([[c[0] * a + org[0], c[1] * a + org[1]]], dtype=torch.float32)
                            m1 = float(g) * generate_multiconfmaps(one.unsqueeze(0), img_hw=(Hin, Win), num_instances=1,
                                                                   sigma=self.sigma, output_stride=self.os, is_centroids=True)
                            cm = m1 if cm is None else torch.maximum(cm, m1)
                    else:
                        from sleap_nn.data.utils import make_grid_vectors
                        xv, yv = make_grid_vectors(Hin, Win, self.os)
                        cm = torch.zeros((1, 1, yv.shape[0], xv.shape[0]), dtype=torch.float32)
                entries.append({"code": fr.code, "a": a, "eff": eff, "hw": (Hin, Win), "origin": org})
            if fr.undershoot:
                # realistic network undershoot: a small negative plateau around every bump (channels of
                # invisible nodes stay identically zero); the argmax does not move
                cm = undershoot_maps(cm, float(fr.undershoot), self.sigma)
            out.append(cm)
        cms = torch.cat(out, dim=0)
        self.log.append(entries)
        self.cms_log.append(cms.detach().cpu().numpy().astype(np.float64))
        return cms


def undershoot_maps(cm: torch.Tensor, u: float, sigma_cells: float) -> torch.Tensor:
    """Network-like undershoot: every bump keeps its core (cells within 2 grid cells of the keypoint,
    values ≥ t = exp(-2/σ²)) and is surrounded by a shallow negative trough that starts at 0 on the
    core's rim and levels off at -u.  The argmax, the local-peak structure and the peak values do not
    change; a 5×5 refinement patch contains a few slightly negative cells (sum stays ≫ 0, so the
    unboundedness of F-C06 is not in play).  Channels of invisible nodes stay identically zero."""
    t = float(np.exp(-2.0 / (sigma_cells * sigma_cells)))
    vis = (cm.amax(dim=(-2, -1), keepdim=True) > 0)
    trough = -u * (1.0 - cm / t)
    return torch.where(vis & (cm < t), trough, cm)


class ModeNet(torch.nn.Module):
    """A stub network with mode-dependent layers: ideal-map renderer → BatchNorm2d → Dropout.

    In eval mode with fresh running statistics both layers are the identity (eps is tiny), so the
    network is the ideal one.  In train mode BatchNorm normalises with the statistics of the frames /
    crops sharing the batch and updates its running statistics, Dropout zeroes random cells: the
    output for a frame then depends on batch-mates, batch size, order and call history.  Every
    forward records the mode it ran in (`mode_log`): "inference runs the network in eval mode" is an
    observable obligation, not an assumption."""

    def __init__(self, inner: torch.nn.Module, channels: int, head: str = None, p: float = 0.25):
        super().__init__()
        self.inner = inner
        self.head = head           # for dict outputs (bottom-up): the head the layers act on
        self.bn = torch.nn.BatchNorm2d(channels, eps=1e-12, momentum=0.1, affine=False)
        self.drop = torch.nn.Dropout(p)
        self.mode_log = []

    # the harness reads the renderer's logs through the wrapper
    @property
    def log(self):
        return self.inner.log

    @property
    def cms_log(self):
        return self.inner.cms_log

    def attach(self, module):
        return self.inner.attach(module)

    def stats(self):
        return (self.bn.running_mean.clone(), self.bn.running_var.clone(), int(self.bn.num_batches_tracked))

    def train_step(self, seed=0):
        """a forward in train mode through the mode-dependent layers (what one training step does to
        them): running statistics move away from (0, 1); the module is left in train mode"""
        self.train()
        g = torch.Generator().manual_seed(seed)
        with torch.no_grad():
            self.bn(0.3 * torch.rand(4, self.bn.num_features, 8, 8, generator=g))

    def apply_history(self, history: str):
        if history == "fresh":
            pass                          # a freshly built / freshly loaded module (training flag True)
        elif history == "eval_set":
            self.eval()                   # control: the caller did everything right
        elif history == "train_after_build":
            self.eval()
            self.train()                  # fine-tuning / active-learning loop on the same objects
        elif history == "after_train_forward":
            self.train_step()
        else:
            raise ValueError(history)

    def forward(self, x):
        self.mode_log.append(bool(self.training))
        out = self.inner(x)
        if isinstance(out, dict):
            out = dict(out)
            out[self.head] = self.drop(self.bn(out[self.head]))
            return out
        return self.drop(self.bn(out))


HISTORIES = ("fresh", "eval_set", "train_after_build", "after_train_forward")


class UndershootNet(torch.nn.Module):
    """Adds the small negative undershoot of `IdealNet` (frames with `undershoot > 0`) to the maps of
    another stub (e.g. harness/c03.py's bottom-up stub): sample `b` of the batch dips to about
    `-us[b]` away from its bumps."""

    def __init__(self, inner, us, head=None, sigma=1.5):
        super().__init__()
        self.inner, self.us, self.head, self.sigma = inner, list(us), head, float(sigma)

    def forward(self, x):
        out = self.inner(x)
        cms = out[self.head] if isinstance(out, dict) else out
        cms = cms.clone()
        for b, u in enumerate(self.us):
            if u:
                cms[b] = undershoot_maps(cms[b], float(u), self.sigma)
        if isinstance(out, dict):
            out = dict(out)
            out[self.head] = cms
            return out
        return cms


# --------------------------------------------------------------------------- in-memory sources
def _backend_cls():
    import attrs
    from sleap_io.io.video_reading import VideoBackend

    @attrs.define
    class ArrayBackend(VideoBackend):
        """`VideoBackend` over a numpy array (T, H, W, C) held in memory."""
        arr: np.ndarray = None
        index_map: dict = None      # sparse videos: frame index → position in `arr`

        @property
        def num_frames(self) -> int:
            return int(self.arr.shape[0]) if not self.index_map else max(self.index_map) + 1

        def _pos(self, frame_idx):
            return int(frame_idx) if not self.index_map else self.index_map[int(frame_idx)]

        @property
        def img_shape(self):
            return tuple(int(v) for v in self.arr.shape[1:])

        def _read_frame(self, frame_idx: int) -> np.ndarray:
            return self.arr[self._pos(frame_idx)].copy()

        def _read_frames(self, frame_inds: list) -> np.ndarray:
            return np.stack([self.arr[self._pos(i)] for i in frame_inds]).copy()

        def read_test_frame(self):
            return self.arr[0].copy()

    return ArrayBackend


_ARRAY_BACKEND = None
_MEM_VIDEO = None


def _mem_video_cls():
    """`sio.Video` whose file "exists" (the backend is an in-memory array)."""
    global _MEM_VIDEO
    if _MEM_VIDEO is None:
        import sleap_io as sio

        class MemVideo(sio.Video):
            def exists(self, *a, **k):
                return True

        _MEM_VIDEO = MemVideo
    return _MEM_VIDEO


RAMP0 = 40  # channel 1 = RAMP0 + x, channel 2 = RAMP0 + y of "ramp" videos


def _index_map(frames):
    """sparse / large frame indices: when the FrameSpecs of a video do not sit at 0..T-1, the backend maps
    `frame_idx` → array position (the video then "has" max+1 frames, of which only these exist)"""
    idxs = [int(f.frame_idx) for f in frames]
    return None if idxs == list(range(len(frames))) else {i: k for k, i in enumerate(idxs)}


def make_video(frames: list, name="mem.mp4", ramp=False):
    """`sio.Video` over synthetic frames (all of one size).  Default: one channel of constant
    intensity = the frame's code.  `ramp=True`: three channels — the code, `RAMP0 + x`, `RAMP0 + y` —
    so that a stub can tell from the pixels of a crop WHERE in the frame the crop was taken
    (linear ramps survive bilinear/antialiased resizing and `crop_and_resize` exactly)."""
    import sleap_io as sio
    global _ARRAY_BACKEND
    if _ARRAY_BACKEND is None:
        _ARRAY_BACKEND = _backend_cls()
    H, W = frames[0].H, frames[0].W
    assert all(f.H == H and f.W == W for f in frames)
    if ramp:
        assert RAMP0 + max(H, W) <= 255
        xs = np.broadcast_to(RAMP0 + np.arange(W)[None, :], (H, W))
        ys = np.broadcast_to(RAMP0 + np.arange(H)[:, None], (H, W))
        arr = np.stack([np.stack([np.full((H, W), f.code), xs, ys], axis=-1).astype(np.uint8) for f in frames])
        be = _ARRAY_BACKEND(filename=name, grayscale=False, keep_open=True, arr=arr, index_map=_index_map(frames))
        return _mem_video_cls()(filename=name, backend=be, open_backend=False)
    arr = np.stack([np.full((H, W, 1), f.code, dtype=np.uint8) for f in frames])
    be = _ARRAY_BACKEND(filename=name, grayscale=True, keep_open=True, arr=arr, index_map=_index_map(frames))
    return _mem_video_cls()(filename=name, backend=be, open_backend=False)


def make_labels(videos: list, node_names=None, order=None, ramp=False, same_name=False):
    """`sio.Labels` with one LabeledFrame per FrameSpec; `videos` = list of lists of FrameSpec
    (frame k of video v is `videos[v][k]`).  `order` = optional list of (video, frame) pairs: which
    labeled frames exist and in which order the reader will meet them (default: all, video-major).
    Returns (labels, [sio.Video…])."""
    import sleap_io as sio
    n_nodes = max([len(a.pts) for v in videos for f in v for a in f.animals] + [len(node_names or [])] + [1])
    node_names = node_names or [f"n{i}" for i in range(n_nodes)]
    skel = sio.Skeleton(nodes=[sio.Node(n) for n in node_names])
    # `same_name`: all videos of the labels carry the SAME filename string (as embedded .pkg.slp videos or
    # equal basenames do); a video's identity is its position in `labels.videos`, not its name
    vids = [make_video(frs, name=("mem.mp4" if same_name else f"mem{vi}.mp4"), ramp=ramp) for vi, frs in enumerate(videos)]
    if order is None:
        order = [(vi, k) for vi, frs in enumerate(videos) for k in range(len(frs))]
    lfs = []
    for vi, k in order:
        f = videos[vi][k]
        insts = []
        for a in f.animals:
            arr = np.array([[np.nan, np.nan] if p is None else [p[0], p[1]] for p in a.pts], dtype=float)
            insts.append(sio.Instance.from_numpy(arr, skeleton=skel))
        lfs.append(sio.LabeledFrame(video=vids[vi], frame_idx=int(f.frame_idx), instances=insts))
    return sio.Labels(labeled_frames=lfs, videos=vids, skeletons=[skel]), vids


@contextlib.contextmanager
def patched_loaders(table: dict):
    """`sio.load_slp(name)` / `sio.load_video(name)` return `table[name]` (in-memory objects) while
    active: the real `make_pipeline` → `LabelsReader.from_filename` / `VideoReader.from_filename`
    code path runs unchanged."""
    import sleap_io as sio
    old = (sio.load_slp, sio.load_video)
    sio.load_slp = lambda filename, *a, **k: table[filename]
    sio.load_video = lambda filename, *a, **k: table[filename]
    try:
        yield
    finally:
        sio.load_slp, sio.load_video = old


# --------------------------------------------------------------------------- configs
def mk_config(head: str, scale=1.0, max_stride=1, output_stride=1, max_height=None, max_width=None,
              crop_hw=None, is_rgb=False, sigma=1.5, anchor_part=None):
    """The part of a training config the predictors read (head ∈ single_instance | centroid |
    centered_instance | bottomup)."""
    from omegaconf import OmegaConf
    heads = {"single_instance": None, "centroid": None, "centered_instance": None, "bottomup": None}
    conf = {"confmaps": {"sigma": sigma, "output_stride": output_stride, "anchor_part": anchor_part}}
    heads[head] = conf
    return OmegaConf.create({
        "data_config": {"preprocessing": {"scale": scale, "is_rgb": is_rgb, "max_height": max_height,
                                          "max_width": max_width, "crop_hw": crop_hw}},
        "model_config": {"backbone_config": {"unet": {"max_stride": max_stride, "output_stride": output_stride}},
                         "head_configs": heads},
    })


# --------------------------------------------------------------------------- predictors around stubs
def _wrap_keep(net: IdealNet):
    return net


def build_single(scene, skeletons, *, scale, os_, max_stride, max_hw, batch_size, refinement,
                 threshold=0.2, sigma=1.5, mode_layers=False, is_rgb=False, override_hw=False):
    """REAL SingleInstancePredictor around an ideal-network stub.  `override_hw`: the training config
    carries a DIFFERENT size-matching target and the real one arrives through `preprocess_config`
    (the documented override: `data_config.max_height if not None else <training config>`)."""
    from sleap_nn.inference.predictors import SingleInstancePredictor
    from omegaconf import OmegaConf
    pre = None
    if override_hw and max_hw[0] is not None:
        cfg = mk_config("single_instance", scale=scale, max_stride=max_stride, output_stride=os_,
                        max_height=max_hw[0] + 24, max_width=max_hw[1] + 40, sigma=sigma, is_rgb=not is_rgb)
        pre = OmegaConf.create({"is_rgb": is_rgb, "max_height": max_hw[0], "max_width": max_hw[1], "scale": scale})
    else:
        cfg = mk_config("single_instance", scale=scale, max_stride=max_stride, output_stride=os_,
                        max_height=max_hw[0], max_width=max_hw[1], sigma=sigma, is_rgb=is_rgb)
    net = _wrap_keep(IdealNet(scene, "single", os_, sigma=sigma, scale=scale, max_hw=max_hw))
    if mode_layers:
        net = ModeNet(net, scene.n_nodes)
    p = SingleInstancePredictor(confmap_config=cfg, confmap_model=net, backbone_type="unet",
                                skeletons=skeletons, peak_threshold=threshold,
                                integral_refinement=refinement, batch_size=batch_size,
                                preprocess_config=pre)
    return p, net


def build_topdown(scene, skeletons, *, sc, os_c, ms_c, si, os_i, ms_i, crop_hw, max_hw, batch_size,
                  refinement, max_instances=None, threshold=0.2, sigma=1.5, is_rgb=False, mode_layers=False):
    """REAL TopDownPredictor (CentroidCrop + FindInstancePeaks + TopDownInferenceModel) around two
    ideal-network stubs; the crop-stage stub is attached to the real FindInstancePeaks by a
    forward-pre-hook."""
    from sleap_nn.inference.predictors import TopDownPredictor
    ccfg = mk_config("centroid", scale=sc, max_stride=ms_c, output_stride=os_c,
                     max_height=max_hw[0], max_width=max_hw[1], crop_hw=None, sigma=sigma, is_rgb=is_rgb)
    icfg = mk_config("centered_instance", scale=si, max_stride=ms_i, output_stride=os_i,
                     max_height=max_hw[0], max_width=max_hw[1], crop_hw=list(crop_hw), sigma=sigma,
                     is_rgb=is_rgb)
    cnet = _wrap_keep(IdealNet(scene, "centroid", os_c, sigma=sigma, scale=sc, max_hw=max_hw))
    inet = _wrap_keep(IdealNet(scene, "centered", os_i, sigma=sigma, scale=si, max_hw=max_hw))
    if mode_layers:
        cnet, inet = ModeNet(cnet, 1), ModeNet(inet, scene.n_nodes)
    p = TopDownPredictor(centroid_config=ccfg, confmap_config=icfg, centroid_model=cnet, confmap_model=inet,
                         centroid_backbone_type="unet", centered_instance_backbone_type="unet",
                         skeletons=skeletons, peak_threshold=threshold, integral_refinement=refinement,
                         batch_size=batch_size, max_instances=max_instances, preprocess_config=None)
    p._initialize_inference_model()
    inet.attach(p.inference_model.instance_peaks)
    return p, cnet, inet


def build_topdown_gt(scene, skeletons, *, sc, os_c, ms_c, max_hw, batch_size, refinement,
                     max_instances=None, threshold=0.2, sigma=1.5):
    """REAL TopDownPredictor with a centroid model only: CentroidCrop (predicted centroids, no crops) +
    FindInstancePeaksGroundTruth (the public ground-truth-peaks variant of top-down inference)."""
    from sleap_nn.inference.predictors import TopDownPredictor
    ccfg = mk_config("centroid", scale=sc, max_stride=ms_c, output_stride=os_c,
                     max_height=max_hw[0], max_width=max_hw[1], crop_hw=None, sigma=sigma)
    cnet = IdealNet(scene, "centroid", os_c, sigma=sigma, scale=sc, max_hw=max_hw)
    p = TopDownPredictor(centroid_config=ccfg, confmap_config=None, centroid_model=cnet, confmap_model=None,
                         centroid_backbone_type="unet", centered_instance_backbone_type=None,
                         skeletons=skeletons, peak_threshold=threshold, integral_refinement=refinement,
                         batch_size=batch_size, max_instances=max_instances, preprocess_config=None)
    p._initialize_inference_model()
    return p, cnet


def build_topdown_gtc(scene, skeletons, *, si, os_i, ms_i, crop_hw, max_hw, batch_size, refinement,
                      threshold=0.2, sigma=1.5, is_rgb=True):
    """REAL TopDownPredictor with a centred-instance model only: CentroidCrop(use_gt_centroids=True)
    (crops around the ground-truth centroids) + FindInstancePeaks around the crop-stage stub."""
    from sleap_nn.inference.predictors import TopDownPredictor
    icfg = mk_config("centered_instance", scale=si, max_stride=ms_i, output_stride=os_i,
                     max_height=max_hw[0], max_width=max_hw[1], crop_hw=list(crop_hw), sigma=sigma, is_rgb=is_rgb)
    inet = IdealNet(scene, "centered", os_i, sigma=sigma, scale=si, max_hw=max_hw)
    p = TopDownPredictor(centroid_config=None, confmap_config=icfg, centroid_model=None, confmap_model=inet,
                         centroid_backbone_type=None, centered_instance_backbone_type="unet",
                         skeletons=skeletons, peak_threshold=threshold, integral_refinement=refinement,
                         batch_size=batch_size, max_instances=None, preprocess_config=None)
    p._initialize_inference_model()
    inet.attach(p.inference_model.instance_peaks)
    return p, inet


@contextlib.contextmanager
def from_numpy_shim():
    """Environment shim: sleap-io 0.9.2 renamed the keyword arguments of `PredictedInstance.from_numpy`
    that the repo's `_make_labeled_frames_from_generator` still uses (points → points_data,
    instance_score → score)."""
    import sleap_io as sio
    orig = sio.PredictedInstance.from_numpy

    def shim(*a, **k):
        if "points" in k:
            k["points_data"] = k.pop("points")
        if "instance_score" in k:
            k["score"] = k.pop("instance_score")
        return orig(*a, **k)
    sio.PredictedInstance.from_numpy = shim
    try:
        yield
    finally:
        sio.PredictedInstance.from_numpy = orig


def labeled_frames_of(predictor, outputs):
    """The REAL consumer (`_make_labeled_frames_from_generator`) on raw outputs → canonical records
    [(video index, frame_idx, [instance points as lists with None for NaN])] in output order."""
    with from_numpy_shim():
        labels = predictor._make_labeled_frames_from_generator(iter(outputs))
    recs = []
    for lf in labels.labeled_frames:
        insts = []
        for inst in lf.instances:
            arr = inst.numpy()
            insts.append([None if np.isnan(q).any() else [float(q[0]), float(q[1])] for q in arr])
        recs.append((predictor.videos.index(lf.video), int(lf.frame_idx), insts))
    return recs


READER_STATS = {"predict_runs": 0, "consumer_abandoned_reader_drained": 0, "reader_alive_after_full_consumption": 0,
                "reader_alive_after_drain": 0, "threads_left_over": 0}
READER_LEFTOVERS = []   # descriptions of readers that did not end although their consumer consumed everything


def _finish_reader(reader, consumed_everything: bool, threads_before: int):
    """Never leave a reader thread behind.  The repo's readers are non-daemon threads that block in
    `frame_buffer.put` (no timeout) when nobody consumes: if the harness's consumer stopped early (an
    exception inside the inference model, e.g. a stub that cannot render) the queue is drained up to the
    end marker here and the thread is joined.  A reader that is still alive after its consumer consumed
    EVERYTHING is not the harness's doing: it is counted separately (a finding about the reader)."""
    import queue as _q
    import threading
    import time
    if reader is None or not hasattr(reader, "frame_buffer"):
        return
    if consumed_everything:
        reader.join(timeout=5.0)
        if reader.is_alive():
            READER_STATS["reader_alive_after_full_consumption"] += 1
            READER_LEFTOVERS.append(f"{type(reader).__name__} still alive 5 s after predict() returned all its outputs")
    if reader.is_alive() or not consumed_everything:
        if not consumed_everything:
            READER_STATS["consumer_abandoned_reader_drained"] += 1
        deadline = time.time() + 30.0
        while time.time() < deadline and (reader.is_alive() or not reader.frame_buffer.empty()):
            try:
                item = reader.frame_buffer.get(timeout=0.2)
            except _q.Empty:
                continue
            if isinstance(item, dict) and item.get("image") is None:
                break
        if reader.ident is not None:
            reader.join(timeout=5.0)
        if reader.is_alive():
            READER_STATS["reader_alive_after_drain"] += 1
    t0 = time.time()
    while threading.active_count() > threads_before and time.time() - t0 < 1.0:
        time.sleep(0.02)
    if threading.active_count() > threads_before:
        READER_STATS["threads_left_over"] += threading.active_count() - threads_before


def run_predict(predictor, provider: str, source, video_range=None):
    """The REAL `make_pipeline` (reader construction, `preprocess` switch) and
    `predict(make_labels=False)` (`_predict_generator`) on an in-memory source.  Whatever happens to the
    consumer, the reader thread is terminated before this returns (see `_finish_reader`)."""
    import threading
    threads_before = threading.active_count()
    READER_STATS["predict_runs"] += 1
    with patched_loaders({"mem": source}):
        if video_range is not None and provider == "VideoReader":
            # the documented frame range of the video provider: frames start_idx … end_idx-1
            predictor.make_pipeline(provider, "mem", video_start_idx=video_range[0], video_end_idx=video_range[1])
        else:
            predictor.make_pipeline(provider, "mem")
    done = False
    try:
        out = predictor.predict(make_labels=False)
        done = True
        return out
    finally:
        _finish_reader(getattr(predictor, "pipeline", None), done, threads_before)


def integral_offset(cm2d: np.ndarray, cx: int, cy: int, patch: int = 5):
    """Independent float64 restatement of integral refinement on one channel: the centre of mass of
    the `patch×patch` window around (cx, cy), zero outside the map, relative to the window centre."""
    r = (patch - 1) // 2
    h, w = cm2d.shape
    z = sx = sy = 0.0
    for dy in range(-r, r + 1):
        for dx in range(-r, r + 1):
            yy, xx = cy + dy, cx + dx
            v = cm2d[yy, xx] if (0 <= yy < h and 0 <= xx < w) else 0.0
            z += v
            sx += dx * v
            sy += dy * v
    return sx / z, sy / z


def argmax_near(cm2d: np.ndarray, gx: float, gy: float, win: int = 2):
    """Cell of the largest value within `win` cells of the (real-valued) grid position (gx, gy)."""
    h, w = cm2d.shape
    x0, y0 = int(round(gx)), int(round(gy))
    best = None
    for yy in range(max(0, y0 - win), min(h, y0 + win + 1)):
        for xx in range(max(0, x0 - win), min(w, x0 + win + 1)):
            v = cm2d[yy, xx]
            if best is None or v > best[0]:
                best = (v, xx, yy)
    return (best[1], best[2], best[0]) if best else (x0, y0, 0.0)
