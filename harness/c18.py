"""C18 — interchangeable data-pipeline implementations produce the same samples.

Model: lean/SleapVerif/Model/Pipelines.lean; theorems: lean/SleapVerif/Props/C18.lean.

Correspondence (every run):
* the three REAL frameworks — `*Dataset` (in-memory cache), `*Dataset(np_chunks=True)` (.npz files in
  a scratch dir), `*_data_chunks` → `*StreamingDataset.__init__/__getitem__` (litdata's storage is
  bypassed: `ld.StreamingDataset.__init__/__getitem__` are stubbed for the duration of a call, the
  subclasses' own `__init__`/`__getitem__` run unchanged) — on the same in-memory `sio.Labels` and
  configuration;
* the Lean driver returns, for the same (framework, model type, config, frame, instance), the exact
  coordinate part and the pixel part as an s-expression; an INTERPRETER below evaluates that term
  with the real primitives (torchvision `resize`, `F.pad`, kornia `crop_and_resize`,
  `ToPILImage`/`ToTensor`, `rgb_to_grayscale`) and the result is compared with what the framework
  produced; the target specifications are evaluated with the repo's generators on the MODEL's
  points and compared with the framework's targets;
* the eight DataPipe blocks: real block vs the model's `dp…` (and vs its functional twin, directly).

Every framework comparison is a READ HISTORY (each index fetched at least twice, other indices in
between, samples deep-copied at fetch time); agreement is required on every fetch.  The block cases
cycle through the boundary modes both twins test (see BLOCK_MODES).

Property oracle (independent of the model): the three frameworks' samples agree directly, in the
region the statement covers, on every fetch; every labelled frame gives the same number of samples.
"""
import contextlib
import copy
import inspect
import json
import shutil
import tempfile
import warnings
from fractions import Fraction

from common import VERIF, Check, call, import_repo, rat, run_check, run_driver

warnings.filterwarnings("ignore")

THEOREMS = [
    "SleapVerif.C18.shape_erase",
    "SleapVerif.C18.centroidOf_scale",
    "SleapVerif.C18.frameworks_agree_scale1",
    "SleapVerif.C18.frameworks_agree_any_scale",
    "SleapVerif.C18.np_stream_pixels_equal",
    "SleapVerif.C18.sample_count_agree",
    "SleapVerif.C18.filterFrame_idem",
    "SleapVerif.C18.frameworks_enumerate_same_instances",
    "SleapVerif.C18.sampleOfRaw_eq",
    "SleapVerif.C18.np_chunks_rewrite_independent_of_directory_state",
    "SleapVerif.C18.np_chunks_existing_serves_directory",
    "SleapVerif.C18.np_chunks_existing_dirty_counterexample",
    "SleapVerif.C18.val_glue_only_padding",
    "SleapVerif.C18.val_glue_counterexample",
    "SleapVerif.C18.datapipe_sizematcher_partial",
    "SleapVerif.C18.datapipe_sizematcher_counterexample",
    "SleapVerif.C18.targets_from_same_points",
    "SleapVerif.C18.targets_agree_scale1",
    "SleapVerif.C18.targets_agree_any_scale",
    "SleapVerif.C18.cfg_max_override_counterexample",
    "SleapVerif.C18.cfg_max_override_repaired",
    "SleapVerif.C18.single_maxinst_counterexample",
    "SleapVerif.C18.single_maxinst_repaired",
    "SleapVerif.C18.sample_count_counterexample",
    "SleapVerif.C18.centered_rank_differs",
    "SleapVerif.C18.centered_numInstances_counterexample",
    "SleapVerif.C18.centered_scale_differs",
    "SleapVerif.C18.centroid_instances_differ",
    "SleapVerif.C18.datapipe_eq_function_normalizer",
    "SleapVerif.C18.datapipe_eq_function_resizer",
    "SleapVerif.C18.datapipe_eq_function_padToStride",
    "SleapVerif.C18.datapipe_eq_function_centroidFinder",
    "SleapVerif.C18.datapipe_eq_function_instanceCropper",
    "SleapVerif.C18.datapipe_eq_function_confmapGen",
    "SleapVerif.C18.datapipe_eq_function_multiConfmapGen",
    "SleapVerif.C18.datapipe_eq_function_pafGen",
    "SleapVerif.C18.defaults_agree_where_shared",
]

IMG_TOL_Q = 1.0 / 255 + 1e-6      # one 8-bit round trip (between frameworks; model vs framework only when a crop box is inexact)
IMG_TOL = 2e-6                    # same operations in the same order, `quant8` in the same place
MTS = ["single", "centroid", "centered", "bottomup"]
FWS = ["mem", "np", "stream"]
ASSET = "tests/assets/minimal_instance.pkg.slp"

class ProviderMismatch(Exception):
    pass


E = {}  # lazily filled environment (torch, repo symbols)
LAST_CASE = {}


# ------------------------------------------------------------------ environment
def setup_env():
    import numpy as np
    import torch
    import attrs
    import sleap_io as sio
    import litdata as ld
    import torch.nn.functional as F
    import torchvision.transforms as T
    import torchvision.transforms.v2.functional as tvf
    from kornia.geometry.transform import crop_and_resize
    from omegaconf import DictConfig
    from sleap_io.io.video_reading import VideoBackend
    from sleap_nn.data import (confidence_maps, custom_datasets, edge_maps, get_data_chunks,
                               instance_centroids, instance_cropping, normalization, providers,
                               resizing, streaming_datasets)
    from common import REPO

    @attrs.define
    class ArrayBackend(VideoBackend):
        arr: np.ndarray = None

        @property
        def num_frames(self):
            return int(self.arr.shape[0])

        @property
        def img_shape(self):
            return tuple(int(v) for v in self.arr.shape[1:])

        def _read_frame(self, i):
            return self.arr[i].copy()

        def _read_frames(self, inds):
            return np.stack([self.arr[i] for i in inds]).copy()

        def read_test_frame(self):
            return self.arr[0].copy()

    class MemVideo(sio.Video):
        def exists(self, *a, **k):
            return True

    from loguru import logger as _lg
    _lg.disable("sleap_nn.data.resizing")     # SizeMatcher logs an error before raising on a larger frame
    base = sio.load_slp(str(REPO / ASSET))
    E.update(np=np, torch=torch, sio=sio, ld=ld, F=F, T=T, tvf=tvf, crop_and_resize=crop_and_resize,
             DictConfig=DictConfig, ArrayBackend=ArrayBackend, MemVideo=MemVideo,
             asset=np.asarray(base[0].image), cd=custom_datasets, gc=get_data_chunks,
             sd=streaming_datasets, prov=providers, cm=confidence_maps, em=edge_maps,
             ic=instance_centroids, icr=instance_cropping, nz=normalization, rs=resizing)


def make_image(rng_seed, h, w, c):
    """Textured uint8 frame: a window of the asset's real frame where it fits, blended with smooth
    and fine noise so that resampling order, padding and crop position all leave a trace."""
    np = E["np"]
    g = np.random.default_rng(rng_seed)
    low = g.integers(0, 256, size=(max(2, h // 16 + 2), max(2, w // 16 + 2), c)).astype(np.float32)
    ys = np.linspace(0, low.shape[0] - 1.001, h)
    xs = np.linspace(0, low.shape[1] - 1.001, w)
    y0, x0 = ys.astype(int), xs.astype(int)
    fy, fx = (ys - y0)[:, None, None], (xs - x0)[None, :, None]
    sm = (low[y0][:, x0] * (1 - fy) * (1 - fx) + low[y0 + 1][:, x0] * fy * (1 - fx)
          + low[y0][:, x0 + 1] * (1 - fy) * fx + low[y0 + 1][:, x0 + 1] * fy * fx)
    img = 0.6 * sm + 0.4 * g.integers(0, 256, size=(h, w, c))
    a = E["asset"]
    if h <= a.shape[0] and w <= a.shape[1]:
        oy, ox = int(g.integers(0, a.shape[0] - h + 1)), int(g.integers(0, a.shape[1] - w + 1))
        img = 0.5 * img + 0.5 * a[oy:oy + h, ox:ox + w, :1].astype(np.float32)
    return np.clip(img, 0, 255).astype(np.uint8)


def iraw(inst):
    """Points of a spec instance as stored: a plain list is a user instance, {"pred": true, "pts": […]} a
    predicted one.  A point is [x, y], None (stored as NaN) or {"hidden": [x, y]}: stored through the
    sleap-io API with FINITE coordinates and `visible = False`."""
    return inst["pts"] if isinstance(inst, dict) and "pts" in inst else inst


def pvis(q):
    """The `Instance.numpy()` abstraction of a stored point (what the model's labelled frame holds):
    an invisible point is missing whatever its stored coordinates."""
    return None if (q is None or isinstance(q, dict)) else q


def ipts(inst):
    """Keypoints of a spec instance as `Instance.numpy()` returns them."""
    return [pvis(q) for q in iraw(inst)]


def ipred(inst):
    return isinstance(inst, dict) and bool(inst.get("pred"))


def enum_insts(fr, uio):
    """Index bookkeeping only: the keypoint lists a framework is expected to enumerate for a frame
    (user instances when `user_instances_only` and there is one, else all)."""
    users = [i for i in fr["insts"] if not ipred(i)]
    return [ipts(i) for i in (users if (uio and users) else fr["insts"])]


def labelled_line(fr):
    toks = [str(len(fr["insts"]))]
    for inst in fr["insts"]:
        pts = ipts(inst)
        toks += ["1" if ipred(inst) else "0", str(len(pts))]
        toks += ["nan nan" if p is None else f"{rat(float(p[0]))} {rat(float(p[1]))}" for p in pts]
    return " ".join(toks)


def build_labels(spec):
    """Fresh in-memory `sio.Labels` for a spec (every framework gets its own copy: `process_lf`
    re-assigns `lf.instances` and `generate_centroids` may write through)."""
    np, sio = E["np"], E["sio"]
    skel = sio.Skeleton(nodes=[sio.Node(f"n{i}") for i in range(spec["n_nodes"])])
    for u, v in spec["edges"]:
        skel.add_edge(f"n{u}", f"n{v}")
    vids = []
    for vi, v in enumerate(spec["videos"]):
        arr = np.stack([make_image(v["seed"] + 7919 * t, v["h"], v["w"], v["c"]) for t in range(v["n"])])
        be = E["ArrayBackend"](filename=f"mem{vi}.mp4", grayscale=(v["c"] == 1), keep_open=True, arr=arr)
        vids.append(E["MemVideo"](filename=f"mem{vi}.mp4", backend=be, open_backend=False))
    lfs = []
    for fr in spec["frames"]:
        insts = []
        for inst in fr["insts"]:
            raw_pts = iraw(inst)
            arr = np.array([[np.nan, np.nan] if p is None else (p["hidden"] if isinstance(p, dict) else [p[0], p[1]])
                            for p in raw_pts], dtype=float)
            if ipred(inst):
                obj = sio.PredictedInstance.from_numpy(arr, skel, point_scores=np.ones(len(arr)), score=0.9)
            else:
                obj = sio.Instance.from_numpy(arr, skeleton=skel)
            for k_, p in enumerate(raw_pts):
                if isinstance(p, dict):                 # finite xy kept, marked invisible
                    obj.points["visible"][k_] = False
            insts.append(obj)
        lfs.append(sio.LabeledFrame(video=vids[fr["video"]], frame_idx=fr["t"], instances=insts))
    return sio.Labels(labeled_frames=lfs, videos=vids, skeletons=[skel])


def frame_image(spec, fr):
    v = spec["videos"][fr["video"]]
    return make_image(v["seed"] + 7919 * fr["t"], v["h"], v["w"], v["c"])


# ------------------------------------------------------------------ running the real frameworks
@contextlib.contextmanager
def stubbed_litdata(items):
    """`ld.StreamingDataset` storage bypass: its `__init__` does nothing and its `__getitem__`
    returns the chunk function's output; the subclasses' own code runs unchanged."""
    ld = E["ld"]
    old = (ld.StreamingDataset.__init__, ld.StreamingDataset.__getitem__)
    ld.StreamingDataset.__init__ = lambda self, *a, **k: None
    ld.StreamingDataset.__getitem__ = lambda self, index: copy.deepcopy(items[index])   # a fresh object per read
    try:
        yield
    finally:
        ld.StreamingDataset.__init__, ld.StreamingDataset.__getitem__ = old


def data_config(cfg):
    mh, mw = cfg["cfg_max"] if cfg["cfg_max"] else (None, None)   # each component may be None on its own
    return E["DictConfig"]({"user_instances_only": bool(cfg.get("uio", True)),
                            "preprocessing": {"is_rgb": cfg["is_rgb"], "max_height": mh, "max_width": mw,
                                              "scale": cfg["scale"], "crop_hw": list(cfg["crop"])},
                            "use_augmentations_train": False})


def history_order(n):
    """The read history every framework is driven through: two forward passes, so each index is
    fetched twice with every other index fetched in between (three times when it is the only one)."""
    return list(range(n)) * 2 if n > 1 else [0, 0, 0][: 3 * n]


def read_history(ds, n, tolerate=False):
    """→ [(index, sample)] in `history_order`; the samples are deep copies taken at fetch time, so a
    later fetch cannot retroactively change what an earlier one is recorded to have returned.
    `tolerate`: a fetch that raises is recorded as `("raise", Class, msg)` instead of propagating — used
    for `use_existing_chunks=True`, where a stale file of another labels object (other node count) can
    make `__getitem__` fail (part of F-C18e)."""
    out = []
    for i in history_order(n):
        r = call(lambda: copy.deepcopy(ds[i])) if tolerate else ("ok", copy.deepcopy(ds[i]))
        out.append((i, r[1] if r[0] == "ok" else r))
    return out


def run_frameworks(spec, cfg, tmp, np_dir=None, np_existing=False):
    """→ {fw: read history [(index, sample)…]}, glue values (max_hw, max_instances), and per framework the
    number of samples each labelled frame gave (`"raise:<Class>"` where the chunk function raised)."""
    cd, gc, sd, prov, DC = E["cd"], E["gc"], E["sd"], E["prov"], E["DictConfig"]
    mt, scale, ms = cfg["mt"], cfg["scale"], cfg["max_stride"]
    uio = bool(cfg.get("uio", True))
    head = DC({"sigma": cfg["cm"][0], "output_stride": cfg["cm"][1], "anchor_part": cfg["anchor"]})
    pafs = DC({"sigma": cfg["paf"][0], "output_stride": cfg["paf"][1]})
    probe = build_labels(spec)
    max_hw = prov.get_max_height_width(probe)          # what ModelTrainer hands to every framework
    max_inst = prov.get_max_instances(probe)
    # the two providers are cross-checked against the spec (they feed the model AND every framework)
    want_hw = (max(v["h"] for v in spec["videos"]), max(v["w"] for v in spec["videos"]))
    want_inst = max(len(fr["insts"]) for fr in spec["frames"])
    if tuple(max_hw) != want_hw or max_inst != want_inst:
        raise ProviderMismatch(f"providers: get_max_height_width={max_hw} (spec {want_hw}), get_max_instances={max_inst} (spec {want_inst})")
    if cfg.get("max_hw"):                               # a validation set gets the TRAIN labels' maximum
        max_hw = tuple(cfg["max_hw"])
    chunk_inst = cfg.get("chunk_max_inst") or max_inst  # get_bin_files: train maximum for val chunks too
    out, counts = {}, {}
    for fw in ("mem", "np"):
        # `np_dir`: a chunk directory that may already hold another dataset's files; `np_existing`:
        # build the np dataset with use_existing_chunks=True (it then only reads that directory)
        kw = dict(max_stride=ms, scale=scale, apply_aug=False, max_hw=max_hw, np_chunks=(fw == "np"),
                  np_chunks_path=(np_dir if (fw == "np" and np_dir) else f"{tmp}/{fw}"),
                  use_existing_chunks=(fw == "np" and np_existing))
        lb = build_labels(spec)
        if mt == "single":
            ds = cd.SingleInstanceDataset(lb, data_config(cfg), head, **kw)
        elif mt == "bottomup":
            ds = cd.BottomUpDataset(lb, data_config(cfg), head, pafs, **kw)
        elif mt == "centroid":
            ds = cd.CentroidDataset(lb, data_config(cfg), head, **kw)
        else:
            ds = cd.CenteredInstanceDataset(lb, data_config(cfg), tuple(cfg["crop"]), head, **kw)
        out[fw] = read_history(ds, len(ds), tolerate=(fw == "np" and np_existing))
        owners = [t[0] for t in ds.instance_idx_list] if mt == "centered" else list(ds.lf_idx_list)
        counts[fw] = [owners.count(fi) for fi in range(len(spec["frames"]))]
    lb = build_labels(spec)
    dc = data_config(cfg)
    items = []
    counts["stream"] = []

    def chunk(x):
        if mt == "single":
            return [gc.single_instance_data_chunks(x, data_config=dc, max_hw=max_hw,
                                                   user_instances_only=uio, scale=scale)]
        if mt == "bottomup":
            return [gc.bottomup_data_chunks(x, data_config=dc, max_instances=chunk_inst, max_hw=max_hw,
                                            user_instances_only=uio, scale=scale)]
        if mt == "centroid":
            return [gc.centroid_data_chunks(x, data_config=dc, max_instances=chunk_inst,
                                            anchor_ind=cfg["anchor"], max_hw=max_hw,
                                            user_instances_only=uio, scale=scale)]
        return list(gc.centered_instance_data_chunks(x, data_config=dc, max_instances=chunk_inst,
                                                     crop_size=tuple(cfg["crop"]), anchor_ind=cfg["anchor"],
                                                     max_hw=max_hw, user_instances_only=uio, scale=scale))

    for lf in lb:   # the inputs `get_bin_files.py` hands to `ld.optimize`: every labelled frame
        r = call(chunk, (lf, lb.videos.index(lf.video)))
        if r[0] == "raise":
            counts["stream"].append(f"raise:{r[1]}")
        else:
            counts["stream"].append(len(r[1]))
            items += r[1]
    with stubbed_litdata(items):
        common = dict(confmap_head=head, max_stride=ms, apply_aug=False, augmentation_config=None)
        if mt == "single":
            ds = sd.SingleInstanceStreamingDataset(**common)
        elif mt == "bottomup":
            ds = sd.BottomUpStreamingDataset(pafs_head=pafs, edge_inds=lb.skeletons[0].edge_inds, **common)
        elif mt == "centroid":
            ds = sd.CentroidStreamingDataset(**common)
        else:
            ds = sd.CenteredInstanceStreamingDataset(crop_hw=tuple(cfg["crop"]), input_scale=scale, **common)
        out["stream"] = read_history(ds, len(items))
    return out, max_hw, max_inst, counts


def canon(mt, s):
    """Canonical view of a framework sample."""
    torch = E["torch"]
    c = {}
    if mt == "centered":
        c["img"] = s["instance_image"].float()
        n_nodes = s["instance"].shape[-2]
        c["inst"] = s["instance"].reshape(-1, n_nodes, 2).float()
        c["rank"] = s["instance"].ndim
        c["cen"] = s["centroid"].reshape(-1, 2).float()
        c["bbox"] = s["instance_bbox"].reshape(-1, 2).float()
        c["tgt"] = [s["confidence_maps"].float()]
    else:
        c["img"] = s["image"].float()
        c["inst"] = s["instances"][0].float()
        c["bbox"] = torch.zeros((0, 2))
        if mt == "centroid":
            c["cen"] = s["centroids"][0].float()
            c["rank"] = s["centroids"].ndim
            c["tgt"] = [s["centroids_confidence_maps"].float()]
        else:
            c["cen"] = torch.zeros((0, 2))
            c["rank"] = s["instances"].ndim
            c["tgt"] = [s["confidence_maps"].float()]
            if mt == "bottomup":
                c["tgt"].append(s["part_affinity_fields"].float())
    c["n"] = int(s["num_instances"])
    return c


# ------------------------------------------------------------------ model output parsing + interpreter
def parse_sexpr(s):
    toks = s.replace("(", " ( ").replace(")", " ) ").split()
    pos = [0]

    def rd():
        t = toks[pos[0]]
        pos[0] += 1
        if t != "(":
            return t
        out = []
        while toks[pos[0]] != ")":
            out.append(rd())
        pos[0] += 1
        return out

    return rd()


def fr_(s):
    return None if s == "nan" else Fraction(s)


def parse_pts(toks, i):
    n = int(toks[i]); i += 1
    out = []
    for _ in range(n):
        x, y = fr_(toks[i]), fr_(toks[i + 1]); i += 2
        out.append(None if x is None or y is None else (x, y))
    return out, i


def parse_insts(toks, i):
    n = int(toks[i]); i += 1
    out = []
    for _ in range(n):
        p, i = parse_pts(toks, i)
        out.append(p)
    return out, i


def parse_target(s):
    t = s.split()
    kind = t[0]
    h, w, sg, st = int(t[1]), int(t[2]), Fraction(t[3]), int(t[4])
    if kind == "confmaps":
        pts, _ = parse_pts(t, 5)
        return dict(kind=kind, h=h, w=w, sigma=sg, stride=st, pts=pts)
    if kind == "multi":
        an, _ = parse_insts(t, 5)
        return dict(kind=kind, h=h, w=w, sigma=sg, stride=st, animals=an)
    ne = int(t[5])
    edges = [(int(t[6 + 2 * k]), int(t[7 + 2 * k])) for k in range(ne)]
    an, _ = parse_insts(t, 6 + 2 * ne)
    return dict(kind=kind, h=h, w=w, sigma=sg, stride=st, edges=edges, animals=an)


def parse_fields(line):
    assert line.startswith("ok "), line
    d = {}
    for part in line[3:].split(";"):
        k, _, v = part.partition("=")
        d[k.strip()] = v.strip()
    return d


def parse_model(line):
    d = parse_fields(line)
    m = {"img": parse_sexpr(d["img"]), "img_src": d["img"]}
    m["shape"] = tuple(int(x) for x in d["shape"].split())
    m["n"], m["rank"] = int(d["n"]), int(d["rank"])
    m["inst"], _ = parse_insts(d["inst"].split(), 0)
    m["cen"], _ = parse_pts(d["cen"].split(), 0)
    m["bbox"], _ = parse_pts(d["bbox"].split(), 0)
    m["eff"] = [Fraction(x) for x in d["eff"].split()]
    m["tgt"] = [parse_target(x) for x in d["tgt"].split(" , ")] if d["tgt"] else []
    return m


def interp(term, raw):
    """Evaluate a pixel term with the real primitives; `raw` = uint8 array (H, W, C)."""
    np, torch, F, T, tvf = E["np"], E["torch"], E["F"], E["T"], E["tvf"]
    if term == "raw":
        return torch.from_numpy(np.transpose(raw, (2, 0, 1))[None].copy())
    op = term[0]
    x = interp(term[-1], raw)
    if op == "norm":
        return x if torch.is_floating_point(x) else x.to(torch.float32) / 255.0
    if op == "gray":
        return x if x.shape[-3] == 1 else tvf.rgb_to_grayscale(x, num_output_channels=1)
    if op == "rgb":
        return x if x.shape[-3] == 3 else x.repeat(1, 3, 1, 1)
    if op == "sizematch":
        mh, mw, th, tw = (int(v) for v in term[1:5])
        if tuple(x.shape[-2:]) == (mh, mw):
            return x
        x = tvf.resize(x, size=(th, tw))
        return F.pad(x, (0, mw - tw, 0, mh - th), mode="constant").to(torch.float32)
    if op == "resize":
        return tvf.resize(x, size=[int(term[1]), int(term[2])])
    if op == "pad":
        ph, pw = int(term[1]), int(term[2])
        return F.pad(x, (0, pw, 0, ph), mode="constant").to(torch.float32) if (ph or pw) else x
    if op == "crop":
        x0, y0, x1, y1 = (float("nan") if v == "nan" else float(Fraction(v)) for v in term[1:5])
        h, w = int(term[5]), int(term[6])
        box = torch.tensor([[[x0, y0], [x1, y0], [x1, y1], [x0, y1]]], dtype=torch.float32)
        return E["crop_and_resize"](x, boxes=box, size=(h, w))
    if op == "quant8":
        pil = T.ToPILImage()(x.squeeze(dim=0))
        return T.ToTensor()(pil).unsqueeze(dim=0)
    raise ValueError(op)


def has_quant(term):
    return term != "raw" and (term[0] == "quant8" or has_quant(term[-1]))


def pts_tensor(pts):
    torch = E["torch"]
    nan = float("nan")
    return torch.tensor([[nan, nan] if p is None else [float(p[0]), float(p[1])] for p in pts],
                        dtype=torch.float32).reshape(-1, 2)


def insts_tensor(insts):
    torch = E["torch"]
    if not insts:
        return torch.zeros((0, 0, 2))
    return torch.stack([pts_tensor(p) for p in insts])


def eval_target(t):
    """Target specification → tensor, with the repo's generators as the interpretation."""
    torch, cm, em = E["torch"], E["cm"], E["em"]
    if t["kind"] == "confmaps":
        return cm.generate_confmaps(pts_tensor(t["pts"]).unsqueeze(0), img_hw=(t["h"], t["w"]),
                                    sigma=float(t["sigma"]), output_stride=t["stride"])
    if t["kind"] == "multi":
        a = insts_tensor(t["animals"]).unsqueeze(0)
        return cm.generate_multiconfmaps(a, img_hw=(t["h"], t["w"]), num_instances=a.shape[1],
                                         sigma=float(t["sigma"]), output_stride=t["stride"], is_centroids=False)
    a = insts_tensor(t["animals"]).unsqueeze(0)
    return em.generate_pafs(a, img_hw=(t["h"], t["w"]), sigma=float(t["sigma"]), output_stride=t["stride"],
                            edge_inds=torch.Tensor(t["edges"]), flatten_channels=True)


# ------------------------------------------------------------------ comparisons
def close_pts(a, b, tol, atol=0.0):
    """NaN pattern exact; values within atol + tol·max(1,|v|). Returns None or a description.
    `atol` absorbs float32 cancellation: keypoints are computed at frame magnitude (hundreds of
    pixels) and then shifted to crop coordinates, so the rounding error is relative to the frame
    size, not to the (possibly small) final value."""
    torch = E["torch"]
    if a.numel() == 0 and b.numel() == 0 and a.shape[0] == b.shape[0] == 0:
        return None      # an empty list of animals carries no node count in the model's output
    if tuple(a.shape) != tuple(b.shape):
        return f"shape {tuple(a.shape)} vs {tuple(b.shape)}"
    if a.numel() == 0:
        return None
    na, nb = torch.isnan(a), torch.isnan(b)
    if not torch.equal(na, nb):
        return f"NaN pattern differs: {a.tolist()} vs {b.tolist()}"
    d = (torch.nan_to_num(a) - torch.nan_to_num(b)).abs()
    lim = atol + tol * torch.clamp(torch.nan_to_num(b).abs(), min=1.0)
    if bool((d > lim).any()):
        return f"max |Δ| = {float(d.max()):.6g}: {a.tolist()} vs {b.tolist()}"
    return None


def close_img(a, b, tol):
    if tuple(a.shape) != tuple(b.shape):
        return f"shape {tuple(a.shape)} vs {tuple(b.shape)}"
    torch = E["torch"]
    if not torch.equal(torch.isnan(a), torch.isnan(b)):
        return "NaN pattern differs"
    d = float((torch.nan_to_num(a) - torch.nan_to_num(b)).abs().max()) if a.numel() else 0.0
    if not d <= tol:
        return f"max |Δ| = {d:.6g} > {tol:.6g}"
    return None


def is_dyadic(q: Fraction):
    d = q.denominator
    return d & (d - 1) == 0 and d <= 64


def compare_model(mt, m, c, raw, exact, mag):
    """model sample vs canonical framework sample → list of differences.  `mag` = largest
    coordinate magnitude that can occur on the way (frame size × scale)."""
    diffs = []
    ctol = 0.0 if exact else 2e-6
    atol = 0.0 if exact else 1e-6 * mag
    got = interp(m["img"], raw)
    if tuple(got.shape[-3:]) != m["shape"]:
        diffs.append(f"interpreter shape {tuple(got.shape)} vs model shape {m['shape']}")
    # The interpreter performs the very ToPILImage/ToTensor round trip where the term says, so the real
    # sample must match it tightly: this is what ties the POSITION and NUMBER of `quant8` to the code.
    # Only a centred-instance term whose crop box is not exactly representable in float32 may flip a
    # quantisation level after box rounding; there the one-level tolerance applies.
    # Without `quant8` an inexact box still moves the bilinear sample points by a float32 ulp of the frame
    # coordinate (≤ ~1e-7·mag px, image gradient ≤ 1 per px).
    inexact_box = mt == "centered" and not exact
    tol = IMG_TOL if not inexact_box else (IMG_TOL_Q if has_quant(m["img"]) else IMG_TOL + 1e-7 * mag)
    e = close_img(got.float(), c["img"], tol)
    if e:
        diffs.append(f"image: {e} [{m['img_src']}]")
    for key, val in (("inst", insts_tensor(m["inst"])), ("cen", pts_tensor(m["cen"])), ("bbox", pts_tensor(m["bbox"]))):
        e = close_pts(c[key], val, ctol, atol)
        if e:
            diffs.append(f"{key}: {e}")
    if m["n"] != c["n"]:
        diffs.append(f"num_instances {c['n']} vs {m['n']}")
    if m["rank"] != c["rank"]:
        diffs.append(f"rank {c['rank']} vs {m['rank']}")
    if len(m["tgt"]) != len(c["tgt"]):
        diffs.append("number of targets")
    else:
        for t, real in zip(m["tgt"], c["tgt"]):
            e = close_img(eval_target(t), real, 1e-6 if exact else 1e-4)
            if e:
                diffs.append(f"target {t['kind']}: {e}")
    return diffs


def split_padding(t, n):
    """(first n rows, are the remaining rows all NaN?)"""
    torch = E["torch"]
    return t[:n], bool(torch.isnan(t[n:]).all()) if t.shape[0] > n else True


def oracle(mt, cs, has_empty, mag, sig_eff=1.0, pad_ok=False):
    """Property C18 on the three frameworks' canonical samples (one index). → list of failures.
    `sig_eff`: smallest Gaussian width of the targets (a point moved by d moves a target value by at
    most ~0.61·d/σ); `pad_ok`: the chunk functions were handed another `max_instances` than the torch
    dataset computed (val glue): rows beyond `num_instances` must be all-NaN on both sides and only
    the first `num_instances` rows are compared."""
    torch = E["torch"]
    fails = []
    a = cs["mem"]
    p_tol = 4e-7 * mag                          # float32 noise of a coordinate at frame magnitude
    t_tol = 1e-5 + 0.7 * (p_tol + 1e-5) / max(sig_eff, 0.25)
    for fw in ("np", "stream"):
        b = cs[fw]
        e = close_img(a["img"], b["img"], IMG_TOL_Q)
        if e:
            fails.append(f"image mem vs {fw}: {e}")
        keys = {"single": ["inst"], "bottomup": ["inst"], "centroid": ["cen"], "centered": ["inst", "cen", "bbox"]}[mt]
        for k in keys:
            x, y = a[k], b[k]
            if pad_ok and fw == "stream" and mt in ("bottomup", "centroid") and a["n"] == b["n"]:
                (x, okx), (y, oky) = split_padding(x, a["n"]), split_padding(y, b["n"])
                if not (okx and oky):
                    fails.append(f"{k} mem vs {fw}: rows beyond num_instances are not all NaN")
            e = close_pts(x, y, 1e-5, 1e-6 * mag)
            if e:
                fails.append(f"{k} mem vs {fw}: {e}")
        for i, (x, y) in enumerate(zip(a["tgt"], b["tgt"])):
            e = close_img(x, y, t_tol)
            if e:
                fails.append(f"target#{i} mem vs {fw}: {e}")
        if not (mt == "centered" and has_empty) and a["n"] != b["n"]:
            fails.append(f"num_instances mem {a['n']} vs {fw} {b['n']}")
    # np and stream quantise the same pixels (padding zeros commute with the round trip): the two are
    # EQUAL, not merely within a level of each other (`np_stream_pixels_equal`)
    e = close_img(cs["np"]["img"], cs["stream"]["img"], 1e-7)
    if e:
        fails.append(f"image np vs stream (must be equal): {e}")
    return fails


# ------------------------------------------------------------------ generators
def gen_points(rng, h, w, n_nodes, p_missing):
    pts = []
    cx, cy = rng.randrange(8 * 16, (w - 8) * 16) / 16, rng.randrange(8 * 16, (h - 8) * 16) / 16
    for _ in range(n_nodes):
        if rng.random() < p_missing:
            # a missing node is stored either as NaN or — as the GUI does after "mark as not visible" —
            # with finite coordinates and visible=False
            if rng.random() < 0.5:
                pts.append({"hidden": [min(max(cx + rng.randrange(-16 * 16, 16 * 16) / 16, 1.0), w - 2.0),
                                       min(max(cy + rng.randrange(-16 * 16, 16 * 16) / 16, 1.0), h - 2.0)]})
            else:
                pts.append(None)
        else:
            x = min(max(cx + rng.randrange(-24 * 16, 24 * 16) / 16, 1.0), w - 2.0)
            y = min(max(cy + rng.randrange(-24 * 16, 24 * 16) / 16, 1.0), h - 2.0)
            pts.append((x, y))
    return pts


def gen_case(rng, mt=None, scale=None, cfg_override=False, extra=None, max_hw_mode=False, n_nodes=None):
    """`cfg_override`: the config sets max_height and/or max_width (each component on its own);
    `extra="single_extra"`: single-animal labels in which one frame carries a second, empty instance
    (get_max_instances = 2; region of F-C18b); `extra="all_empty"`: one more labelled frame whose
    instances are all empty (region of F-C18c)."""
    mt = mt or rng.choice(MTS)
    n_nodes = n_nodes or rng.choice([2, 3])
    edges = [(i, i + 1) for i in range(n_nodes - 1)]     # always within the skeleton's node count
    if n_nodes == 3 and rng.random() < 0.3:
        edges = [(1, 0), (1, 2)]
    # sizes chosen so that eff_scale is 1, dyadic (2) or not dyadic (8/5, 4/3 …) with comparable odds
    big = rng.choice([(96, 128), (120, 160), (100, 150), (128, 128), (90, 132)])
    nv = rng.choice([1, 2, 2])
    sizes = [big]
    if nv == 2:
        sizes.append(rng.choice([(big[0] // 2, big[1] // 2), (big[0] * 5 // 8, big[1] * 5 // 8),
                                 (big[0] * 3 // 4, big[1] * 3 // 4 - 3), (big[0] - 7, big[1])]))
    c = rng.choice([1, 3])
    videos = [{"h": s[0], "w": s[1], "c": c, "n": 2, "seed": rng.randrange(10 ** 6)} for s in sizes]
    frames = []
    for vi in range(nv):
        for t in range(rng.choice([1, 1, 2])):
            if mt == "single":
                k = 1
            else:
                k = rng.choice([1, 2, 2, 3])
            insts = []
            for _ in range(k):
                p = gen_points(rng, sizes[vi][0], sizes[vi][1], n_nodes, rng.choice([0.0, 0.0, 0.3]))
                if all(pvis(q) is None for q in p):
                    p[rng.randrange(n_nodes)] = (16.5, 20.25)
                insts.append(p)
            if mt != "single" and rng.random() < 0.2:
                # an empty instance: every node NaN or stored invisible with finite coordinates
                insts.insert(rng.randrange(len(insts) + 1),
                             [rng.choice([None, None, {"hidden": [12.5, 14.0]}]) for _ in range(n_nodes)])
            # predicted instances next to the user instances: before, between, after, or alone
            mix = rng.choice(["none", "none", "first", "between", "last", "first+last", "only"])
            def pred():
                q = gen_points(rng, sizes[vi][0], sizes[vi][1], n_nodes, rng.choice([0.0, 0.3]))
                if all(pvis(x) is None for x in q):
                    q[0] = (20.5, 18.25)
                return {"pred": True, "pts": q}
            if mix == "only":
                insts = [{"pred": True, "pts": iraw(i)} for i in insts if any(q is not None for q in ipts(i))]
            else:
                if "first" in mix:
                    insts.insert(0, pred())
                if mix == "between":
                    insts.insert(max(1, len(insts) // 2), pred())
                if "last" in mix:
                    insts.append(pred())
            frames.append({"video": vi, "t": t, "insts": insts})
    if extra == "single_extra":
        fr = rng.choice(frames)
        fr["insts"].insert(rng.randrange(2), [None] * n_nodes)
    if extra == "all_empty":
        vi = rng.randrange(nv)
        used = [f["t"] for f in frames if f["video"] == vi]
        t = min(set(range(3)) - set(used))
        for v in videos:
            v["n"] = 3
        frames.insert(rng.randrange(len(frames) + 1),
                      {"video": vi, "t": t, "insts": [[None] * n_nodes] * rng.choice([1, 2])})
    spec = {"n_nodes": n_nodes, "edges": edges, "videos": videos, "frames": frames}
    if scale is None:
        scale = rng.choice([1.0, 1.0, 1.0, 0.5, 0.5, 0.25, 0.75, 1.5, 2.0, 0.625, 1.25, 0.3, 0.7, 0.9, 1.1])
    cfg = {"mt": mt, "is_rgb": rng.random() < 0.5, "scale": scale,
           "max_stride": rng.choice([1, 2, 8, 16, 16, 32]),
           "crop": rng.choice([(32, 32), (48, 48), (64, 64), (40, 56), (47, 47), (24, 24)]),
           "anchor": rng.choice([None, 0, 0, 1]),
           "cm": (rng.choice([1.5, 2.5, 1.0]), rng.choice([1, 2, 2, 4])),
           "paf": (rng.choice([4.0, 2.0, 1.5]), rng.choice([2, 4, 4, 8])),
           "cfg_max": None, "uio": rng.random() < 0.65}
    if cfg_override:
        H, W = max(s[0] for s in sizes), max(s[1] for s in sizes)
        cfg["cfg_max"] = rng.choice([(H + 24, W + 40), (H, W + 16), (H * 2, W * 2), (H + 8, W),
                                     (None, W + 32), (H + 16, None), (None, W * 2), (H * 2, None),
                                     # smaller than the frames: the down-scaling branch of apply_sizematcher
                                     (H * 3 // 4, W * 3 // 4), (H // 2, W // 2), (H - 16, W), (None, W - 24),
                                     (H * 5 // 8, None), (H - 8, W + 16), (H + 16, W * 3 // 4)])
    if max_hw_mode:
        # the validation dataset is handed the TRAIN labels' max_hw (model_trainer.py): smaller, larger, mixed
        H, W = max(s[0] for s in sizes), max(s[1] for s in sizes)
        cfg["max_hw"] = rng.choice([(H * 3 // 4, W * 3 // 4), (H // 2, W // 2), (H + 32, W + 16), (H - 12, W + 20),
                                    (H * 2, W * 2), (H, W - 28)])
    return spec, cfg


def sizematch_tag(spec, cfg, max_hw, fr):
    v = spec["videos"][fr["video"]]
    th, tw = target_hw(cfg, max_hw)
    if (v["h"], v["w"]) == (th, tw):
        return "none"
    r = min(Fraction(th, v["h"]), Fraction(tw, v["w"]))
    return "up" if r > 1 else "down" if r < 1 else "pad_only"


def target_hw(cfg, max_hw):
    """What every framework size-matches to: the config value where set, else `max_hw` (per component)."""
    ch, cw = cfg["cfg_max"] if cfg["cfg_max"] else (None, None)
    return (max_hw[0] if ch is None else ch, max_hw[1] if cw is None else cw)


def model_line(fw, spec, cfg, fr, k, max_hw, max_inst, alias):
    v = spec["videos"][fr["video"]]
    o = lambda x: "-1" if x is None else str(x)
    cm_h, cm_w = cfg["cfg_max"] if cfg["cfg_max"] else (None, None)
    toks = ["sample", fw, cfg["mt"], "1" if cfg["is_rgb"] else "0", str(max_hw[0]), str(max_hw[1]),
            o(cm_h), o(cm_w), rat(float(cfg["scale"])), str(cfg["max_stride"]), str(cfg["crop"][0]),
            str(cfg["crop"][1]), o(cfg["anchor"]), str(max_inst), o(cfg.get("chunk_max_inst")), "1" if alias else "0", "1" if cfg.get("uio", True) else "0",
            rat(float(cfg["cm"][0])), str(cfg["cm"][1]), rat(float(cfg["paf"][0])), str(cfg["paf"][1]),
            str(len(spec["edges"]))] + [f"{u} {w}" for u, w in spec["edges"]]
    toks += [str(v["h"]), str(v["w"]), str(v["c"]), str(k), labelled_line(fr)]
    return " ".join(toks)


def sample_index(spec, mt, uio=True):
    """(frame, k) for every dataset index, in the order all three frameworks enumerate them."""
    out = []
    for fr in spec["frames"]:
        ne = sum(1 for p in enum_insts(fr, uio) if any(q is not None for q in p))
        if mt == "centered":
            out += [(fr, k) for k in range(ne)]
        elif ne:
            out.append((fr, 0))
    return out


def knife_edge(spec, cfg, max_hw):
    """`round()` of a size-matched side exactly on .5 (the only place where exact rational arithmetic
    and Python's float64 `h * ratio` can round differently).  `int(h * scale)` needs no skip: the model
    takes that product in float64 too (`Num.mulTrunc`, `roundF64`)."""
    targets = [target_hw(cfg, max_hw)]
    for v in spec["videos"]:
        for mh, mw in targets:
            if (v["h"], v["w"]) == (mh, mw):
                continue
            r = min(Fraction(mh, v["h"]), Fraction(mw, v["w"]))
            for side in (v["h"], v["w"]):
                if (side * r) % 1 == Fraction(1, 2):
                    return True
    return False


def covered(cfg):
    """The region the property (and the theorems) speak about."""
    return cfg["scale"] == 1.0 or cfg["mt"] != "centered"


def eff_is_exact(spec, cfg, max_hw):
    ok = is_dyadic(Fraction(float(cfg["scale"])))
    th, tw = target_hw(cfg, max_hw)
    for v in spec["videos"]:
        if (v["h"], v["w"]) != (th, tw):
            ok = ok and is_dyadic(min(Fraction(th, v["h"]), Fraction(tw, v["w"])))
    return ok


def signatures(spec, cfg, max_hw, max_inst, frame=None):
    uio = bool(cfg.get("uio", True))
    """Structural predicates of a failing case, matched against the `known` entries."""
    sig = []
    if cfg["cfg_max"] is not None and target_hw(cfg, max_hw) != tuple(max_hw):
        sig.append("cfg_max_hw_differs_from_labels_max_hw")          # F-C18a (fixed: suppresses nothing)
    if cfg["mt"] == "single" and max_inst != 1:
        sig.append("single_labels_max_instances_ne_1")                # F-C18b (fixed: suppresses nothing)
    if frame is not None and all(all(q is None for q in p) for p in enum_insts(frame, uio)):
        sig.append("frame_with_only_empty_instances")                 # F-C18c
    return sig


# ------------------------------------------------------------------ one labels/config case, end to end
def run_case(chk, spec, cfg, alias, tmp, tag, do_model=True, np_dir=None, np_existing=False, prior=None):
    """Runs frameworks + model for every sample of the case.  Returns (n_samples, oracle failures)."""
    torch = E["torch"]
    LAST_CASE.update(spec=spec, cfg=cfg)
    sub = tempfile.mkdtemp(dir=tmp)
    try:
        fwout, max_hw, max_inst, counts = run_frameworks(spec, cfg, sub, np_dir=np_dir, np_existing=np_existing)
    except ProviderMismatch as e:
        chk.fail(f"C18 fails: {e}", {"spec": spec, "cfg": cfg}, str(e))
        return 0, [str(e)]
    finally:
        shutil.rmtree(sub, ignore_errors=True)
    if knife_edge(spec, cfg, max_hw):
        chk.knife_edges += 1
        return 0, []
    mt = cfg["mt"]
    case = {"spec": spec, "cfg": cfg}
    if np_dir:
        case["np_chunk_directory"] = ("use_existing_chunks=True on the directory the same dataset filled" if np_existing
                                      else "directory may hold an earlier dataset's sample_*.npz")
        case["np_existing"] = np_existing
        if prior:
            case["prior"] = prior      # the dataset that filled the directory before (replayed first)
    all_fails = []
    # ---- how many samples each labelled frame gives (model: sampleCount; property: the same everywhere)
    # one driver process per case: the `count` lines and the `sample` lines travel together
    uio = bool(cfg.get("uio", True))
    idx = sample_index(spec, mt, uio)
    clines = [f"count {fw} {mt} {int(uio)} {labelled_line(fr)}" for fr in spec["frames"] for fw in FWS]
    lines, keys = [], []
    for i, (fr, k) in enumerate(idx):
        for fw in FWS:
            if do_model:
                lines.append(model_line(fw, spec, cfg, fr, k, max_hw, max_inst, alias))
                keys.append((i, fw))
    dout = run_driver("C18.lean", clines + lines) if do_model else []
    cmodel = iter(dout[:len(clines)]) if do_model else None
    models = dict(zip(keys, dout[len(clines):]))
    for fi, fr in enumerate(spec["frames"]):
        for fw in FWS:
            got = counts[fw][fi]
            got_s = "raise" if isinstance(got, str) else f"ok {got}"
            if do_model:
                want = next(cmodel)
                if want != got_s:
                    chk.disagree(f"sampleCount {fw} {mt} == real framework", {**case, "frame": fi}, f"{got_s} ({got})", want)
        if not (counts["mem"][fi] == counts["np"][fi] == counts["stream"][fi]):
            msg = f"frame {fi}: samples per framework {dict((f, counts[f][fi]) for f in FWS)}"
            all_fails.append(msg)
            chk.fail(f"C18 fails ({mt}): {msg}", {**case, "frame": fi}, {f: counts[f][fi] for f in FWS},
                     signatures(spec, cfg, max_hw, max_inst, fr))
        chk.tag("frame_counts_checked")
    hist = history_order(len(idx))
    if np_existing and len({i for i, _ in fwout["np"]}) != len(idx):
        # use_existing_chunks=True serves the directory: with surplus files of an earlier dataset its
        # length is the number of files (F-C18e).  Reported through the oracle only (the model's
        # `npDataset true` says the same: `np_chunks_existing_dirty_counterexample`).
        n_np = len({i for i, _ in fwout["np"]})
        surplus = bool(prior) and len(sample_index(prior["spec"], prior["cfg"]["mt"], bool(prior["cfg"].get("uio", True)))) > len(idx)
        msg = f"np_chunks dataset with use_existing_chunks=True has {n_np} samples, the in-memory dataset of the same labels {len(idx)}"
        chk.fail(f"C18 fails ({mt}): {msg}", case, {"np": n_np, "mem": len(idx)},
                 ["existing_chunks_directory_with_surplus_files"] if surplus and n_np > len(idx) else [])
        return 0, [msg]
    raised = [(i, smp) for i, smp in fwout["np"] if isinstance(smp, tuple)]
    if raised:
        msg = f"np_chunks dataset with use_existing_chunks=True: __getitem__({raised[0][0]}) raises {raised[0][1][1:]}"
        chk.fail(f"C18 fails ({mt}): {msg}", case, msg, [])
        return 0, [msg]
    for fw in FWS:
        if len(fwout[fw]) != len(hist):
            n_fw = {f: len({i for i, _ in fwout[f]}) for f in FWS}
            chk.disagree("number of samples per framework", case, n_fw, len(idx))
            chk.fail(f"framework {fw} yields {n_fw[fw]} samples, expected {len(idx)}", case,
                     n_fw, signatures(spec, cfg, max_hw, max_inst))
            return 0, ["sample count"]
    in_region = covered(cfg)
    exact = eff_is_exact(spec, cfg, max_hw)
    mag = 2.0 * max(target_hw(cfg, max_hw)) * max(1.0, float(cfg["scale"]))
    first_cs = {}
    for pos, i in enumerate(hist):
        fr, k = idx[i]
        cs = {fw: canon(mt, fwout[fw][pos][1]) for fw in FWS}
        refetch = pos >= len(idx)
        here = {**case, "index": i, "k": k}
        if not refetch:
            first_cs[i] = cs
        else:
            # every framework is driven through the same read history; a sample is a function of its
            # index, so a later fetch must return what the first fetch returned (model: `sampleOf` has no
            # state).  Only a fetch that differs is re-examined in full.
            here = {**here, "read_history": hist, "position": pos, "fetch_number": hist[:pos + 1].count(i)}
            changed = [fw for fw in FWS if not same_canon(cs[fw], first_cs[i][fw])]
            chk.tag("refetch_checked")
            if not changed:
                continue
            for fw in changed:
                chk.disagree(f"{fw} {mt}: fetch #{here['fetch_number']} of an index returns what fetch #1 returned",
                             here, describe_change(first_cs[i][fw], cs[fw]), "identical")
        raw = frame_image(spec, fr)
        has_empty = any(all(q is None for q in p) for p in enum_insts(fr, uio))
        bad = False
        for fw in FWS:
            if (i, fw) not in models:
                continue
            line = models[(i, fw)]
            if not line.startswith("ok "):
                chk.disagree("driver rejected the case", {**case, "index": i, "fw": fw}, "ok", line)
                bad = True
                continue
            m = parse_model(line)
            diffs = compare_model(mt, m, cs[fw], raw, exact, mag)
            if diffs:
                bad = True
                chk.disagree(f"sampleOf {fw} {mt} == real framework", here, diffs[:4], line[:600])
        # hypotheses of `np_stream_pixels_equal`, on this real image: padding commutes with the round trip
        if do_model and not refetch and mt != "centered" and (i, "mem") in models and models[(i, "mem")].startswith("ok "):
            t = parse_model(models[(i, "mem")])["img"]
            if t[0] == "pad":
                u = t[-1]
                a_ = interp(["pad", t[1], t[2], ["quant8", u]], raw)
                b_ = interp(["quant8", ["pad", t[1], t[2], u]], raw)
                if not torch.equal(a_, b_):
                    chk.disagree("hypothesis padStride∘quant8 = quant8∘padStride", {**case, "index": i},
                                 float((a_ - b_).abs().max()), 0.0)
                chk.tag("hyp_pad_quant_commute_checked")
        sig_eff = min(float(cfg["cm"][0]) * cfg["cm"][1], float(cfg["paf"][0]) if mt == "bottomup" else 1e9)
        fails = oracle(mt, cs, has_empty, mag, sig_eff, pad_ok=bool(cfg.get("chunk_max_inst"))) if in_region else []
        if fails:
            all_fails += fails
            chk.fail(f"C18 fails ({mt}, scale {cfg['scale']}" + (f", fetch #{here['fetch_number']} of the index" if refetch else "")
                     + "): " + "; ".join(fails[:3]), here, fails[:6], signatures(spec, cfg, max_hw, max_inst))
        if refetch:
            continue
        nz = sum(1 for p in enum_insts(fr, uio) for q in p if q is not None)
        n_pred = sum(1 for i in fr["insts"] if ipred(i))
        pred_tag = ("none" if not n_pred else "only" if n_pred == len(fr["insts"]) else
                    "first" if ipred(fr["insts"][0]) else "last" if ipred(fr["insts"][-1]) else "between")
        chk.tag(f"predicted:{pred_tag}/uio:{uio}")
        n_hidden = sum(1 for i_ in fr["insts"] for q in iraw(i_) if isinstance(q, dict))
        anchor_hidden = cfg["anchor"] is not None and any(
            len(iraw(i_)) > cfg["anchor"] and isinstance(iraw(i_)[cfg["anchor"]], dict) for i_ in fr["insts"])
        chk.tag("hidden_nodes:" + ("anchor" if anchor_hidden else "some" if n_hidden else "none"))
        chk.case((tag, mt, cfg["scale"], cfg["max_stride"], cfg["is_rgb"], uio, json.dumps(fr["insts"]), k) if nz else None,
                 {"mt": mt, "cfg": cfg, "frame": fr, "k": k,
                  "model_mem": models.get((i, "mem"), "")[:300]},
                 tags=[f"mt:{mt}", f"scale:{cfg['scale']}", "covered" if in_region else "outside_statement",
                       f"region:{tag}", "eff_exact" if exact else "eff_tolerance",
                       f"disagree:{bad}", f"is_rgb:{cfg['is_rgb']}/channels:{spec['videos'][0]['c']}",
                       f"videos:{len(spec['videos'])}" + ("(different sizes)" if len({(v['h'], v['w']) for v in spec['videos']}) > 1 else ""),
                       "cfg_max:" + ("none" if not cfg["cfg_max"] else "both" if None not in cfg["cfg_max"] else "one component"),
                       "sizematch:" + sizematch_tag(spec, cfg, max_hw, fr),
                       "scale_dyadic" if is_dyadic(Fraction(float(cfg["scale"]))) else "scale_non_dyadic"])
    return len(idx), all_fails


def same_canon(a, b):
    return all(teq(a[k], b[k]) for k in ("img", "inst", "cen", "bbox")) and a["n"] == b["n"] and a["rank"] == b["rank"] \
        and len(a["tgt"]) == len(b["tgt"]) and all(teq(x, y) for x, y in zip(a["tgt"], b["tgt"]))


def describe_change(a, b):
    out = []
    for k in ("img", "inst", "cen", "bbox"):
        if not teq(a[k], b[k]):
            d = close_pts(a[k], b[k], 0.0) if k != "img" else close_img(a[k], b[k], 0.0)
            out.append(f"{k}: {d}")
    for j, (x, y) in enumerate(zip(a["tgt"], b["tgt"])):
        if not teq(x, y):
            out.append(f"target#{j}: {close_img(x, y, 0.0)}")
    return out[:4]


# ------------------------------------------------------------------ DataPipe blocks
def teq(a, b):
    torch = E["torch"]
    if isinstance(a, torch.Tensor) and isinstance(b, torch.Tensor):
        return a.shape == b.shape and a.dtype == b.dtype and torch.equal(torch.nan_to_num(a.float(), nan=-7e9),
                                                                        torch.nan_to_num(b.float(), nan=-7e9))
    return type(a) is type(b) and a == b


def insts_line(insts):
    toks = [str(len(insts))]
    for pts in insts:
        toks.append(str(len(pts)))
        for p in pts:
            toks.append("nan nan" if p is None else f"{rat(float(p[0]))} {rat(float(p[1]))}")
    return " ".join(toks)


def pts_line(pts):
    return " ".join([str(len(pts))] + ["nan nan" if p is None else f"{rat(float(p[0]))} {rat(float(p[1]))}" for p in pts])


# Boundary modes for the keypoints fed to a (DataPipe block, function) pair — read off the tests BOTH
# twins make on their inputs:
#   generate_pafs / PartAffinityFieldsGenerator: `(inst > 0) & (inst < (xv[-1], yv[-1]))`, all over x,y,
#     any over nodes  → x = 0 / y = 0 exactly, x = xv[-1] exactly, the last partial stride band
#     [xv[-1], W-1) at the right and [yv[-1], H-1) at the bottom, everything outside, NaN endpoints;
#   generate_confmaps / ConfidenceMapGenerator and the multi variants: grid `arange(0, H, stride)` that
#     stops short of H, NaN → 0, `[:num_instances]` slicing vs no slicing (padding rows, num = rows);
#   generate_centroids / InstanceCentroidFinder: anchor None, anchor NaN (bbox fallback), every anchor
#     present (`missing_anchors.any()` false), all-NaN rows, one visible node;
#   generate_crops / InstanceCropper: centroid on / beyond the image border, odd crop sizes, break at
#     `num_instances`, zero instances;
#   apply_resizer / Resizer: scale == 1.0 exactly (no-op) vs != 1;  apply_pad_to_stride / PadToStride:
#     max_stride 1 (no-op), a side already divisible (pad 0 on it);  Normalizer: uint8 vs already-float
#     input, 1 vs 3 channels × is_rgb.
BLOCK_MODES = ["interior", "band_right", "band_bottom", "band_one_node", "on_zero", "on_last_grid",
               "outside", "nan_mix", "no_instances", "band_right"]
# (H, W, stride) with a non-empty last partial band on both axes: (W-1) - xv[-1] >= 1
BLOCK_GEOM = [(40, 56, 4), (50, 70, 4), (64, 64, 8), (47, 62, 4), (40, 56, 2)]


def last_grid(size, stride):
    return ((size - 1) // stride) * stride


def gen_boundary(rng, h, w, n_nodes, stride, mode):
    """One instance for the given boundary mode (coordinates on the k/8 lattice)."""
    xl, yl = last_grid(w, stride), last_grid(h, stride)
    inx = lambda: rng.randrange(8, (xl - 1) * 8) / 8       # strictly inside (0, xv[-1])
    iny = lambda: rng.randrange(8, (yl - 1) * 8) / 8
    bandx = lambda: xl + rng.randrange(1, max(2, int((w - 1 - xl) * 8))) / 8    # in (xv[-1], W-1)
    bandy = lambda: yl + rng.randrange(1, max(2, int((h - 1 - yl) * 8))) / 8
    if mode == "band_right":
        return [(bandx(), iny()) for _ in range(n_nodes)]
    if mode == "band_bottom":
        return [(inx(), bandy()) for _ in range(n_nodes)]
    if mode == "band_one_node":
        far = [(w + 3.5, iny()), (-2.25, iny()), None]
        pts = [rng.choice(far) for _ in range(n_nodes)]
        pts[rng.randrange(n_nodes)] = rng.choice([(bandx(), iny()), (inx(), bandy()), (bandx(), bandy())])
        return pts
    if mode == "on_zero":
        pts = [rng.choice([(0.0, iny()), (inx(), 0.0), (0.0, 0.0)]) for _ in range(n_nodes)]
        return pts
    if mode == "on_last_grid":
        return [rng.choice([(float(xl), iny()), (inx(), float(yl)), (float(xl), float(yl))]) for _ in range(n_nodes)]
    if mode == "outside":
        return [rng.choice([(w + 1.5, iny()), (inx(), h + 2.0), (-1.0, -3.5), (float(w - 1), float(h - 1))])
                for _ in range(n_nodes)]
    if mode == "nan_mix":
        pts = [None] * n_nodes
        pts[rng.randrange(n_nodes)] = (inx(), iny())
        return pts
    return [(inx(), iny()) for _ in range(n_nodes)]


def check_blocks(chk, alias, n):
    """Each legacy block vs (a) its functional twin, directly (oracle) and (b) the model's `dp…`.
    Iteration j uses boundary mode BLOCK_MODES[j % 10] and geometry BLOCK_GEOM[j % 5], so a quick run
    (n = 10) visits every mode on every seed."""
    np, torch = E["np"], E["torch"]
    rng = chk.rng
    nz, rs, ic, icr, cm, em = E["nz"], E["rs"], E["ic"], E["icr"], E["cm"], E["em"]
    jobs = []   # (name, driver line, checker(model fields) -> list of diffs, case)
    for j in range(n):
        mode = BLOCK_MODES[j % len(BLOCK_MODES)]
        h, w, bstride = BLOCK_GEOM[j % len(BLOCK_GEOM)] if j < 2 * len(BLOCK_MODES) else rng.choice(BLOCK_GEOM)
        c = rng.choice([1, 3])
        raw = make_image(rng.randrange(10 ** 6), h, w, c)
        img_u8 = torch.from_numpy(np.transpose(raw, (2, 0, 1))[None].copy())
        img_f = img_u8.to(torch.float32) / 255.0
        n_nodes = rng.choice([2, 3])
        if mode == "no_instances":
            n_inst, insts = 0, []
        else:
            n_inst = rng.choice([1, 2, 3])
            insts = [gen_boundary(rng, h, w, n_nodes, bstride, mode)]
            insts += [gen_boundary(rng, h, w, n_nodes, bstride, rng.choice([mode, "interior", "nan_mix"]))
                      for _ in range(n_inst - 1)]
            rng.shuffle(insts)
        n_pad = rng.choice([0, 0, 1, 2]) if n_inst else rng.choice([0, 2])
        padded = insts + [[None] * n_nodes] * n_pad
        inst_t = insts_tensor(padded).unsqueeze(0) if padded else torch.zeros((1, 0, n_nodes, 2))
        chk.tag(f"block_mode:{mode}")
        edges = [(i, i + 1) for i in range(n_nodes - 1)]
        base_case = {"h": h, "w": w, "c": c, "insts": padded, "num": n_inst}

        # 1 Normalizer
        is_rgb = (j // 2) % 2 == 0
        blk = list(nz.Normalizer([{"image": img_u8.clone()}], is_rgb=is_rgb))[0]["image"]
        # already-float input: both twins must leave the values alone
        blk_f = list(nz.Normalizer([{"image": img_f.clone()}], is_rgb=is_rgb))[0]["image"]
        x_f = nz.apply_normalization(img_f.clone())
        fn_f = nz.convert_to_rgb(x_f) if is_rgb else nz.convert_to_grayscale(x_f)
        if not teq(blk_f, fn_f) or not teq(blk_f, blk):
            chk.fail("C18 fails: Normalizer / apply_normalization differ on an already-normalised float image",
                     {"h": h, "w": w, "c": c, "is_rgb": is_rgb}, "float input")
        x = nz.apply_normalization(img_u8.clone())
        fn = nz.convert_to_rgb(x) if is_rgb else nz.convert_to_grayscale(x)
        jobs.append(("Normalizer", f"dp normalizer {int(is_rgb)} {h} {w} {c}", blk, fn,
                     lambda f, blk=blk, raw=raw: [] if not close_img(interp(parse_sexpr(f["img"]), raw).float(), blk, 1e-6)
                     else ["image " + close_img(interp(parse_sexpr(f["img"]), raw).float(), blk, 1e-6)],
                     {**base_case, "is_rgb": is_rgb}))

        # 2 Resizer
        s = [1.0, 0.5, 0.75, 1.5, 2.0][j % 5]
        ex = list(rs.Resizer([{"image": img_f.clone(), "instances": inst_t.clone()}], scale=s))[0]
        fi, fp = rs.apply_resizer(img_f.clone(), inst_t.clone(), scale=s)

        def ck_resizer(f, ex=ex, raw=raw):
            d = []
            e = close_img(interp(parse_sexpr(f["img"]), raw).float(), ex["image"], 1e-6)
            if e:
                d.append("image " + e)
            mi, _ = parse_insts(f["inst"].split(), 0)
            e = close_pts(ex["instances"][0], insts_tensor(mi), 0.0)
            if e:
                d.append("instances " + e)
            return d
        jobs.append(("Resizer", f"dp resizer {rat(s)} {h} {w} {c} {insts_line(padded)}",
                     (ex["image"], ex["instances"]), (fi, fp), ck_resizer, {**base_case, "scale": s}))

        # 3 PadToStride
        m = [1, 2, 8, 16, 32, h, 4][j % 7]      # 1: no-op; h: height already divisible
        blk = list(rs.PadToStride([{"image": img_f.clone()}], max_stride=m))[0]["image"]
        fn = rs.apply_pad_to_stride(img_f.clone(), max_stride=m)
        jobs.append(("PadToStride", f"dp pad {m} {h} {w} {c}", blk, fn,
                     lambda f, blk=blk, raw=raw: [] if not close_img(interp(parse_sexpr(f["img"]), raw).float(), blk, 1e-6)
                     else ["image"], {**base_case, "max_stride": m}))

        # 4 InstanceCentroidFinder
        anchor = [None, 0, 1][j % 3]
        a1, a2 = inst_t.clone(), inst_t.clone()
        blk = list(ic.InstanceCentroidFinder([{"instances": a1}], anchor_ind=anchor))[0]["centroids"]
        fn = ic.generate_centroids(a2, anchor_ind=anchor)

        def ck_cent(f, blk=blk, a1=a1):
            d = []
            mc, _ = parse_pts(f["cen"].split(), 0)
            e = close_pts(blk[0], pts_tensor(mc), 0.0)
            if e:
                d.append("centroids " + e)
            mi, _ = parse_insts(f["inst"].split(), 0)
            e = close_pts(a1[0], insts_tensor(mi), 0.0)
            if e:
                d.append("instances after the call " + e)
            return d
        jobs.append(("InstanceCentroidFinder",
                     f"dp centroid {int(alias)} {-1 if anchor is None else anchor} {insts_line(padded)}",
                     (blk, a1), (fn, a2), ck_cent, {**base_case, "anchor": anchor}))

        # 5 InstanceCropper (examples are snapshotted while iterating: the block re-yields one dict)
        ch, cw = rng.choice([(16, 16), (24, 32), (15, 15)])
        cents = ic.generate_centroids(inst_t.clone(), anchor_ind=None)
        src = {"image": img_f.clone(), "instances": inst_t.clone(), "centroids": cents.clone(), "num_instances": n_inst}
        blk = [dict(e) for e in icr.InstanceCropper([src], (ch, cw))]
        fn = [icr.generate_crops(img_f.clone(), inst_t[0][k].clone(), cents[0][k].clone(), (ch, cw)) for k in range(n_inst)]
        blk_cmp = [tuple(b[k] for k in ("instance_image", "instance_bbox", "instance", "centroid")) for b in blk]
        fn_cmp = [tuple(b[k] for k in ("instance_image", "instance_bbox", "instance", "centroid")) for b in fn]
        cl = [None if torch.isnan(x).any() else (float(x[0]), float(x[1])) for x in cents[0]]

        def ck_crop(f, blk=blk, raw=raw):
            parts = f["__line"][3:].split(" | ") if f["__line"][3:].strip() else []
            if len(parts) != len(blk):
                return [f"{len(blk)} crops vs {len(parts)}"]
            d = []
            for p, b in zip(parts, blk):
                g = {kv.partition("=")[0]: kv.partition("=")[2] for kv in p.split(";")}
                e = close_img(interp(parse_sexpr(g["img"]), raw).float(), b["instance_image"], 1e-6)
                if e:
                    d.append("crop image " + e)
                for key, real in (("bbox", b["instance_bbox"][0]), ("inst", b["instance"][0])):
                    mp, _ = parse_pts(g[key].split(), 0)
                    e = close_pts(real, pts_tensor(mp), 0.0)
                    if e:
                        d.append(key + " " + e)
                mp, _ = parse_pts(("1 " + g["cen"]).split(), 0)
                e = close_pts(b["centroid"], pts_tensor(mp), 0.0)
                if e:
                    d.append("cen " + e)
            return d
        jobs.append(("InstanceCropper",
                     f"dp cropper {ch} {cw} {h} {w} {c} {n_inst} {insts_line(padded)} {pts_line(cl)}",
                     blk_cmp, fn_cmp, ck_crop, {**base_case, "crop": (ch, cw)}))

        # 6 ConfidenceMapGenerator
        sg, st = rng.choice([1.5, 2.5]), (bstride if j % 3 else 1)
        rank4 = rng.random() < 0.5 or not padded
        if rank4:
            kp, key, line_i = inst_t.clone(), "instances", insts_line(padded)
        else:
            kp, key, line_i = inst_t[:, 0].clone(), "instance", insts_line(padded[:1])
        blk = list(cm.ConfidenceMapGenerator([{"image": img_f, key: kp}], sigma=sg, output_stride=st,
                                             image_key="image", instance_key=key))[0]["confidence_maps"]
        fn = cm.generate_confmaps(kp.clone(), img_hw=(h, w), sigma=sg, output_stride=st)

        def ck_tgt(f, blk=blk):
            t = parse_target(f["tgt"])
            if t["kind"] != "confmaps" and not t["animals"]:
                # no animal at all: the specification cannot carry the node count; the real output must be zero
                return [] if float(blk.abs().max()) == 0.0 else ["target not zero without animals"]
            e = close_img(eval_target(t), blk, 1e-6)
            return ["target " + e] if e else []
        jobs.append(("ConfidenceMapGenerator",
                     f"dp confmaps {int(rank4)} {4 if rank4 else 3} {h} {w} {rat(sg)} {st} {line_i}",
                     blk, fn, ck_tgt, {**base_case, "sigma": sg, "stride": st, "rank4": rank4}))

        # 7 MultiConfidenceMapGenerator
        cen_mode = rng.random() < 0.5
        cents = ic.generate_centroids(inst_t.clone(), anchor_ind=None)
        ex = {"image": img_f, "instances": inst_t.clone(), "centroids": cents.clone(), "num_instances": n_inst}
        out = list(cm.MultiConfidenceMapGenerator([ex], sigma=sg, output_stride=st, centroids=cen_mode))[0]
        blk = out["centroids_confidence_maps" if cen_mode else "confidence_maps"]
        fn = cm.generate_multiconfmaps(cents.clone() if cen_mode else inst_t.clone(), img_hw=(h, w),
                                       num_instances=n_inst, sigma=sg, output_stride=st, is_centroids=cen_mode)
        jobs.append(("MultiConfidenceMapGenerator",
                     f"dp multi {int(cen_mode)} {n_inst} {h} {w} {rat(sg)} {st} {insts_line(padded)} {pts_line(cl)}",
                     blk, fn, lambda f, blk=blk: ck_tgt(f, blk), {**base_case, "centroids": cen_mode}))

        # 8 PartAffinityFieldsGenerator
        psg, pst = rng.choice([4.0, 2.0]), bstride
        ei = torch.Tensor(edges)
        blk = list(em.PartAffinityFieldsGenerator([{"image": img_f, "instances": inst_t.clone()}], sigma=psg,
                                                  output_stride=pst, edge_inds=ei, flatten_channels=True))[0]["part_affinity_fields"]
        fn = em.generate_pafs(inst_t.clone(), img_hw=(h, w), sigma=psg, output_stride=pst, edge_inds=ei,
                              flatten_channels=True)
        jobs.append(("PartAffinityFieldsGenerator",
                     f"dp pafs {h} {w} {rat(psg)} {pst} {len(edges)} " + " ".join(f"{u} {v}" for u, v in edges)
                     + " " + insts_line(padded),
                     blk, fn, lambda f, blk=blk: ck_tgt(f, blk), {**base_case, "sigma": psg, "stride": pst}))

    outs = run_driver("C18.lean", [j[1] for j in jobs])
    for (name, line, blk, fn, ck, case), o in zip(jobs, outs):
        same = all(teq(a, b) for a, b in zip(_flat(blk), _flat(fn))) and len(_flat(blk)) == len(_flat(fn))
        chk.case((name, line), None, tags=[f"block:{name}"])
        if not o.startswith("ok "):
            chk.disagree(f"dp {name}: driver", case, "ok", o)
            continue
        f = parse_fields(o)
        f["__line"] = o
        d = ck(f)
        if d:
            chk.disagree(f"DataPipe block {name} == model dp…", case, d[:3], o[:400])
        if not same:
            chk.fail(f"C18 fails: DataPipe block {name} differs from its functional counterpart", case,
                     "block output != function output")
    # defaults table vs the real signatures
    check_defaults(chk)


def check_sizematcher(chk):
    """The ninth pair: `SizeMatcher` (legacy block, used by every pipeline of pipelines.py) vs
    `apply_sizematcher`.  Model: `dpSizeMatcher` / `fnSizeMatch` (a plan: resize target + eff_scale, or
    raise).  They agree only when the frame already has the target size (`datapipe_sizematcher_partial`);
    everything else is finding F-C18d (`datapipe_sizematcher_counterexample`)."""
    np, torch, rs, F = E["np"], E["torch"], E["rs"], E["F"]
    rng = chk.rng
    geoms = [(40, 56, 40, 56), (40, 56, 48, 70), (40, 56, 40, 64), (40, 56, 80, 112), (50, 70, 60, 70),
             (64, 64, 48, 48), (47, 62, 47, 40), (40, 56, 56, 40)]
    outs = run_driver("C18.lean", [f"dp sizematcher {h} {w} {mh} {mw}" for h, w, mh, mw in geoms])
    for (h, w, mh, mw), o in zip(geoms, outs):
        c = rng.choice([1, 3])
        raw = make_image(rng.randrange(10 ** 6), h, w, c)
        img_f = torch.from_numpy(np.transpose(raw, (2, 0, 1))[None].copy()).to(torch.float32) / 255.0
        kp = torch.tensor([[[[8.0, 6.5], [20.25, 30.0]]]])
        case = {"pair": "SizeMatcher/apply_sizematcher", "h": h, "w": w, "c": c, "max_height": mh, "max_width": mw}
        blk = call(lambda: list(rs.SizeMatcher([{"image": img_f.clone(), "instances": kp.clone()}],
                                               max_height=mh, max_width=mw))[0])
        fn = call(lambda: rs.apply_sizematcher(img_f.clone(), max_height=mh, max_width=mw))
        f = parse_fields(o)
        chk.case(("SizeMatcher", h, w, mh, mw), None, tags=["block:SizeMatcher"])
        # model correspondence, block
        if f["block"] == "raise":
            if blk[0] != "raise":
                chk.disagree("dpSizeMatcher == SizeMatcher", case, "ok", "raise")
        elif blk[0] == "raise":
            chk.disagree("dpSizeMatcher == SizeMatcher", case, f"raise {blk[1:]}", f["block"])
        else:
            want = F.pad(img_f, (0, mw - w, 0, mh - h), mode="constant").to(torch.float32)
            if not teq(blk[1]["image"], want) or not teq(blk[1]["instances"], kp):
                chk.disagree("dpSizeMatcher == SizeMatcher (zero padding, keypoints untouched)", case, "differs", f["block"])
        # model correspondence, function
        th, tw, eff = f["fn"].split()
        if fn[0] == "raise":
            chk.disagree("fnSizeMatch == apply_sizematcher", case, f"raise {fn[1:]}", f["fn"])
        else:
            want = interp(["sizematch", mh, mw, th, tw, ["norm", "raw"]], raw).float()
            e = close_img(fn[1][0].float(), want, IMG_TOL)
            if e or abs(float(fn[1][1]) - float(Fraction(eff))) > 1e-12:
                chk.disagree("fnSizeMatch == apply_sizematcher", case, f"{e}, eff {fn[1][1]}", f["fn"])
        # the property clause itself: block output == function output (image; keypoint factor 1)
        same = (blk[0] == "ok" and fn[0] == "ok" and teq(blk[1]["image"].float(), fn[1][0].float())
                and float(fn[1][1]) == 1.0)
        if not same:
            what = "raises" if blk[0] == "raise" else (
                f"max |Δ| = {float((blk[1]['image'] - fn[1][0]).abs().max()):.3g}, function eff_scale {float(fn[1][1]):.4g} (block leaves keypoints unscaled)")
            chk.fail(f"C18 fails: DataPipe block SizeMatcher differs from apply_sizematcher on a {h}x{w} frame, max {mh}x{mw}: {what}",
                     case, what, ["sizematcher_pair_frame_differs_from_max"] if (h, w) != (mh, mw) else [])
        if (h, w, mh, mw) == (40, 56, 48, 70) and any(k["id"] == "F-C18d" for k in chk.known):
            chk.known_replay("F-C18d", still_fails=not same, detail="SizeMatcher == apply_sizematcher on the witness")


def _flat(x):
    if isinstance(x, (list, tuple)):
        out = []
        for y in x:
            out += _flat(y)
        return out
    return [x]


def check_defaults(chk):
    nz, rs, ic, icr, cm, em = E["nz"], E["rs"], E["ic"], E["icr"], E["cm"], E["em"]
    pairs = {
        "Normalizer/apply_normalization": (nz.Normalizer, nz.apply_normalization),
        "Resizer/apply_resizer": (rs.Resizer, rs.apply_resizer),
        "PadToStride/apply_pad_to_stride": (rs.PadToStride, rs.apply_pad_to_stride),
        "InstanceCentroidFinder/generate_centroids": (ic.InstanceCentroidFinder, ic.generate_centroids),
        "InstanceCropper/generate_crops": (icr.InstanceCropper, icr.generate_crops),
        "ConfidenceMapGenerator/generate_confmaps": (cm.ConfidenceMapGenerator, cm.generate_confmaps),
        "MultiConfidenceMapGenerator/generate_multiconfmaps": (cm.MultiConfidenceMapGenerator, cm.generate_multiconfmaps),
        "PartAffinityFieldsGenerator/generate_pafs": (em.PartAffinityFieldsGenerator, em.generate_pafs),
    }
    alias_name = {"centroids": "is_centroids"}

    def default(fn, name):
        ps = inspect.signature(fn).parameters
        p = ps.get(name) or ps.get(alias_name.get(name, "?"))
        if p is None or p.default is inspect.Parameter.empty:
            return "-"
        r = repr(p.default)
        return r if isinstance(p.default, (int, float, bool, type(None), str)) else "-"   # attrs.field(...) is no value

    line = run_driver("C18.lean", ["dp defaults"])[0]
    for ent in line[3:].split(" | "):
        toks = ent.split()
        name = toks[0]
        blk, fn = pairs[name]
        for kv in toks[1:]:
            pname, _, vals = kv.partition("=")
            mb, _, mf = vals.partition("/")
            rb, rf = default(blk.__init__, pname), default(fn, pname)
            chk.case(("default", name, pname), None, tags=["defaults"])
            if (mb, mf) != (rb, rf):
                chk.disagree("defaults table == inspect.signature", {"pair": name, "param": pname},
                             f"{rb}/{rf}", f"{mb}/{mf}")
                if mb == mf and mb != "-" and rb != rf:
                    # the model (and `defaults_agree_where_shared`) had them equal: calling both with
                    # defaults now gives different results — a concrete input is any example
                    chk.fail(f"C18 fails: {name.split('/')[0]} default {pname}={rb} but {name.split('/')[1]} default {pname}={rf}",
                             {"pair": name, "param": pname}, f"{rb} vs {rf}")


# ------------------------------------------------------------------ known finding F-C18a
def replay_findings(chk, alias, tmp):
    """Replays the witness of every C18 entry.  F-C18a is `fixed`: if the frameworks disagree on its
    witness again that is a regression (VIOLATION, nothing is suppressed).  `known` entries print
    KNOWN-FINDING while they still reproduce."""
    for ent in chk.known:
        w = ent.get("witness") or {}
        if "spec" not in w:
            continue
        n, fails = run_case(chk, w["spec"], w["cfg"], alias, tmp, f"witness_{ent['id']}")
        chk.known_replay(ent["id"], still_fails=bool(fails),
                         detail="the three frameworks agree on the witness")
        chk.tag(f"replayed:{ent['id']}:{'fails' if fails else 'agrees'}")


def probe_alias():
    """Does `generate_centroids` write the bbox midpoint into its argument (F-C11)?"""
    torch = E["torch"]
    x = torch.tensor([[[[float("nan"), float("nan")], [4.0, 6.0]]]])
    E["ic"].generate_centroids(x, anchor_ind=0)
    return not bool(torch.isnan(x[0, 0, 0]).any())


def main(chk: Check):
    chk.build_and_audit()
    import_repo()
    setup_env()
    torch = E["torch"]
    torch.manual_seed(chk.rng.randrange(2 ** 31))
    alias = probe_alias()
    chk.extra["generate_centroids_writes_through"] = alias
    tmp = tempfile.mkdtemp(prefix="verif_c18_")
    try:
        replay_findings(chk, alias, tmp)
        # corpus first
        cdir = VERIF / "corpus" / "C18"
        if cdir.is_dir():
            for f in sorted(cdir.glob("*.json")):
                c = json.loads(f.read_text())
                run_case(chk, c["spec"], c["cfg"], alias, tmp, "corpus")
        rng = chk.rng
        # (1) the region the statement covers: every model type at scale 1, three of them at any scale;
        #     every other case sets max_height and/or max_width in the config (covered since 3fdd300)
        #     (up- and down-scaling values), every fifth gets the max_hw of another (train) labels object
        for mt in MTS:
            for j in range(chk.n(5, 40)):
                run_case(chk, *gen_case(rng, mt=mt, scale=1.0, cfg_override=(j % 2 == 1), max_hw_mode=(j % 5 == 2)),
                         alias, tmp, "scale1")
        for mt in ("single", "centroid", "bottomup"):
            for j in range(chk.n(5, 50)):
                # dyadic and ordinary user values alike: the model takes int(h*scale) in float64 as CPython does
                sc = [0.5, 0.7, 0.25, 0.3, 0.75, 0.9, 1.5, 1.1, 2.0, 0.625, 1.25][(j + MTS.index(mt) * 3) % 11] \
                    if j < 11 else rng.choice([0.5, 0.25, 0.75, 1.5, 2.0, 0.625, 1.25, 0.3, 0.7, 0.9, 1.1])
                run_case(chk, *gen_case(rng, mt=mt, scale=sc, cfg_override=(j % 3 == 2), max_hw_mode=(j % 5 == 3)),
                         alias, tmp, "any_scale")
        # (2) outside the statement: centred instance at scale != 1 — correspondence only (the model says
        #     what each framework does there; no agreement is claimed or checked)
        for _ in range(chk.n(4, 30)):
            sc = rng.choice([0.5, 0.75, 1.5, 2.0, 0.7, 0.9])
            run_case(chk, *gen_case(rng, mt="centered", scale=sc), alias, tmp, "centered_scaled")
        # (3) single-animal labels with a stray second (empty) instance — covered since b2232cf (F-C18b
        #     fixed) — and the region of the `known` finding F-C18c (a frame with only empty instances):
        #     model correspondence + oracle; failures there must carry that finding's signature
        n_ex = 0
        for _ in range(chk.n(3, 20)):
            sc = rng.choice([1.0, 1.0, 0.5, 1.5])
            k, _ = run_case(chk, *gen_case(rng, mt="single", scale=sc, extra="single_extra"), alias, tmp,
                            "single_extra_instance")
            n_ex += k
        for _ in range(chk.n(3, 20)):
            mt = rng.choice(MTS)
            k, _ = run_case(chk, *gen_case(rng, mt=mt, scale=1.0, extra="all_empty"), alias, tmp,
                            "F-C18c_all_empty_frame")
            n_ex += k
        chk.extra["excluded_region_cases"] = n_ex
        # (3b) a re-used chunk directory (`np_chunks_rewrite_independent_of_directory_state`): dataset A
        #      fills a directory; use_existing_chunks=True on it must serve A; a DIFFERENT dataset B
        #      (other labels / scale / config) built with use_existing_chunks=False on the same directory
        #      must equal the in-memory dataset B and the model's np samples of B — never A's stale files
        for mt in MTS:
            for _ in range(chk.n(2, 6)):
                d = tempfile.mkdtemp(dir=tmp, prefix="reuse_")
                sa = 1.0 if mt == "centered" else rng.choice([1.0, 0.5, 1.5])
                sb = 1.0 if mt == "centered" else rng.choice([1.0, 0.75, 2.0])
                run_case(chk, *gen_case(rng, mt=mt, scale=sa), alias, tmp, "dir_reuse:A_writes", np_dir=d)
                specA, cfgA = LAST_CASE["spec"], LAST_CASE["cfg"]
                prior = {"spec": specA, "cfg": cfgA}
                run_case(chk, specA, cfgA, alias, tmp, "dir_reuse:A_existing_chunks", np_dir=d, np_existing=True,
                         prior=prior)
                run_case(chk, *gen_case(rng, mt=mt, scale=sb, cfg_override=rng.random() < 0.5), alias, tmp,
                         "dir_reuse:B_rewrites", np_dir=d, prior=prior)
                shutil.rmtree(d, ignore_errors=True)
        # (3c) use_existing_chunks=True on a directory with surplus files (F-C18e, known): A fills, a
        #      smaller B rewrites, then B reads with use_existing_chunks=True
        dirty_fails = False
        for it in range(chk.n(2, 6)):
            # iteration 0: bottom-up, A with 2-node instances, B's skeleton with 3 nodes (edge (1,2)): B reading
            # A's surplus files makes generate_pafs index node 2 of a 2-node array (IndexError) — the
            # thorough-tier false alarm of seed 1; such a fetch is now recorded, not propagated
            mt = "bottomup" if it == 0 else rng.choice(MTS)
            sc = 1.0 if mt == "centered" else rng.choice([1.0, 0.5])
            while True:
                specA, cfgA = gen_case(rng, mt=mt, scale=sc, n_nodes=2 if it == 0 else None)
                specB, cfgB = gen_case(rng, mt=mt, scale=sc, n_nodes=3 if it == 0 else None)
                nA = len(sample_index(specA, mt, bool(cfgA.get("uio", True))))
                nB = len(sample_index(specB, mt, bool(cfgB.get("uio", True))))
                if nB < nA:
                    break
            d = tempfile.mkdtemp(dir=tmp, prefix="dirty_")
            prior = {"spec": specA, "cfg": cfgA}
            run_case(chk, specA, cfgA, alias, tmp, "dirty_dir:A_writes", np_dir=d)
            run_case(chk, specB, cfgB, alias, tmp, "dirty_dir:B_rewrites", np_dir=d, prior=prior)
            _, fails = run_case(chk, specB, cfgB, alias, tmp, "dirty_dir:B_existing_chunks", np_dir=d,
                                np_existing=True, prior=prior)
            dirty_fails = dirty_fails or bool(fails)
            shutil.rmtree(d, ignore_errors=True)
        if any(f["id"] == "F-C18e" for f in chk.known):
            chk.known_replay("F-C18e", still_fails=dirty_fails, detail="use_existing_chunks=True on a directory with surplus files serves only its own samples")
        # (3d) val glue: the chunk functions are handed a larger max_instances (the TRAIN labels') than the
        #      torch dataset computes from its own (validation) labels — only NaN padding rows may differ
        #      (`val_glue_only_padding`); the model gets `chunkMaxInst`
        for mt in ("bottomup", "centroid", "centered"):
            for _ in range(chk.n(1, 6)):
                spec, cfg = gen_case(rng, mt=mt, scale=1.0 if mt == "centered" else rng.choice([1.0, 0.5, 0.7]))
                cfg["chunk_max_inst"] = max(len(fr["insts"]) for fr in spec["frames"]) + rng.choice([1, 2, 3])
                run_case(chk, spec, cfg, alias, tmp, "val_glue:chunk_max_instances_from_train_labels")
        # (4) DataPipe blocks
        check_blocks(chk, alias, chk.n(10, 60))
        check_sizematcher(chk)
    finally:
        shutil.rmtree(tmp, ignore_errors=True)


def replay(chk: Check, payload):
    import_repo()
    setup_env()
    case = payload.get("case") or payload["disagreements"][0]["case"]
    alias = probe_alias()
    tmp = tempfile.mkdtemp(prefix="verif_c18_")
    try:
        if "spec" in case and case.get("prior"):
            d = tempfile.mkdtemp(dir=tmp, prefix="reuse_")
            run_case(chk, case["prior"]["spec"], case["prior"]["cfg"], alias, tmp, "replay:prior dataset fills the directory", np_dir=d)
            n, fails = run_case(chk, case["spec"], case["cfg"], alias, tmp, "replay", np_dir=d,
                                np_existing=bool(case.get("np_existing")), prior=case["prior"])
            print(f"replay (re-used chunk directory): {n} samples, oracle failures: {fails[:4]}")
        elif "spec" in case:
            n, fails = run_case(chk, case["spec"], case["cfg"], alias, tmp, "replay")
            print(f"replay: {n} samples, oracle failures: {fails[:4]}")
        else:
            print("replay: DataPipe-block case; re-running the block checks")
            check_blocks(chk, alias, 4)
    finally:
        shutil.rmtree(tmp, ignore_errors=True)


if __name__ == "__main__":
    chk = Check(
        "C18", module="SleapVerif.Props.C18", theorems=THEOREMS,
        build_targets=["SleapVerif.Model.Pipelines", "SleapVerif.Model.Proto"],
        trusted=[
            "Lean 4.33 kernel; axioms ⊆ {propext, Classical.choice, Quot.sound} (audited per run)",
            "hand-written model Pipelines.lean of the three frameworks and eight DataPipe blocks; tied to /repo by the "
            "correspondence on the explored (labels, config) cases only",
            "image primitives (torchvision resize, F.pad, kornia crop_and_resize, ToPILImage/ToTensor, rgb_to_grayscale) "
            "are uninterpreted in the model; the harness interpreter applies the installed ones",
            "targets: the repo's generate_confmaps / generate_multiconfmaps / generate_pafs interpret the model's target "
            "specifications (their own correctness is C01/C05)",
            "litdata storage (optimize + chunk reader) is bypassed: assumed to return what the chunk function produced",
            "max_hw / max_instances are RECORDED from providers.get_max_height_width / get_max_instances and handed to "
            "the model and to every framework alike (cross-checked against the spec on every case: max video size, max "
            "len(lf.instances)); likewise the `aliasing` probe of generate_centroids",
            "entry-point glue (ModelTrainer, training/get_bin_files.py) is not driven; its two known asymmetries are "
            "reproduced by hand: a dataset handed another labels object's max_hw, chunk functions handed another max_instances",
            "float32 evaluation of eff_scale·scale products stays within 2e-6 relative + 1e-6·(frame size·scale) absolute "
            "(measured); compared exactly on dyadic cases",
        ],
        rule="in-memory sio.Labels (1-2 videos of different sizes in one labels object, 3 in the corpus; 1-4 frames, 1-3 "
             "instances with missing nodes and empty instances, textured 1- or 3-channel uint8 frames incl. a window of the "
             "asset frame) x model type x scale in {1, .25, .5, .625, .75, 1.25, 1.5, 2} x max_stride x crop size x anchor "
             "x is_rgb in {False, True} (all four channel/is_rgb combinations) x config max_height/max_width (unset, both, "
             "one component) x head strides/sigmas; regions of the known findings (single-animal labels with a second "
             "empty instance; a frame with only empty instances); "
             "distinct = distinct (region, model type, scale, stride, is_rgb, instances, k); trivial = no visible point; "
             "blocks: distinct driver lines",
        assumptions=[
            "augmentation disabled (apply_aug=False): augmentation is random and not part of the statement",
            "outside the F-C18c region every frame has at least one non-empty user instance",
            "the chunk functions are applied to every labelled frame, as training/get_bin_files.py does",
            "sizes whose size-matched target falls exactly on .5 before round() are knife-edges (skipped, counted)",
        ],
    )
    run_check(chk, main, replay)
