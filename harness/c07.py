"""C07 — global peak detection reports a true maximum; refinement is bounded, leaves a symmetric
bump unmoved and moves toward the true centre.

Model: lean/SleapVerif/Model/Peaks.lean (`globalRough` = the REPAIRED detector of
fixes/C07-flat-argmax.patch, `globalRoughAsIs` = the pinned tree's, `globalRefineFlat`);
theorems: lean/SleapVerif/Props/C07.lean.
Correspondence: `find_global_peaks_rough`, `find_global_peaks(refinement in {None,"integral"})`
(real code, real kornia crop) vs the Lean driver at Rat on the exact values of the maps, which come in
float64 / float32 / float16 / bfloat16 (dtype-agnostic model: comparisons exact in the map's own dtype,
coordinates float32 integers; half-precision maps also with sides beyond the dtype's exact-integer range).

The implementation is compared with the *repaired* model.  Where it differs the property oracle
decides: if the reported cell does not hold the maximum that is finding F-C07 (signature
`tied_max_separate_argmax`: the maximum is attained in >= 2 rows and >= 2 columns); while F-C07 is
listed as `known` such channels are additionally compared with the as-is model, so that a change
inside the defective region is still seen.  torch.max breaks ties towards the first index on CPU
(documented and measured: 0 deviations on 3000 tied maps), so the tie-break is pinned:
a maximal-but-different cell is a disagreement.

Refined points: tolerance 5e-5·max(1, ((p+1)/2)·Σ|P|/|ΣP|) as in C06; |ΣP| < 1e-3·Σ|P| = knife-edge.
"Refinement reduces the error on a Gaussian" (no overshoot) is NOT a theorem; it is measured
here and reported in the evidence as `test_error_reduced` (a test, not a verdict).
"""
import json
import math
from fractions import Fraction

from common import CORPUS, Check, call, import_repo, lst, rat, run_check, run_driver

from c06 import (BOUND_SLACK, DYADIC_THRS, HALF, REFINE_TOL, TORCH_DTYPE, DTYPE_MIX, eff_abs_sum, float64_special,
                 exact_offsets, explain_bound_failure, fail, half_precision_refine, half_refine_probe, half_tol, layouts_for, memory_layout, is_p1_raise, patch_of, patch_size, thr_in_dtype)

THEOREMS = [
    "SleapVerif.C07.global_attains_max",
    "SleapVerif.C07.global_first_max",
    "SleapVerif.C07.global_unravel_exact",
    "SleapVerif.C07.global_rough_strict_max",
    "SleapVerif.C07.global_attains_max_counterexample",
    "SleapVerif.C07.global_threshold",
    "SleapVerif.C07.global_channel_independent",
    "SleapVerif.C07.global_refine_scatter",
    "SleapVerif.C07.global_refine_channel_independent",
    "SleapVerif.C07.global_refine_bounded_partial",
    "SleapVerif.C07.global_refine_symmetric_fixed",
    "SleapVerif.C07.global_refine_symmetric_fixed_of_map",
    "SleapVerif.C07.global_refine_toward_centre_x",
    "SleapVerif.C07.global_refine_toward_centre_y",
    "SleapVerif.C07.global_refine_toward_centre_strict_x",
    "SleapVerif.C07.global_refine_toward_centre_strict_y",
    "SleapVerif.C07.global_bump_rough_is_centre",
    "SleapVerif.C07.global_peaks_toward_centre",
    "SleapVerif.C07.global_refine_toward_centre",
    "SleapVerif.C07.global_refine_toward_centre_strict",
    "SleapVerif.C07.global_refine_toward_centre_border_counterexample",
]

THRS = [(0.2, Fraction(1, 5)), (0.1, Fraction(1, 10)), (0.0, Fraction(0)), (0.5, Fraction(1, 2)), (1.0, Fraction(1)),
        (-0.25, Fraction(-1, 4)), (0.625, Fraction(5, 8))]


def thr_rat(t):
    for f, q in THRS:
        if f == t:
            return q
    return Fraction(t)


# ------------------------------------------------------------------ generators
def gen_lattice_map(rng, h, w, kind, den):
    neg = kind.endswith("_neg")
    lo, hi = (-den, den) if neg else (0, den)
    base = kind.replace("_neg", "")
    if base == "field":  # few levels: many ties
        vals = sorted(rng.sample(range(lo, hi + 1), min(rng.choice([2, 3, 4]), hi - lo + 1)))
        return [[rng.choice(vals) for _ in range(w)] for _ in range(h)]
    if base == "tied":  # the maximum at 2..4 cells, elsewhere lower
        top = rng.randrange(max(lo + 1, 1), hi + 1)
        m = [[rng.randrange(lo, top) if rng.random() < 0.5 else lo for _ in range(w)] for _ in range(h)]
        for _ in range(rng.randrange(2, 5)):
            m[rng.choice([0, h - 1, rng.randrange(h)])][rng.choice([0, w - 1, rng.randrange(w)])] = top
        return m
    if base == "single":  # unique maximum, often on the border / corner
        top = rng.randrange(max(lo + 1, 1), hi + 1)
        m = [[rng.randrange(lo, top) for _ in range(w)] for _ in range(h)]
        m[rng.choice([0, h - 1, rng.randrange(h)])][rng.choice([0, w - 1, rng.randrange(w)])] = top
        return m
    if base == "low":  # everything small: below most thresholds
        return [[rng.randrange(lo, max(lo + 1, den // 8 + 1)) for _ in range(w)] for _ in range(h)]
    if base == "const":
        v = rng.randrange(lo, hi + 1)
        return [[v] * w for _ in range(h)]
    raise ValueError(kind)


KINDS = ["field", "field_neg", "tied", "tied", "tied_neg", "single", "single_neg", "low", "const"]


def gen_case(rng):
    shape = rng.choice(["1x1", "1xN", "Nx1", "small", "small", "mid", "mid"])
    if shape == "1x1":
        h, w = 1, 1
    elif shape == "1xN":
        h, w = 1, rng.randrange(2, 9)
    elif shape == "Nx1":
        h, w = rng.randrange(2, 9), 1
    elif shape == "small":
        h, w = rng.randrange(2, 5), rng.randrange(2, 5)
    else:
        h, w = rng.randrange(4, 10), rng.randrange(4, 10)
    S, C = rng.randrange(1, 4), rng.randrange(1, 4)
    den = rng.choice([8, 8, 16])
    kinds = [rng.choice(KINDS) for _ in range(S * C)]
    maps = [gen_lattice_map(rng, h, w, k, den) for k in kinds]
    dtype = rng.choice(DTYPE_MIX)
    p = rng.choice([0, 1, 2, 3, 3, 4, 5, 5, 6, 7, 8])
    if dtype in HALF and rng.random() < 0.4:
        p = 0  # (the rest keeps its patch size: excluded region F-C06half, see c06.half_precision_refine)
    kind = "+".join(sorted(set(kinds)))
    if dtype == "f64" and rng.random() < 0.4:
        maps, den = [float64_special(rng, h, w, [[v / den for v in row] for row in m]) for m in maps], 1
        kind = "f64special"
    thr = rng.choice(THRS)[0] if dtype == "f32" else rng.choice(C07_DYADIC)
    if dtype == "f64" and rng.random() < 0.35:
        # float64 maxima just below / at / just above the threshold: a float32 comparison cannot tell them apart
        if den != 1:
            maps, den = [[[v / den for v in row] for row in m] for m in maps], 1
        for m in maps:
            for row in m:
                for j in range(w):
                    row[j] = min(row[j], thr - 0.0625)
            for _ in range(rng.randrange(1, 3)):
                m[rng.randrange(h)][rng.randrange(w)] = thr + rng.choice([-2e-10, -1e-10, 0.0, 1e-10, 2e-10])
        kind = "f64thr_edge"
    return {"S": S, "C": C, "h": h, "w": w, "den": den, "maps": maps, "thr": thr, "p": p, "dtype": dtype,
            "kind": kind, "shape": shape}


C07_DYADIC = [t for t, q in THRS if q.denominator in (1, 2, 4, 8)]


def big_half_case(rng):
    """half-precision maps with a side beyond the dtype's exact-integer range (bfloat16: 256, float16: 2048), the maximum
    at an index that is not representable in that dtype"""
    dtype = rng.choice(["bf16", "bf16", "f16"])
    n = rng.randrange(262, 300) if dtype == "bf16" else rng.randrange(2052, 2100)
    lo = 257 if dtype == "bf16" else 2049
    along_x = rng.random() < 0.5
    short = rng.randrange(1, 4)
    h, w = (short, n) if along_x else (n, short)
    C = rng.randrange(1, 3)
    maps = []
    for _ in range(C):
        m = [[rng.randrange(0, 4) for _ in range(w)] for _ in range(h)]
        k = min(rng.randrange(lo, n) | 1, n - 1)
        i, j = (rng.randrange(h), k) if along_x else (k, rng.randrange(w))
        m[i][j] = 8
        maps.append(m)
    return {"S": 1, "C": C, "h": h, "w": w, "den": 8, "maps": maps, "thr": 0.5, "p": rng.choice([0, 3, 5]), "dtype": dtype,
            "kind": "big_half", "shape": "big_half"}


def gen_gauss_case(rng):
    """sub-pixel bumps (float values, not on a lattice) with their true centre per channel.  Profiles:
    `gauss` (the property's case), `cone` and `quad` (other even, radially decreasing profiles — the theorems cover them),
    `sep` (separable a(|i-cy|)·b(|j-cx|) with different widths, centred exactly on the cell: mirror-symmetric about the
    cell's row and column but not radial — exercises the symmetric-unmoved clause beyond Gaussians)"""
    S, C = rng.randrange(1, 3), rng.randrange(1, 4)
    p = rng.choice([2, 3, 4, 5, 5, 6, 7, 8])  # odd and even integral_patch_size
    r = p // 2
    h, w = rng.randrange(2 * r + 3, 2 * r + 10), rng.randrange(2 * r + 3, 2 * r + 10)
    maps, truth = [], []
    for _ in range(S * C):
        profile = rng.choice(["gauss", "gauss", "gauss", "cone", "quad", "sep"])
        sigma = rng.choice([0.75, 1.0, 1.5, 2.0, 2.5])
        inside = rng.random() < 0.75
        lo = r if inside else 0
        cx, cy = rng.randrange(lo, w - lo), rng.randrange(lo, h - lo)
        dx = rng.choice([0.0, rng.choice([-1, 1]) * rng.randrange(1, 8) / 16, rng.randrange(-7, 8) / 16])
        dy = rng.choice([0.0, rng.choice([-1, 1]) * rng.randrange(1, 8) / 16, rng.randrange(-7, 8) / 16])
        amp = rng.choice([1.0, 0.75, 0.3])
        R = 3.0 * (h + w)  # support of cone / quad: the whole map stays on the strictly decreasing part
        if profile == "sep":
            dx = dy = 0.0
            sx, sy = rng.choice([0.75, 1.0, 2.0]), rng.choice([0.75, 1.5, 2.5])
            f = lambda i, j: amp * math.exp(-abs(j - cx) / sx) / (1.0 + ((i - cy) / sy) ** 2)
        elif profile == "cone":
            f = lambda i, j: amp * (1.0 - math.sqrt((j - cx - dx) ** 2 + (i - cy - dy) ** 2) / R)
        elif profile == "quad":
            f = lambda i, j: amp * (1.0 - ((j - cx - dx) ** 2 + (i - cy - dy) ** 2) / (R * R))
        else:
            f = lambda i, j: amp * math.exp(-(((j - cx - dx) ** 2 + (i - cy - dy) ** 2) / (2 * sigma * sigma)))
        maps.append([[f(i, j) for j in range(w)] for i in range(h)])
        truth.append({"cx": cx, "cy": cy, "dx": dx, "dy": dy, "sigma": sigma, "amp": amp, "profile": profile})
    dtype = rng.choice(["f32", "f32", "f64"])
    return {"S": S, "C": C, "h": h, "w": w, "den": 1, "maps": maps, "thr": rng.choice([0.2, 0.1, 0.5]) if dtype == "f32" else 0.125,
            "p": p, "dtype": dtype, "kind": "gauss", "shape": "gauss", "truth": truth}


# ------------------------------------------------------------------ implementation side
class Impl:
    def __init__(self):
        import numpy as np
        import torch
        from sleap_nn.inference import peak_finding as pf

        self.np, self.torch, self.pf = np, torch, pf

    def tensor(self, case):
        """built in float64 (all generated values are exact there) and cast to the case's dtype; lattice values k/8, k/16
        are exactly representable in float16 and bfloat16 too"""
        t = self.torch.tensor(case["maps"], dtype=self.torch.float64) / case["den"]
        t = t.reshape(case["S"], case["C"], case["h"], case["w"])
        return t.to(getattr(self.torch, TORCH_DTYPE[case.get("dtype", "f32")]))

    def exact(self, cms):
        return cms.to(self.torch.float64).numpy()

    def canon(self, res, S, C):
        pts, vals = res
        self.last_dtypes = tuple(str(t.dtype).replace("torch.", "") for t in (pts, vals))
        if not (tuple(pts.shape) == (S, C, 2) and tuple(vals.shape) == (S, C)):
            return ("badshape", tuple(pts.shape), tuple(vals.shape))
        out = []
        for s in range(S):
            for c in range(C):
                x, y, v = float(pts[s, c, 0]), float(pts[s, c, 1]), float(vals[s, c])
                out.append((None if x != x else x, None if y != y else y, v))
        return out

    def rough(self, cms, thr):
        r = call(self.pf.find_global_peaks_rough, cms.clone(), threshold=thr)
        return ("raise",) + r[1:] if r[0] == "raise" else self.canon(r[1], cms.shape[0], cms.shape[1])

    def full(self, cms, thr, refinement, p):
        r = call(self.pf.find_global_peaks, cms.clone(), threshold=thr, refinement=refinement, integral_patch_size=p)
        return ("raise",) + r[1:] if r[0] == "raise" else self.canon(r[1], cms.shape[0], cms.shape[1])

    # the tensor exactly as given (`clone()` would re-pack a non-dense view into a contiguous one)
    def rough_raw(self, v, thr):
        r = call(self.pf.find_global_peaks_rough, v, threshold=thr)
        return ("raise",) + r[1:] if r[0] == "raise" else self.canon(r[1], v.shape[0], v.shape[1])

    def full_raw(self, v, thr, refinement, p):
        r = call(self.pf.find_global_peaks, v, threshold=thr, refinement=refinement, integral_patch_size=p)
        return ("raise",) + r[1:] if r[0] == "raise" else self.canon(r[1], v.shape[0], v.shape[1])


def model_line(case, cms):
    flat = [rat(float(x)) for x in cms.flatten().tolist()]
    return (f"global {rat(thr_rat(case['thr']))} {patch_size(case)} {case['S']} {case['C']} {case['h']} {case['w']} "
            + lst(flat))


def parse_model(line, n):
    t = line.split()
    assert len(t) == 10 * n, line[:200]

    def rough3(a):
        return (None, None, float(Fraction(a[2]))) if a[0] == "nan" else (float(a[0]), float(a[1]), Fraction(a[2]))

    def pt2(a):
        if a[0] == "nan":
            return None
        if a[0] == "inf":
            return "inf"
        return (Fraction(a[0]), Fraction(a[1]))

    out = []
    for k in range(n):
        a = t[10 * k: 10 * k + 10]
        out.append({"fix": rough3(a[0:3]), "asis": rough3(a[3:6]), "pfix": pt2(a[6:8]), "pasis": pt2(a[8:10])})
    return out


def same_rough(i, m):
    """impl (x,y,float val) vs model (x,y,Fraction val | 0.0)"""
    return i[0] == m[0] and i[1] == m[1] and Fraction(i[2]) == Fraction(m[2])


# ------------------------------------------------------------------ oracle (independent of the model)
def oracle_rough(np, a2, thr, got, dtype="f32"):
    """a2: (h,w) map as exact float64 values (comparisons on it are comparisons in the input dtype);
    got: (x,y,val) of the implementation; returns (why, signatures)"""
    mx = a2.max()
    valid = not (mx < thr_in_dtype(np, thr, dtype))
    x, y, v = got
    if not valid:
        if x is not None or y is not None or v != 0.0:
            return f"max {float(mx)} < thr {thr} but reported {got}", []
        return None, []
    if x is None or y is None:
        return f"max {float(mx)} >= thr {thr} but reported NaN", []
    h, w = a2.shape
    sigs = []
    ys, xs = np.nonzero(a2 == mx)
    if len(set(ys.tolist())) >= 2 and len(set(xs.tolist())) >= 2:
        sigs.append("tied_max_separate_argmax")
    if not (x == int(x) and y == int(y) and 0 <= x < w and 0 <= y < h):
        return f"reported point {(x, y)} is not a cell of the {h}x{w} map", sigs
    if a2[int(y), int(x)] != mx:
        return (f"reported cell (x={int(x)},y={int(y)}) holds {float(a2[int(y), int(x)])}, the maximum {float(mx)} "
                f"is at {list(zip(xs.tolist(), ys.tolist()))[:4]}"), sigs
    if np.float64(v) != mx:
        return f"reported value {v} is not the maximum {float(mx)}", sigs
    return None, sigs


def oracle_refined(np, a2, rough, refined, p, dtype="f32"):
    """valid channels move at most half a patch; invalid channels stay NaN; returns (why, signatures)"""
    if rough[0] is None:
        if refined[0] is not None or refined[1] is not None:
            return f"invalid channel became {refined}", []
        return None, []
    half = p / 2
    if refined[0] is None or refined[1] is None or not (abs(refined[0] - rough[0]) <= half + BOUND_SLACK[dtype]
                                                         and abs(refined[1] - rough[1]) <= half + BOUND_SLACK[dtype]):
        obs = None if refined[0] is None or refined[1] is None else (refined[0] - rough[0], refined[1] - rough[1])
        sigs = explain_bound_failure(np, a2, int(rough[0]), int(rough[1]), p, obs, dtype)
        hh, ww = a2.shape
        inb = 0 <= int(rough[1]) < hh and 0 <= int(rough[0]) < ww
        if inb and a2[int(rough[1]), int(rough[0])] != a2.max():
            sigs.append("tied_max_separate_argmax")  # refinement around a cell that is not the peak (F-C07)
        return f"rough {rough[:2]} refined to {refined[:2]}, half patch = {half}", sigs
    return None, []


# ------------------------------------------------------------------ one case
def run_case(chk, I, case, mline, f07_known):
    np = I.np
    cms = I.tensor(case)
    a = I.exact(cms)
    dtype = case.get("dtype", "f32")
    S, C, h, w, thr, p = case["S"], case["C"], case["h"], case["w"], case["thr"], patch_size(case)
    model = parse_model(mline, S * C)
    small = {**{k: case[k] for k in ("S", "C", "h", "w", "den", "maps", "thr")}, "p": p, "dtype": dtype}

    rough = I.rough(cms, thr)
    if rough and rough[0] == "badshape":
        chk.disagree("find_global_peaks_rough output shapes", {k: small[k] for k in ("S", "C", "h", "w")}, str(rough), "(S,C,2),(S,C)")
        return
    if not (rough and rough[0] == "raise"):
        # modelling assumption: comparisons are exact in the map's own dtype; coordinates are float32 integers
        want_dt = ("float32", TORCH_DTYPE[dtype])
        if I.last_dtypes != want_dt:
            chk.disagree("find_global_peaks_rough output dtypes (points float32, values in the map's dtype)",
                         {k: small[k] for k in ("S", "C", "h", "w", "thr", "p", "dtype")}, list(I.last_dtypes), list(want_dt))
    nvalid = sum(1 for m in model if m["fix"][0] is not None)
    chk.case((S, C, h, w, thr, p, dtype, a.tobytes()) if nvalid and h * w > 1 else None,
             {"shape": [S, C, h, w], "thr": thr, "p": p, "dtype": dtype, "kind": case.get("kind"), "valid": nvalid}
             if nvalid and case.get("kind") not in ("gauss", "big_half") else None,
             tags=[f"shape:{case.get('shape')}", f"p:{p}", f"dtype:{dtype}", f"thr:{thr}", "thr<0" if thr < 0 else "thr>=0",
                   "S>1&C>1" if S > 1 and C > 1 else "S=1|C=1"] + ([f"kind:{case['kind']}"] if case.get("kind") in ("f64special", "f64thr_edge", "big_half") else []) + [ f"valid:{nvalid}/{S * C}" if S * C <= 2 else
                   ("valid:all" if nvalid == S * C else "valid:none" if nvalid == 0 else "valid:mixed")])
    if rough and rough[0] == "raise":
        chk.disagree("find_global_peaks_rough raises where the model does not", small, str(rough), "ok")
        fail(chk, "C07: find_global_peaks_rough raised", small, str(rough))
        return
    which = []  # per channel: which model the implementation's rough output follows
    for k, (g, m) in enumerate(zip(rough, model)):
        s, c = divmod(k, C)
        why, sigs = oracle_rough(np, a[s, c], thr, g, dtype)
        ok_fix = same_rough(g, m["fix"])
        if ok_fix:
            which.append("pfix")
        else:
            which.append("pasis" if same_rough(g, m["asis"]) else None)
            chk.tag("rough!=repaired")
            if why is None:
                # a true maximum, but not what the model says (tie-break / value / validity)
                chk.disagree("find_global_peaks_rough == Peaks.globalRough (repaired)", {**small, "channel": [s, c]},
                             list(g), [float(x) if x is not None else None for x in m["fix"]])
            elif f07_known and "tied_max_separate_argmax" in sigs and not same_rough(g, m["asis"]):
                chk.disagree("find_global_peaks_rough == Peaks.globalRoughAsIs (inside F-C07)", {**small, "channel": [s, c]},
                             list(g), [float(x) if x is not None else None for x in m["asis"]])
        if why:
            one = {"S": 1, "C": 1, "h": h, "w": w, "den": case["den"], "maps": [case["maps"][k]], "thr": thr, "p": p, "dtype": dtype}
            fail(chk, f"C07 fails on find_global_peaks_rough ({TORCH_DTYPE[dtype]} maps): {why}", one, list(g), sigs)

    none_ref = I.full(cms, thr, None, 5)
    if none_ref != rough and not (str(none_ref) == str(rough)):
        chk.disagree("find_global_peaks(refinement=None) == find_global_peaks_rough", small, str(none_ref)[:400], str(rough)[:400])

    # channel independence, observed on the implementation (every 4th case): each map run alone
    if S * C > 1 and chk.evaluations % 4 == 0:
        for k in range(S * C):
            s, c = divmod(k, C)
            alone = I.rough(cms[s:s + 1, c:c + 1], thr)
            if str(alone[0]) != str(rough[k]):
                fail(chk, "C07: result of one channel depends on the other maps in the batch",
                         {**small, "channel": [s, c]}, {"in_batch": rough[k], "alone": alone[0]})
    n_ev = chk.evaluations
    # memory layouts: the same values in another layout must give the contiguous tensor's answer
    for name in layouts_for(chk, case):
        v, ref_t = memory_layout(I.torch, cms, name)
        chk.tag(f"layout:{name}" + ("" if not v.is_contiguous() else "(contiguous for this shape)"))
        ref = rough if ref_t is None else I.rough(ref_t, thr)
        for fn_name, got in (("find_global_peaks_rough", I.rough_raw(v, thr)),
                             ("find_global_peaks(refinement=None)", I.full_raw(v, thr, None, 5))):
            if str(got) != str(ref):
                fail(chk, f"C07: {fn_name} on a `{name}` view of the maps differs from its answer on the contiguous clone",
                     {**small, "layout": name, "strides": list(v.stride())}, {"view": str(got)[:300], "contiguous": str(ref)[:300]})
    if n_ev % 7 == 2:  # any other refinement string returns the rough peaks
        chk.tag("oracle:refinement=other-string")
        got = I.full(cms, thr, "local", 5)
        if str(got) != str(rough):
            chk.disagree("find_global_peaks(refinement='local') == find_global_peaks_rough", small, str(got)[:400], str(rough)[:400])
    if dtype == "f32" and thr in (0.1, 0.2):  # default arguments: rough 0.1, find_global_peaks 0.2 / patch 5
        chk.tag("oracle:default-arguments")
        r = call(I.pf.find_global_peaks_rough, cms.clone()) if thr == 0.1 else call(I.pf.find_global_peaks, cms.clone())
        got = ("raise",) + r[1:] if r[0] == "raise" else I.canon(r[1], S, C)
        if str(got) != str(rough):
            chk.disagree("find_global_peaks[_rough] with default threshold == explicit threshold", small, str(got)[:400], str(rough)[:400])
    if p == 0:
        return
    # half-precision maps (finding F-C06half): correspondence and oracles below run on the IDENTICAL VALUES as float32; the
    # half-precision call itself is compared with that answer afterwards
    half_in = (cms, dtype) if dtype in HALF else None
    if half_in:
        cms, dtype = cms.float(), "f32"
    refined = I.full(cms, thr, "integral", p)
    if is_p1_raise(refined, p):
        # documented behaviour of the pinned tree (finding F-C06p1); the model's value is rough + 0
        fail(chk, "C07: find_global_peaks(integral, integral_patch_size=1) raises inside kornia", small, str(refined),
                 ["patch_size_1"])
        return
    if refined and refined[0] == "raise":
        chk.disagree("find_global_peaks(integral) raises where the model does not", small, str(refined), "ok")
        fail(chk, "C07: find_global_peaks(integral) raised", small, str(refined))
        return
    def close(fa, fb, g_, s_, c_, A=None):
        """two implementation outputs for one channel: NaN pattern and value exactly, point within the conditioned tolerance"""
        A = a if A is None else A
        if (fa[0] is None) != (fb[0] is None) or (fa[1] is None) != (fb[1] is None) or fa[2] != fb[2]:
            return False
        if fa[0] is None or (fa[0] == fb[0] and fa[1] == fb[1]):
            return True
        if g_[0] is None:
            return False
        P = patch_of(np, A, s_, c_, int(g_[0]), int(g_[1]), p)
        z, az = float(P.sum()), eff_abs_sum(np, P, A[s_, c_], p)
        if abs(z) <= 1e-3 * az:
            return True
        tol = REFINE_TOL[dtype] * max(1.0, (p + 1) / 2 * az / abs(z))
        return abs(fa[0] - fb[0]) <= tol and abs(fa[1] - fb[1]) <= tol

    if p >= 2 and S * C > 1 and n_ev % 4 == 0:
        chk.tag("oracle:alone==batch(refined)")
        for k in range(S * C):
            s, c = divmod(k, C)
            alone = I.full(cms[s:s + 1, c:c + 1], thr, "integral", p)
            if (alone and alone[0] == "raise") or not close(alone[0], refined[k], rough[k], s, c):
                fail(chk, "C07: refined result of one channel depends on the other maps in the batch",
                         {**small, "channel": [s, c]}, {"in_batch": refined[k], "alone": alone[0] if alone else None})
    if p >= 2:
        for name in layouts_for(chk, case):
            v, ref_t = memory_layout(I.torch, cms, name)
            got = I.full_raw(v, thr, "integral", p)
            if ref_t is None:
                ref, ref_rough, A = refined, rough, a
            else:
                ref, ref_rough, A = I.full(ref_t, thr, "integral", p), I.rough(ref_t, thr), I.exact(ref_t)
            ok = not (got and got[0] == "raise") and not (ref and ref[0] == "raise") and all(
                close(x, y, g_, k // C, k % C, A) for k, (x, y, g_) in enumerate(zip(got, ref, ref_rough)))
            if not ok:
                fail(chk, f"C07: find_global_peaks(integral, p={p}) on a `{name}` view of the maps differs from its answer on the contiguous clone",
                     {**small, "layout": name, "strides": list(v.stride())}, {"view": str(got)[:300], "contiguous": str(ref)[:300]})
    if p == 5 and thr == 0.2 and dtype == "f32":
        r = call(I.pf.find_global_peaks, cms.clone(), refinement="integral")
        got = ("raise",) + r[1:] if r[0] == "raise" else I.canon(r[1], S, C)
        if (got and got[0] == "raise") or not all(close(x, y, g_, k // C, k % C) for k, (x, y, g_) in enumerate(zip(got, refined, rough))):
            chk.disagree("find_global_peaks(cms, refinement='integral') == (threshold=0.2, integral_patch_size=5)", small, str(got)[:400], str(refined)[:400])
    for k, (g, f, m) in enumerate(zip(rough, refined, model)):
        s, c = divmod(k, C)
        if f[2] != g[2]:
            chk.disagree("find_global_peaks(integral) values == rough values", {**small, "channel": [s, c]}, f[2], g[2])
        if which[k] is not None:
            mp = m[which[k]]
            if mp is None:
                if f[0] is not None or f[1] is not None:
                    chk.disagree("find_global_peaks(integral): invalid channel stays NaN", {**small, "channel": [s, c]}, list(f), None)
            else:
                P = patch_of(np, a, s, c, int(g[0]), int(g[1]), p)
                z, az = float(P.sum()), eff_abs_sum(np, P, a[s, c], p)
                if mp == "inf" or abs(z) <= 1e-3 * az:
                    chk.knife_edges += 1
                    chk.tag("knife:patch_sum~0")
                elif f[0] is None or f[1] is None:
                    chk.disagree("find_global_peaks(integral) point == Peaks.globalRefineFlat", {**small, "channel": [s, c]},
                                 list(f), [float(mp[0]), float(mp[1])])
                else:
                    tol = REFINE_TOL[dtype] * max(1.0, (p + 1) / 2 * az / abs(z))
                    ex, ey = abs(f[0] - float(mp[0])), abs(f[1] - float(mp[1]))
                    chk.extra["max_refine_err_over_tol"] = max(chk.extra.get("max_refine_err_over_tol", 0.0), max(ex, ey) / tol)
                    chk.extra["max_refine_abs_err_over_kappa"] = max(chk.extra.get("max_refine_abs_err_over_kappa", 0.0), max(ex, ey) * abs(z) / az)
                    if not (ex <= tol and ey <= tol):
                        chk.disagree("find_global_peaks(integral) point == Peaks.globalRefineFlat (tol)",
                                     {**small, "channel": [s, c]}, list(f[:2]), [float(mp[0]), float(mp[1])])
        why, sigs = oracle_refined(np, a[s, c], g, f, p, dtype)
        if bool((a[s, c] < 0).any()):
            chk.extra["excluded_region_cases"] = chk.extra.get("excluded_region_cases", 0) + 1
        if why:
            one = {"S": 1, "C": 1, "h": h, "w": w, "den": case["den"], "maps": [case["maps"][k]], "thr": thr, "p": p, "dtype": dtype}
            fail(chk, f"C07 fails on find_global_peaks(integral, p={p}): {why}", one, list(f), sigs)

    if half_in and p >= 2:
        def half_agrees(got):
            for k, (fa, fb, g_) in enumerate(zip(got, refined, rough)):
                if fa[2] != fb[2]:
                    return False
                if g_[0] is None:
                    if fa[0] is not None or fa[1] is not None:
                        return False
                    continue
                s_, c_ = divmod(k, C)
                P = patch_of(np, a, s_, c_, int(g_[0]), int(g_[1]), p)
                z, az = float(P.sum()), eff_abs_sum(np, P, a[s_, c_], p)
                if abs(z) <= 1e-3 * az:
                    continue  # knife-edge: the half-precision sum may round the normaliser to exactly 0
                if fb[0] is None or fb[1] is None:
                    continue
                tol = half_tol(half_in[1], (fb[0] - g_[0], fb[1] - g_[1]), az / abs(z))
                st = chk.extra.setdefault("half_vs_float32_err_over_tol", {})
                for u, v in ((fa[0], fb[0]), (fa[1], fb[1])):
                    if u is not None and abs(u) != float("inf"):
                        st[half_in[1]] = max(st.get(half_in[1], 0.0), abs(u - v) / tol)
                    if u is None or abs(u) == float("inf") or not abs(u - v) <= tol:
                        return False
            return True

        def half_bound(got):
            for k, (g_, f_) in enumerate(zip(rough, got)):
                why_, sigs_ = oracle_refined(np, a[k // C, k % C], g_, f_, p, half_in[1])
                if why_:
                    return why_, sigs_
            return None, []

        half_precision_refine(chk, I, "find_global_peaks", I.full(half_in[0], thr, "integral", p), refined, half_agrees, half_bound, small, p)

    # ---- sub-pixel bumps: symmetric-unmoved / toward-centre / no-overshoot
    for k, t in enumerate(case.get("truth", [])):
        s, c = divmod(k, C)
        g, f = rough[k], refined[k]
        if g[0] is None or f[0] is None:
            continue
        if (g[0], g[1]) != (t["cx"], t["cy"]):  # |δ| < 1/2 and a strictly decreasing profile: theorem global_bump_rough_is_centre
            fail(chk, "C07: rough peak of a bump is not the cell nearest to its centre", {**small, "channel": [s, c]},
                 {"rough": g, "truth": t})
            continue
        bad, sigs, inside, e0, e1, clauses = oracle_bump(np, a[s, c], g, f, t, p, dtype)
        prof = t.get("profile", "gauss")
        chk.tag("bump:inside" if inside else "bump:border", f"bump:profile:{prof}", f"bump:p:{p}",
                f"bump:sigma:{t['sigma']}" if prof == "gauss" else "bump:sigma:n/a",
                "bump:dx!=0" if t["dx"] != 0 else "bump:dx=0", "bump:dy!=0" if t["dy"] != 0 else "bump:dy=0")
        if bad:
            one = {"S": 1, "C": 1, "h": h, "w": w, "den": case["den"], "maps": [case["maps"][k]], "thr": thr, "p": p,
                   "dtype": dtype, "truth": [t]}
            fail(chk, f"C07 fails on a {prof} bump: " + "; ".join(bad), one, {"rough": g, "refined": f}, sigs, clause=clauses)
        # does refinement reduce the error?  interior: measured only (a test; Gaussian-specific, not a theorem); border: oracle above
        key = ("test_error_reduced_inside:" + prof) if inside else "border_error_reduced"
        st = chk.extra.setdefault(key, {"n": 0, "reduced_or_equal": 0, "worst_increase": 0.0})
        st["n"] += 1
        st["reduced_or_equal"] += int(e1 <= e0 + 1e-6)
        st["worst_increase"] = max(st["worst_increase"], e1 - e0)


def ulp32(v):
    """float32 unit in the last place at |v|"""
    v = abs(float(v))
    return 2.0 ** (math.floor(math.log2(v)) - 23) if v > 0 else 2.0 ** -149


def bump_clauses(ox, oy, cx, cy, dx, dy, cross_x, cross_y, sym_tol):
    """failing clauses of the bump property for an offset (ox, oy) from the rough cell:
    {clause id: text}; ids are `sym|dir/<axis>/<cross|inside>` and `overshoot/cross`"""
    out = {}
    for o, d, nm, cross, tol in ((ox, dx, "x", cross_x, sym_tol[0]), (oy, dy, "y", cross_y, sym_tol[1])):
        where = "cross" if cross else "inside"
        if d == 0 and not abs(o) <= tol:
            out[f"sym/{nm}/{where}"] = f"{nm}: symmetric about the cell but moved by {o} (patch {where} on this axis)"
        if d != 0 and not (o * d > 0):
            out[f"dir/{nm}/{where}"] = f"{nm}: true offset {d}, refinement moved by {o} (patch {where} on this axis)"
    e0 = math.hypot(dx, dy)
    e1 = math.hypot(ox - dx, oy - dy)
    if (cross_x or cross_y) and not e1 <= e0 + max(sym_tol):  # same float32-ulp tolerance as the symmetric clause
        out["overshoot/cross"] = f"overshoot: error to the true centre grew from {e0:.4f} to {e1:.4f} (patch crosses the border)"
    return out, e0, e1


def oracle_bump(np, a2, g, f, t, p, dtype="f32"):
    """Property oracle for a sub-pixel bump with true centre (cx+dx, cy+dy), rough cell g = (cx,cy), refined point f, on the
    (h,w) map `a2` (exact values).
    Clauses, per axis: symmetric about the cell => unmoved (within max(1e-5, 8 float32 ulps of the coordinate)); otherwise
    the move has the sign of the true offset; and, when the p x p window leaves the map on some axis, the estimate must not
    end up farther from the true centre than the rough cell (no overshoot).
    Signature `refinement_patch_crosses_border` (finding F-C07b) is EFFECT-based: a failing clause is explained by it only if
    (i) the window leaves the map on that clause's axis (any axis for overshoot), (ii) the observed point equals
    rough + exact integral regression on the zero-padded true patch within the correspondence tolerance — i.e. the code does
    what the model says — and (iii) that exact value itself fails the same clause.  The signature is returned only when
    every failing clause is explained; anything else is an ordinary violation with the concrete map."""
    h, w = a2.shape
    cx, cy, dx, dy = t["cx"], t["cy"], t["dx"], t["dy"]
    m = p // 2  # the crop reads cells c-m .. c+m (odd p: exactly; even p: the four-cell means span the same range)
    cross_x = not (m <= cx < w - m)
    cross_y = not (m <= cy < h - m)
    inside = not (cross_x or cross_y)
    sym_tol = (max(1e-5, 8 * ulp32(f[0])), max(1e-5, 8 * ulp32(f[1])))
    obs, e0, e1 = bump_clauses(f[0] - g[0], f[1] - g[1], cx, cy, dx, dy, cross_x, cross_y, sym_tol)
    if not obs:
        return [], [], inside, e0, e1, []
    explained = set()
    if not inside:
        z, off, _neg = exact_offsets(a2, cx, cy, p)
        if off is not None:
            ex, ey = float(off[0]), float(off[1])
            P = patch_of(np, a2[None, None], 0, 0, cx, cy, p)
            az = eff_abs_sum(np, P, a2, p)
            tol = REFINE_TOL[dtype] * max(1.0, (p + 1) / 2 * az / abs(float(z)))
            if abs((f[0] - g[0]) - ex) <= tol and abs((f[1] - g[1]) - ey) <= tol:
                exact_fail, _, _ = bump_clauses(ex, ey, cx, cy, dx, dy, cross_x, cross_y, (1e-9, 1e-9))
                explained = {k for k in obs if k.endswith("/cross") and k in exact_fail}
    sigs = ["refinement_patch_crosses_border"] if all(k in explained for k in obs) else []
    return list(obs.values()), sigs, inside, e0, e1, sorted(obs)


# (h, w, hot row, hot col): more than 2^24 cells, the hot cell at an odd flat index above 2^24; the first two are LAST cells
LARGE_MAPS = [(4100, 4100, 4099, 4099), (1, 16777300, 0, 16777299), (5000, 3400, 4990, 3333), (4097, 4099, 4094, 4001)]


def large_map_cases(chk, I, n, picks=None, value=None):
    """Maps with MORE THAN 2^24 cells (a float32 cannot hold their flat indices): a zero float32 map with one hot cell through
    the real find_global_peaks_rough and find_global_peaks (None / integral).  Model side: exact Nat arithmetic
    (`Peaks.unravel`, theorems global_unravel_exact / global_rough_strict_max — no size bound).  Oracle (model-free): the
    reported cell is the only non-zero cell and the value is its value.  One ~67 MB tensor at a time, freed after use."""
    import gc
    torch = I.torch
    rng = chk.rng
    if picks is None:
        picks = LARGE_MAPS[:n] if n >= len(LARGE_MAPS) else rng.sample(LARGE_MAPS, n)
    model = run_driver("C07.lean", [f"unravel {w} {r * w + col}" for (h, w, r, col) in picks])
    for (h, w, r, col), ml in zip(picks, model):
        mx, my = (int(t) for t in ml.split())
        val = value if value is not None else rng.choice([1.0, 0.75, 0.5])
        spec = {"family": "large_map", "h": h, "w": w, "hot_row": r, "hot_col": col, "hot_value": val,
                "flat_index": r * w + col, "dtype": "f32", "thr": 0.25}
        cms = torch.zeros((1, 1, h, w), dtype=torch.float32)
        cms[0, 0, r, col] = val
        got = {}
        try:
            for name, fn, kw in (("find_global_peaks_rough", I.pf.find_global_peaks_rough, {}),
                                 ("find_global_peaks(None)", I.pf.find_global_peaks, {"refinement": None}),
                                 ("find_global_peaks(integral,5)", I.pf.find_global_peaks, {"refinement": "integral", "integral_patch_size": 5})):
                res = call(fn, cms, threshold=0.25, **kw)
                got[name] = ("raise",) + res[1:] if res[0] == "raise" else [float(res[1][0][0, 0, 0]), float(res[1][0][0, 0, 1]), float(res[1][1][0, 0])]
        finally:
            del cms
            gc.collect()
        chk.case(("large_map", h, w, r, col), {"case": "large_map", **spec, "impl": got, "model": ml}, tags=["large_map_cells>2^24"])
        for name, g in got.items():
            if "integral" in name and max(h, w) > 2 ** 22:
                # OUT OF DOMAIN, recorded not judged: a refined (sub-pixel) float32 coordinate needs the side to stay below 2^22;
                # at x = 16777299 neither the box corners x -+ 2 nor the result are representable and kornia returns NaN
                chk.extra.setdefault("out_of_domain", {})[f"{name} on a {h}x{w} one-hot map (side > 2^22)"] = str(g)
                continue
            if g and g[0] == "raise":
                chk.disagree(f"{name} raises on a {h}x{w} map where the model does not", spec, str(g), ml)
                fail(chk, f"C07: {name} raised on a {h}x{w} one-hot map", spec, str(g))
                continue
            x, y, v = g
            # float32 output: integers above 2^24 are not all representable; one ulp is the tolerance
            k_ulp = 4.0 if "integral" in name else 1.0  # the refined point adds a float32 offset computed by kornia's crop
            tolx, toly = max(1e-3, k_ulp * mx * 2.0 ** -23), max(1e-3, k_ulp * my * 2.0 ** -23)
            if not (abs(x - mx) <= tolx and abs(y - my) <= toly and v == val):
                chk.disagree(f"{name} on a map with > 2^24 cells == Peaks.unravel", spec, [x, y, v], [mx, my, val])
            if not (abs(x - col) <= tolx and abs(y - r) <= toly and v == val):
                fail(chk, f"C07 fails on {name}: the only non-zero cell of a {h}x{w} map is (x={col}, y={r}) holding {val}, "
                          f"reported ({x}, {y}) with value {v}", spec, [x, y, v])


def witness_case(wt):
    m = [[0.0] * wt["w"] for _ in range(wt["h"])]
    for (x, y, v) in wt["cells"]:
        m[y][x] = v
    return {"S": 1, "C": 1, "h": wt["h"], "w": wt["w"], "den": 1, "maps": [m], "thr": wt["thr"],
            "p": wt.get("patch", 0), "kind": "witness", "shape": "witness", **({"truth": [wt["truth"]]} if "truth" in wt else {})}


def main(chk: Check):
    chk.build_and_audit()
    import_repo()
    I = Impl()
    np, torch = I.np, I.torch
    rng = chk.rng
    torch.manual_seed(rng.randrange(2 ** 31))
    f07 = next((e for e in chk.known if e["id"] == "F-C07"), None)
    f07_known = bool(f07 and f07["status"] == "known")

    # ---- known finding replays
    for ent in chk.known:
        case = witness_case(ent["witness"])
        cms = I.tensor(case)
        if ent["id"] == "F-C07":
            got = I.rough(cms, case["thr"])
            why, sigs = oracle_rough(np, I.exact(cms)[0, 0], case["thr"], got[0])
            m = parse_model(run_driver("C07.lean", [model_line(case, cms)])[0], 1)[0]
            if not (same_rough(got[0], m["fix"]) or same_rough(got[0], m["asis"])):
                chk.disagree("F-C07 witness: implementation is neither the as-is nor the repaired model", ent["witness"], str(got), str(m))
            chk.known_replay("F-C07", still_fails=bool(why) and "tied_max_separate_argmax" in sigs,
                             detail=f"impl={got} repaired-model={m['fix']}")
        elif ent["signature"] == "half_precision_crop":
            case["dtype"] = ent["witness"].get("dtype", "f16")
            hc = I.tensor(case)
            ref32 = I.full(hc.float(), case["thr"], "integral", case["p"])
            got = I.full(hc, case["thr"], "integral", case["p"])
            def differs(g_, r_):
                return (g_ and g_[0] == "raise") or any(
                    (x is None) != (y is None) or (x is not None and not abs(x - y) <= 1e-3) for fa, fb in zip(g_, r_) for x, y in zip(fa[:2], fb[:2]))
            still = differs(got, ref32)
            det = f"half={got} float32={ref32}"
            if ent.get("witness_bf16"):
                c2 = witness_case(ent["witness_bf16"])
                c2["dtype"] = "bf16"
                t2 = I.tensor(c2)
                r2, g2 = I.full(t2.float(), c2["thr"], "integral", c2["p"]), I.full(t2, c2["thr"], "integral", c2["p"])
                still = still or differs(g2, r2)
                det += f"; bf16 witness half={g2} float32={r2}"
            chk.known_replay(ent["id"], still_fails=bool(still), detail=det)
        elif ent["signature"] == "refinement_patch_crosses_border":
            still, details = True, []
            for wt in (ent["witness"], ent.get("witness_symmetric")):  # toward-centre witness, symmetric-bump witness
                if wt is None:
                    continue
                wc = witness_case(wt)
                wcms = I.tensor(wc)
                g = I.rough(wcms, wc["thr"])[0]
                f = I.full(wcms, wc["thr"], "integral", wc["p"])[0]
                bad, sigs, inside, e0, e1, cl = oracle_bump(np, I.exact(wcms)[0, 0], g, f, wt["truth"], wc["p"])
                m = parse_model(run_driver("C07.lean", [model_line(wc, wcms)])[0], 1)[0]
                if m["pfix"] in (None, "inf") or f[0] is None or abs(f[0] - float(m["pfix"][0])) > 1e-4:
                    chk.disagree("F-C07b witness: implementation == model", wt, list(f), str(m["pfix"]))
                still = still and bool(bad) and ent["signature"] in sigs
                details.append(f"rough={g} refined={f} model={m['pfix']} clauses={cl}")
            chk.known_replay(ent["id"], still_fails=still, detail="; ".join(details))
        else:
            g = I.rough(cms, case["thr"])[0]
            full = I.full(cms, case["thr"], "integral", ent["witness"]["patch"])
            if is_p1_raise(full, case["p"]):
                why, sigs = "raised", ["patch_size_1"]
                f = full
            else:
                f = full[0]
                why, sigs = oracle_refined(np, I.exact(cms)[0, 0], g, f, case["p"])
            chk.known_replay(ent["id"], still_fails=bool(why) and ent["signature"] in sigs, detail=f"rough={g} refined={f}")

    # ---- corpus, fixed cases, generated cases
    cases = []
    if (CORPUS / "C07").exists():
        for fp in sorted((CORPUS / "C07").glob("*.json")):
            c = json.loads(fp.read_text())
            c.setdefault("kind", "corpus"), c.setdefault("shape", "corpus")
            cases.append(c)
    cases.append({"S": 1, "C": 2, "h": 4, "w": 4, "den": 8, "thr": 0.1, "p": 3, "kind": "fixed", "shape": "fixed",
                  "maps": [[[0, 0, 0, 8], [0, 0, 0, 0], [0, 0, 0, 0], [8, 0, 0, 0]],      # F-C07 pattern
                           [[0, 0, 0, 0], [0, 0, 0, 0], [0, 0, 0, 0], [0, 0, 0, 0]]]})    # all below threshold
    cases.append({"S": 1, "C": 1, "h": 3, "w": 3, "den": 8, "thr": 1.0, "p": 4, "kind": "fixed", "shape": "fixed",
                  "maps": [[[0, 0, 0], [0, 8, 0], [0, 0, 0]]]})                           # max == thr is kept
    cases.append({"S": 2, "C": 1, "h": 2, "w": 3, "den": 8, "thr": 0.2, "p": 5, "kind": "fixed", "shape": "fixed",
                  "maps": [[[8, 8, 8], [8, 8, 8]], [[1, 1, 1], [1, 1, 1]]]})              # plateau; first cell
    cases.append({"S": 1, "C": 2, "h": 3, "w": 3, "den": 1, "thr": 0.5, "p": 0, "dtype": "f64", "kind": "f64thr_edge", "shape": "fixed",
                  "maps": [[[0.0, 0.0, 0.0], [0.0, 0.5 - 1e-10, 0.0], [0.0, 0.0, 0.0]],   # just below thr: invalid
                           [[0.0, 0.0, 0.0], [0.0, 0.5, 0.25], [0.0, 0.0, 0.5 - 1e-10]]]})  # max == thr: kept
    for _ in range(chk.n(3, 16)):
        cases.append(big_half_case(rng))
    for _ in range(chk.n(1000, 8000)):
        cases.append(gen_case(rng))
    for _ in range(chk.n(300, 3000)):
        cases.append(gen_gauss_case(rng))

    half_refine_probe(chk, torch, I.pf.find_global_peaks, "find_global_peaks")
    large_map_cases(chk, I, chk.n(2, 4))
    lines = [model_line(c, I.tensor(c)) for c in cases]
    out = run_driver("C07.lean", lines)
    for c, m in zip(cases, out):
        run_case(chk, I, c, m, f07_known)


def replay(chk: Check, payload):
    import_repo()
    I = Impl()
    case = payload.get("case") or payload["disagreements"][0]["case"]
    if case.get("family") == "large_map":
        large_map_cases(chk, I, 1, picks=[(case["h"], case["w"], case["hot_row"], case["hot_col"])], value=case.get("hot_value"))
        return
    if "maps" not in case:
        print("replay: case is not a map case:", case)
        return
    case.setdefault("kind", "replay"), case.setdefault("shape", "replay")
    m = run_driver("C07.lean", [model_line(case, I.tensor(case))])[0]
    print(f"replay case={ {k: case[k] for k in ('S', 'C', 'h', 'w', 'thr')} } p={patch_size(case)} maps={case['maps']} model={m[:300]}")
    f07 = next((e for e in chk.known if e["id"] == "F-C07"), None)
    run_case(chk, I, case, m, bool(f07 and f07["status"] == "known"))


if __name__ == "__main__":
    chk = Check(
        "C07", module="SleapVerif.Props.C07", theorems=THEOREMS,
        build_targets=["SleapVerif.Model.Peaks", "SleapVerif.Model.Proto"],
        trusted=[
            "Lean 4.33 kernel; axioms ⊆ {propext, Classical.choice, Quot.sound} (audited per run)",
            "hand-written model Peaks.lean of find_global_peaks_rough (repaired: flat argmax + unravel; as-is: separate argmaxes) and "
            "find_global_peaks; tied to /repo by exact comparison (cell, value, validity) and 5e-5·cond comparison (refined points) on the explored maps only",
            "torch.max returns the first index on ties (CPU; documented, measured); kornia crop_and_resize = align_corners sampling at "
            "c-(p-1)/2+k (cells for odd p, bilinear mean of four cells for even p) with zero padding: modelled, validated by the correspondence",
            "float32 comparisons coincide with comparisons of the rationals the float32 values denote (exact)",
        ],
        rule="S,C in 1..3, maps 1x1 / 1xN / Nx1 / up to 9x9 on the 1/8 or 1/16 lattice (few-level fields, 2-4 tied maxima biased to "
             "borders/corners and to different rows AND columns, unique border maxima, all-low, constant; with and without negative "
             "values; mixed valid/invalid channels), 7 thresholds, integral_patch_size 1..8 (odd and even) or none; plus float32/float64 sub-pixel bumps (Gaussian sigma 0.75..2.5, cone, quadratic, separable-symmetric; "
             "sub-pixel centres on 1/16, inside and at the border); distinct = distinct (shape, thr, patch, map bytes) with >= 1 valid "
             "channel and more than one cell; MEMORY LAYOUTS as in C06 (channels_last, padded-buffer slice, channel stride 2, (C,S)-permuted, expanded, H/W-transposed): find_global_peaks_rough, find_global_peaks(None / integral) on the view must equal the contiguous clone's answer (values, not layouts, are what the model sees)",
        assumptions=[
            "finite maps with h, w >= 1; integral_patch_size 1..8: odd p reads cells, even p reads means of four cells (half-integer "
            "sampling), both modelled; p = 1 raises inside kornia (F-C06p1) where the model gives offset 0",
            "dtypes: maps in float64 / float32 / float16 / bfloat16 (half-precision maps also with sides of 262..300 resp. 2052..2100 "
            "cells, beyond the dtype's exact-integer range); the model is dtype-agnostic (runs on the exact values): comparisons are "
            "exact in the map's own dtype, coordinates are float32 integers, values keep the map's dtype; thresholds dyadic except "
            "0.1 / 0.2 with float32 maps",
            "half-precision maps + integral refinement: since 327aafb crop_bboxes crops float16/bfloat16 maps in float32 (finding F-C06half, "
            "FIXED; the pre-fix behaviour is a regression record: witness replayed every run). ~60 % of the half-precision cases keep their "
            "patch size: correspondence and oracles run on the identical values as float32, then the half-precision call must agree with "
            "that answer peak by peak (half-precision tolerance: integral_regression still runs in the map's dtype; knife-edges skipped); "
            "a raise / NaN / discrepancy is a violation (signature half_precision_crop, no longer suppressed)",
            "maps with more than 2^24 cells: 2 (quick) / 4 (thorough) one-hot float32 maps (4100x4100, 1x16777300, 5000x3400, 4097x4099; hot "
            "cell at an odd flat index above 2^24, incl. the last cell) through find_global_peaks_rough / find_global_peaks(None, integral); "
            "model side exact Nat div/mod (Peaks.unravel, global_unravel_exact, global_rough_strict_max); float32 output coordinates are "
            "compared within one ulp (4 ulps for the refined point); integral refinement is judged only for sides <= 2^22 (sub-pixel float32 "
            "coordinates; the 1x16777300 map returns NaN there on the unchanged tree: recorded in evidence.out_of_domain)",
            "refinement bound proved for non-negative maps / positive threshold only (F-C06 applies here too); negative patches sampled "
            "every run with the oracle (excluded_region_cases) — search, not proof",
            "toward-centre / symmetric-unmoved are theorems for patches inside the map; the unrestricted statement is false "
            "(global_refine_toward_centre_border_counterexample, F-C07b): patches crossing the border are sampled every run with the "
            "oracle (direction per axis, symmetric-unmoved, no overshoot) and routed through the EFFECT-based signature "
            "refinement_patch_crosses_border (window leaves the map on the clause's axis AND observed = rough + exact zero-padded estimator "
            "within tolerance AND that exact value fails the same clause); per-axis theorems (global_refine_toward_centre_x/_y) back the "
            "verdict on an axis that stays inside; "
            "'refinement reduces the error' for interior patches is measured only (test_error_reduced_inside)",
        ],
    )
    run_check(chk, main, replay)
