"""C19 — training runs complete and leave full artefacts that never contain the API key,
at every crash point.

Model: lean/SleapVerif/Model/TrainTrace.lean (`traceG`, `fsAt`); theorems: lean/SleapVerif/Props/C19.lean.

Correspondence: the REAL `ModelTrainer(cfg)` + `.train()` runs for 1 step (a few runs: 2-3 epochs)
on tests/assets/minimal_instance.pkg.slp, CPU, wandb offline, with a fake API key in the config.
`OmegaConf.save`, Lightning's checkpoint IO, `torch.save`, `shutil.rmtree` are wrapped and a
`sys.addaudithook` sees every write-`open`/rename below the output directories, so every write is
logged in order.  At every such boundary (= crash point) all files under the output directories
are scanned for the key, and after every modelled write the modelled files are read back and
abstracted (which config / key blank / run_id) — that observed file system must equal the model's
`fsAt (traceG …) n`, and the abstracted event list must equal `traceG … flags`.

The model's `repaired` version is the tree as it is now (all C19 fixes applied); it is what every run is
compared with.  `asis` (the originally pinned tree; F-C19, F-C19b) and `keyfixed` (before b1bbd3c; F-C19c)
are kept as regression records: a failing run that is *exactly* one of them carries that finding's
signature — all three findings are `fixed`, so the signature suppresses nothing and names the regression.

Besides single fresh runs, two kinds of two-run histories are executed with the real trainer:
`reuse` (run 2 has use_existing_chunks=True on run 1's chunk dir, new checkpoint dir; model `traceR`,
`fsReuseAt`) and `same_folder` (run B, another configuration, started in run A's folder; model `traceS`,
`fsSameAt`: the file system before B's first write is A's final state with A's configs `stale`;
B's checkpoints go to best-v1.ckpt / last-v1.ckpt when A left checkpoints).

All output goes to a `tempfile.mkdtemp` scratch directory that is removed afterwards.
"""
from __future__ import annotations

import hashlib
import io
import itertools
import json
import os
import shutil
import sys
import tempfile
import threading
import time
import zipfile
from pathlib import Path

from common import Check, REPO, call, import_repo, run_check, run_driver

THEOREMS = [
    "SleapVerif.C19.fs_blank_of_all_blank",
    "SleapVerif.C19.no_key_at_any_crash_point",
    "SleapVerif.C19.no_key_at_any_crash_point_any_epochs",
    "SleapVerif.C19.artefacts_complete",
    "SleapVerif.C19.artefacts_complete_any_epochs",
    "SleapVerif.C19.train_total",
    "SleapVerif.C19.no_key_at_any_crash_point_reuse",
    "SleapVerif.C19.artefacts_complete_reuse",
    "SleapVerif.C19.train_total_reuse",
    "SleapVerif.C19.no_key_at_any_crash_point_same_folder",
    "SleapVerif.C19.artefacts_complete_same_folder",
    "SleapVerif.C19.train_total_same_folder",
    "SleapVerif.C19.no_key_after_interrupted_A",
    "SleapVerif.C19.run_key_independent",
    "SleapVerif.C19.initial_config_key_independent",
    "SleapVerif.C19.initial_config_is_supplied_any_key",
    "SleapVerif.C19.artefacts_complete_any_key",
    "SleapVerif.C19.no_key_at_any_crash_point_any_key",
    "SleapVerif.C19.asIs_without_key_eq_repaired",
    "SleapVerif.C19.no_key_at_any_crash_point_low_memory",
    "SleapVerif.C19.artefacts_complete_low_memory",
    "SleapVerif.C19.train_total_low_memory",
    "SleapVerif.C19.no_key_at_any_crash_point_aborted",
    "SleapVerif.C19.config_artefacts_after_abort",
    "SleapVerif.C19.keyFixed_fresh_eq_repaired",
    "SleapVerif.C19.reuse_bottomup_raises_counterexample",
    "SleapVerif.C19.keyFixed_reuse_partial",
    "SleapVerif.C19.keyFixed_reuse_no_key",
    "SleapVerif.C19.repair_changes_only_key_bits",
    "SleapVerif.C19.key_persisted_counterexample",
    "SleapVerif.C19.asIs_initial_config_leaks_at_every_crash_point",
    "SleapVerif.C19.asIs_leaks_at_exit_iff",
    "SleapVerif.C19.run_id_raises_counterexample",
    "SleapVerif.C19.asIs_total_partial",
    "SleapVerif.C19.asIs_final_config_blank_partial",
]

KEY = "VERIFSECRETKEY123"
# how the configuration carries the key: present | "" | None (| field missing | wandb section missing: plain configs only)
KEY_VALUE = {"present": KEY, "empty": "", "none": None, "nofield": None, "nosection": None}
MODELS = ["single_instance", "centroid", "centered_instance", "bottomup"]
FWS = ["torch_dataset", "torch_dataset_np_chunks"]


# ====================================================================== recorder (hooks)
CHUNK_CLASSES = ("train_chunks", "val_chunks", "cwd_train_chunks", "cwd_val_chunks")


class SimulatedDeath(BaseException):
    """raised by the recorder right after the k-th logged write of a run: nothing after that write runs in the
    trainer (the harness uses it only before `train()`'s try/finally, where it is indistinguishable on disk
    from the process being killed at that write boundary)"""


class Recorder:
    """Logs every write below `roots` in order; scans for the key at every boundary."""

    def __init__(self):
        self.active = False
        self.lock = threading.RLock()
        self.tl = threading.local()

    def start(self, roots, paths):
        self.roots = [str(Path(r).resolve()) for r in roots]
        self.paths = paths                # modelled path class -> absolute path (files) / dir (chunks)
        self.events = []                  # (token-kind, class-or-rel, snapshot state or None)
        self.boundaries = []              # (n_events_done, inner: bool, hits [rel paths], trigger)
        self.states = []                  # raw observed file-system after each event
        self.depth = 0                    # inside a wrapped writer
        self.chunk_open = set()
        self.n_scans = 0
        self.cache = {}
        self.last_saved_cfg = None
        self.active = True
        self.boundary(inner=False, trigger="start")
        self.states.append(self.observe())

    def stop(self):
        self.active = False
        self.crash_after = None

    # ---- helpers
    def under(self, p) -> bool:
        return any(p == r or p.startswith(r + os.sep) for r in self.roots)

    def rel(self, p) -> str:
        base = os.path.dirname(self.roots[0])
        return os.path.relpath(p, base)

    def classify(self, p):
        """modelled path class of an absolute path, else None"""
        for cls, q in self.paths.items():
            if cls in CHUNK_CLASSES:
                if p == q or p.startswith(q + os.sep):
                    return cls
            elif p == q:
                return cls
        return None

    def ignorable(self, p) -> bool:
        """unmodelled bookkeeping files of Lightning / wandb (scanned, never part of the trace)"""
        ck = os.path.dirname(self.paths["initial_config"])
        relp = os.path.relpath(p, ck)
        top = relp.split(os.sep)[0]
        if top in ("lightning_logs", "wandb"):
            return True
        # the run's private temp dir (wandb / tempfile scratch): scanned at every boundary and listed at the end
        return any(os.path.basename(r) == "tmp" and (p == r or p.startswith(r + os.sep)) for r in self.roots[2:])

    def scan(self):
        hits = []
        kb = KEY.encode()
        for r in self.roots:
            for dp, _dn, fn in os.walk(r):
                for f in fn:
                    p = os.path.join(dp, f)
                    if os.path.islink(p):
                        continue
                    try:
                        with io.open(p, "rb") as fh:
                            b = fh.read()
                    except OSError:
                        continue
                    found = kb in b
                    if not found and b[:2] == b"PK":
                        try:
                            with zipfile.ZipFile(io.BytesIO(b)) as z:
                                found = any(kb in z.read(n) for n in z.namelist())
                        except Exception:
                            pass
                    if found:
                        hits.append(self.rel(p))
        self.n_scans += 1
        return sorted(hits)

    def boundary(self, inner, trigger):
        self.boundaries.append((len(self.events), inner, self.scan(), trigger))

    def observe(self):
        """Raw content of every modelled path right now (abstracted after the run)."""
        st = {}
        for cls, p in self.paths.items():
            if cls in CHUNK_CLASSES:
                if os.path.isdir(p) and any(f.endswith(".npz") for f in os.listdir(p)):
                    st[cls] = "data"
                continue
            if not os.path.exists(p):
                continue
            s = os.stat(p)
            ck = (p, s.st_mtime_ns, s.st_size)
            if ck not in self.cache:
                self.cache[ck] = read_config_file(p)
            st[cls] = self.cache[ck]
        return st

    def event(self, kind, p):
        """kind ∈ W|D; p absolute path"""
        with self.lock:
            cls = self.classify(p)
            if cls is None and self.ignorable(p):
                self.boundary(inner=True, trigger=f"{kind}:{self.rel(p)}")
                return
            name = cls if cls is not None else "other:" + self.rel(p)
            self.events.append((kind, name))
            self.boundary(inner=False, trigger=f"{kind}:{name}")
            self.states.append(self.observe())
            if getattr(self, "crash_after", None) == len(self.events):
                raise SimulatedDeath(f"process dies after write #{len(self.events)} ({kind}:{name})")

    # ---- audit hook: every write-open / rename below the roots
    def audit(self, ev, args):
        if not self.active or ev not in ("open", "os.rename", "os.remove"):
            return
        if getattr(self.tl, "busy", False):
            return
        try:
            if ev == "open":
                path, mode, flags = args
                if isinstance(path, int) or path is None:
                    return
                if isinstance(mode, str):
                    if not any(c in mode for c in "wax+"):
                        return
                elif not (isinstance(flags, int) and flags & (os.O_WRONLY | os.O_RDWR | os.O_CREAT | os.O_TRUNC | os.O_APPEND)):
                    return
            elif ev == "os.remove":
                # a file is about to be deleted (os.remove / os.unlink): scan BEFORE it disappears
                path = args[0]
                if isinstance(path, int) or path is None:
                    return
                p = os.path.realpath(os.path.abspath(os.fsdecode(path)))
                if self.under(p):
                    self.tl.busy = True
                    try:
                        with self.lock:
                            self.boundary(inner=True, trigger="remove:" + self.rel(p))
                    finally:
                        self.tl.busy = False
                return
            else:
                path = args[1]
            p = os.fsdecode(path)
            if not os.path.isabs(p):
                p = os.path.abspath(p)
            p = os.path.realpath(p) if os.path.exists(os.path.dirname(p)) else p
            if not self.under(p):
                return
            self.tl.busy = True
            try:
                with self.lock:
                    cls = self.classify(p)
                    if cls in CHUNK_CLASSES:
                        if p.endswith(".npz") and cls not in self.chunk_open:
                            # the first chunk file of a directory: the write event is logged once the
                            # next boundary sees data there; logging it now keeps the order exact
                            self.chunk_open.add(cls)
                            self.events.append(("W", cls))
                            self.boundaries.append((len(self.events), True, self.scan(), f"open:{cls}"))
                            self.states.append(None)   # filled lazily: data is visible after the file is closed
                        else:
                            self.boundary(inner=True, trigger="open:" + self.rel(p))
                    elif self.depth > 0 or self.ignorable(p):
                        self.boundary(inner=True, trigger="open:" + self.rel(p))
                    else:
                        # a write nobody wrapped: a modelled file written by other means, or a new file
                        name = cls if cls is not None else "other:" + self.rel(p)
                        self.events.append(("W", name))
                        self.boundaries.append((len(self.events), True, self.scan(), f"rawopen:{name}"))
                        self.states.append(None)
            finally:
                self.tl.busy = False
        except Exception as e:  # never let the hook break the implementation
            self.hook_errors = getattr(self, "hook_errors", []) + [repr(e)]


REC = Recorder()
_INSTALLED = False


def read_config_file(p):
    """('yaml'|'ckpt', container, key_in_bytes) or ('unreadable', msg)."""
    import torch
    from omegaconf import OmegaConf

    try:
        with io.open(p, "rb") as fh:
            raw = fh.read()
        if p.endswith(".ckpt"):
            ck = torch.load(io.BytesIO(raw), map_location="cpu", weights_only=False)
            c = ck.get("config")
            if c is None:
                return ("ckpt", None, KEY.encode() in raw)
            cont = OmegaConf.to_container(c, resolve=True) if not isinstance(c, dict) else c
            keyin = KEY.encode() in raw
            if not keyin:
                try:
                    with zipfile.ZipFile(io.BytesIO(raw)) as z:
                        keyin = any(KEY.encode() in z.read(n) for n in z.namelist())
                except Exception:
                    pass
            return ("ckpt", json.loads(json.dumps(cont)), keyin)
        cont = OmegaConf.to_container(OmegaConf.create(raw.decode()), resolve=True)
        return ("yaml", json.loads(json.dumps(cont)), KEY.encode() in raw)
    except Exception as e:  # half-written / unreadable file
        return ("unreadable", f"{type(e).__name__}: {str(e)[:80]}", False)


def install_hooks():
    """Wrap the writers once per process; they only record while REC.active."""
    global _INSTALLED
    if _INSTALLED:
        return
    _INSTALLED = True
    import torch
    from omegaconf import OmegaConf
    from lightning.fabric.plugins.io.torch_io import TorchCheckpointIO

    def wrap(orig, path_of, kind):
        def w(*a, **k):
            if not REC.active:
                return orig(*a, **k)
            p = path_of(*a, **k)
            if p is None:
                return orig(*a, **k)
            p = os.path.realpath(os.path.abspath(os.fsdecode(p)))
            if not REC.under(p):
                return orig(*a, **k)
            REC.depth += 1
            try:
                r = orig(*a, **k)
            finally:
                REC.depth -= 1
            if REC.depth == 0:
                REC.event(kind, p)
            return r
        return w

    def pathlike(x):
        return x if isinstance(x, (str, bytes, os.PathLike)) else None

    o_save = OmegaConf.save

    def o_save_rec(config=None, f=None, *a, **k):
        if REC.active:
            try:
                REC.last_saved_cfg = OmegaConf.to_container(config, resolve=True)
            except Exception:
                pass
        return o_save(config, f, *a, **k)

    OmegaConf.save = staticmethod(wrap(o_save_rec, lambda config=None, f=None, *a, **k: pathlike(f), "W"))
    t_save = torch.save
    torch.save = wrap(t_save, lambda obj=None, f=None, *a, **k: pathlike(f), "W")
    c_save = TorchCheckpointIO.save_checkpoint
    TorchCheckpointIO.save_checkpoint = (
        lambda self, checkpoint, path, *a, **k:
        wrap(lambda: c_save(self, checkpoint, path, *a, **k), lambda: pathlike(path), "W")())
    c_rm = TorchCheckpointIO.remove_checkpoint
    TorchCheckpointIO.remove_checkpoint = (
        lambda self, path, *a, **k:
        wrap(lambda: c_rm(self, path, *a, **k), lambda: pathlike(path), "D")())
    s_rm = shutil.rmtree
    shutil.rmtree = wrap(s_rm, lambda path=None, *a, **k: pathlike(path), "D")
    REC._rmtree = s_rm
    sys.addaudithook(REC.audit)


# ====================================================================== configurations
def head_cfg(model):
    if model == "centered_instance":
        return {"confmaps": {"part_names": ["0", "1"], "anchor_part": 1, "sigma": 1.5, "output_stride": 2}}
    if model == "centroid":
        return {"confmaps": {"anchor_part": 1, "sigma": 1.5, "output_stride": 2}}
    if model == "single_instance":
        return {"confmaps": {"part_names": ["0", "1"], "sigma": 1.5, "output_stride": 2}}
    return {"confmaps": {"part_names": ["0", "1"], "sigma": 1.5, "output_stride": 2, "loss_weight": 1.0},
            "pafs": {"edges": [["0", "1"]], "sigma": 4.0, "output_stride": 4, "loss_weight": 1.0}}


UNET = {"in_channels": 1, "kernel_size": 3, "filters": 16, "filters_rate": 1.5, "max_stride": 8,
        "convs_per_block": 2, "stacks": 1, "stem_stride": None, "middle_block": True,
        "up_interpolate": False, "output_stride": 2}


def labels_for(case, run):
    """tests/assets/minimal_instance.pkg.slp (1 frame, 2 animals); a single-instance model needs one
    animal per frame, so for it a copy with the first animal only is written to the scratch dir
    (outside the scanned output directories)."""
    src = f"{REPO}/tests/assets/minimal_instance.pkg.slp"
    if case["model"] != "single_instance":
        return src
    import sleap_io as sio

    lab = sio.load_slp(src)
    for lf in lab:
        lf.instances = lf.instances[:1]
    p = os.path.join(run["scratch"], "single_instance.pkg.slp")
    lab.save(p, embed="all")
    return p


def plain_config(case, run):
    """The way the repo's tests and YAML users build it: a plain DictConfig, round-tripped through YAML."""
    from omegaconf import OmegaConf

    slp = run["labels"]
    heads = {m: None for m in MODELS}
    heads[case["model"]] = head_cfg(case["model"])
    d = {
        "data_config": {
            "provider": "LabelsReader", "train_labels_path": slp, "val_labels_path": slp, "test_file_path": None,
            "user_instances_only": True, "data_pipeline_fw": case["fw"],
            "np_chunks_path": run["np_chunks_path"], "litdata_chunks_path": None,
            "use_existing_chunks": bool(case.get("reuse")),
            "delete_chunks_after_training": case["delete"], "chunk_size": 100,
            "preprocessing": {"is_rgb": False, "max_width": None, "max_height": None,
                              "scale": None if case.get("auto_prep") else 1.0,
                              "crop_hw": None if case.get("auto_prep") else [160, 160], "min_crop_size": None},
            "use_augmentations_train": False, "augmentation_config": None,
        },
        "model_config": {
            "init_weights": "default", "pre_trained_weights": None, "pretrained_backbone_weights": None,
            "pretrained_head_weights": None, "backbone_config": {"unet": dict(UNET)}, "head_configs": heads,
        },
        "trainer_config": {
            "train_data_loader": {"batch_size": 1, "shuffle": False, "num_workers": 0},
            "val_data_loader": {"batch_size": 1, "num_workers": 0},
            "model_ckpt": {"save_top_k": 1, "save_last": (True if case.get("save_last", True) else None)},
            "early_stopping": {"stop_training_on_plateau": bool(case.get("early_stop")), "min_delta": 1e-08, "patience": 20},
            "trainer_devices": 1, "trainer_accelerator": "cpu", "enable_progress_bar": False,
            "steps_per_epoch": 1, "max_epochs": case["epochs"], "seed": case["seed"],
            "use_wandb": case["wandb"], "save_ckpt": case["ckpt"], "save_ckpt_path": run["ckpt_dir"],
            "resume_ckpt_path": None,
            "wandb": {"entity": None, "project": "verif", "name": "c19", "wandb_mode": "offline",
                      "api_key": KEY_VALUE.get(case.get("key", "present"), KEY), "prv_runid": None, "group": None},
            "optimizer_name": "Adam", "optimizer": {"lr": case.get("lr", 1e-4), "amsgrad": False},
            "lr_scheduler": {"reduce_lr_on_plateau": {"threshold": 1e-07, "threshold_mode": "rel", "cooldown": 3,
                                                      "patience": 5, "factor": 0.5, "min_lr": 1e-08}},
        },
    }
    if case.get("key") == "nofield":      # wandb section without an api_key field
        del d["trainer_config"]["wandb"]["api_key"]
    elif case.get("key") == "nosection":  # no wandb section at all (tracking off)
        del d["trainer_config"]["wandb"]
    y = Path(run["scratch"]) / "input_config.yaml"      # outside the scanned output directories
    OmegaConf.save(OmegaConf.create(d), y)
    return OmegaConf.load(y)


def structured_config(case, run):
    """The way `sleap_nn.train.train()` builds it: attrs classes → typed OmegaConf nodes."""
    from sleap_nn.config.training_job_config import TrainingJobConfig
    from sleap_nn.train import get_data_config, get_model_config, get_trainer_config

    slp = run["labels"]
    dc = get_data_config(train_labels_path=slp, val_labels_path=slp, data_pipeline_fw=case["fw"],
                         np_chunks_path=run["np_chunks_path"], delete_chunks_after_training=case["delete"],
                         use_existing_chunks=bool(case.get("reuse")),
                         crop_hw=None if case.get("auto_prep") else (160, 160), scale=1.0,
                         min_crop_size=100 if case.get("auto_prep") else None)
    mc = get_model_config(backbone_config={"unet": dict(UNET)}, head_configs={case["model"]: head_cfg(case["model"])})
    tc = get_trainer_config(batch_size=1, shuffle_train=False, num_workers=0, trainer_num_devices=1,
                            trainer_accelerator="cpu", steps_per_epoch=1, max_epochs=case["epochs"], seed=case["seed"],
                            use_wandb=case["wandb"], save_ckpt=case["ckpt"], save_ckpt_path=run["ckpt_dir"],
                            wandb_project="verif", wandb_name="c19", wandb_api_key=KEY_VALUE.get(case.get("key", "present"), KEY), wandb_mode="offline",
                            learning_rate=case.get("lr", 1e-4), lr_scheduler="reduce_lr_on_plateau",
                            ckpt_save_top_k=1, ckpt_save_last=(True if case.get("save_last", True) else None),
                            early_stopping=bool(case.get("early_stop")), early_stopping_patience=20)
    return TrainingJobConfig(data_config=dc, model_config=mc, trainer_config=tc).to_sleap_nn_cfg().copy()


class InjectedAbort(RuntimeError):
    """raised by the harness inside `Trainer.fit` to drive train()'s abort path"""


class low_memory_host:
    """Makes the trainer's in-memory-cache check fail: while active, the `psutil` the trainer module consults reports
    1 byte of available memory (everything else of psutil is passed through; nothing in /repo is touched)."""

    def __init__(self, on):
        self.on = bool(on)

    def __enter__(self):
        if not self.on:
            return
        import types

        import sleap_nn.training.model_trainer as mtm

        self.mod, self.orig = mtm, mtm.psutil
        real = mtm.psutil

        class _Shim(types.SimpleNamespace):
            def __getattr__(self, name):
                return getattr(real, name)

        def virtual_memory():
            vm = real.virtual_memory()
            return types.SimpleNamespace(**{**vm._asdict(), "available": 1})

        mtm.psutil = _Shim(virtual_memory=virtual_memory)

    def __exit__(self, *a):
        if self.on:
            self.mod.psutil = self.orig
        return False


class abort_injection:
    """`abort = {"epoch": j, "kind": "exception" | "interrupt"}`: at the start of training epoch j (after j complete
    epochs incl. validation and checkpointing) the LightningModule hook raises — an exception, or the
    KeyboardInterrupt a user's Ctrl-C produces — inside `self.trainer.fit(...)` of `ModelTrainer.train()`."""

    def __init__(self, abort):
        self.abort = abort

    def __enter__(self):
        if not self.abort:
            return
        from sleap_nn.training.lightning_modules import TrainingModel

        self.cls = TrainingModel
        self.orig = orig = TrainingModel.on_train_epoch_start
        abort = self.abort

        def hook(module):
            if module.current_epoch == abort["epoch"]:
                raise (KeyboardInterrupt("injected") if abort["kind"] == "interrupt" else InjectedAbort("injected"))
            return orig(module)

        TrainingModel.on_train_epoch_start = hook

    def __exit__(self, *a):
        if self.abort:
            self.cls.on_train_epoch_start = self.orig
        return False


# ====================================================================== one run of the real code
def norm_cfg(c):
    """config container with the key / run-id bits taken out (they are reported separately)"""
    c = json.loads(json.dumps(c))
    w = (c.get("trainer_config") or {}).get("wandb")
    bits = {"blank": True, "runid": False}
    if isinstance(w, dict):
        bits["blank"] = w.get("api_key") in ("", None)
        bits["runid"] = w.get("run_id") is not None
        w["api_key"] = ""
        w.pop("run_id", None)
    return c, bits


def abstract(obs, supplied, final):
    """Observed file content → the model's `Content.str`."""
    if obs == "data":
        return "data"
    kind, cont, keyin = obs
    if kind == "unreadable" or cont is None:
        return f"unreadable({cont})"
    c, bits = norm_cfg(cont)
    blank = bits["blank"] and not keyin
    def no_tp(x):   # total_params is absent (plain config) or None (structured) until train() sets it
        x = json.loads(json.dumps(x))
        x.get("model_config", {}).pop("total_params", None)
        return x

    if c == supplied:
        which = "supplied"
    elif final is not None and (c.get("model_config") or {}).get("total_params") is None and no_tp(c) == no_tp(final):
        which = "prepared"
    elif final is not None and c == final:
        which = "used"
    else:
        which = "other-" + hashlib.sha1(json.dumps(c, sort_keys=True).encode()).hexdigest()[:6]
    return f"{which}:{int(blank)}:{int(bits['runid'])}"


def flat(d, pre=""):
    out = {}
    if isinstance(d, dict) and d:
        for k, v in d.items():
            out.update(flat(v, f"{pre}.{k}" if pre else str(k)))
    else:
        out[pre] = d
    return out


_SCHEMA = {}


def initial_vs_raw(raw, got):
    """Leaf-by-leaf comparison of initial_config.yaml with the configuration the caller passed."""
    if not _SCHEMA:
        from omegaconf import OmegaConf
        from sleap_nn.config.training_job_config import TrainingJobConfig

        _SCHEMA.update(flat(json.loads(json.dumps(OmegaConf.to_container(OmegaConf.structured(TrainingJobConfig()))))))
    r, g = flat(raw), flat(json.loads(json.dumps(got)))
    diffs = []
    for k, v in r.items():
        if k == "trainer_config.wandb.api_key":
            if g.get(k) not in ("", None):
                diffs.append(f"{k}: key not blank")
        elif k not in g:
            # a dict given as None / {} may be expanded into (default) leaves below it; a scalar may not vanish
            below = [x for x in g if x.startswith(k + ".")]
            if not (v in (None, {}) and below):
                diffs.append(f"{k}: supplied {v!r}, missing in file")
        elif g[k] != v:
            diffs.append(f"{k}: supplied {v!r}, file has {g[k]!r}")
    for k, v in g.items():
        if k in r or any(k.startswith(p + ".") and r[p] in (None, {}) for p in r if k.startswith(p + ".")) and v is None:
            continue
        if k not in r and v is not None and _SCHEMA.get(k, None) != v:
            diffs.append(f"{k}: not supplied, file has {v!r} (schema default {_SCHEMA.get(k)!r})")
    return diffs


ORDER = ["initial_config", "training_config", "chunks_config", "best_ckpt", "last_ckpt", "train_chunks", "val_chunks",
         "best_ckpt_v1", "last_ckpt_v1", "cwd_train_chunks", "cwd_val_chunks"]


def run_history(case):
    """A two-run history in one scratch directory.
    * `case["reuse"]`: run 1 (`case["run1"]`: fresh, chunk framework, chunks kept) and run 2 (`case`:
      use_existing_chunks=True, same np_chunks_path, new save_ckpt_path);
    * `case["same_folder"]`: run A (`case["run1"]`, any fresh run) and run B (`case`, any fresh run with another
      configuration) into the SAME save_ckpt_path / np_chunks_path."""
    scratch = tempfile.mkdtemp(prefix="verif_c19_")
    try:
        rec1 = run_impl(case["run1"], scratch=scratch, ckpt_name="ckpt", crash_at=case["run1"].get("crash_at"))
        refs = rec1.pop("_refs", None)
        if case.get("same_folder"):
            rec2 = run_impl(case, scratch=scratch, ckpt_name="ckpt", carried=refs, carried_mode="same")
        else:
            rec2 = run_impl(case, scratch=scratch, ckpt_name="ckpt2", carried=refs, carried_mode="reuse")
        return rec1, rec2
    finally:
        (getattr(REC, "_rmtree", None) or shutil.rmtree)(scratch, ignore_errors=True)


def run_impl(case, scratch=None, ckpt_name="ckpt", carried=None, carried_mode=None, crash_at=None):
    """Run the real trainer for `case`; returns the observation record (JSON-able).
    `scratch` given: part of a history (the caller removes it); `carried`: the (supplied, used) configs of
    the earlier run, against which files that run left behind (chunks config.yaml) are abstracted."""
    import torch
    import wandb
    from omegaconf import OmegaConf

    install_hooks()
    own_scratch = scratch is None
    if own_scratch:
        scratch = tempfile.mkdtemp(prefix="verif_c19_")
    cwd0 = os.getcwd()
    saved_fds = None
    rec = {"case": case, "ckpt_name": ckpt_name}
    try:
        runroot = os.path.realpath(os.path.join(scratch, "run"))
        ckpt_dir = os.path.join(runroot, "out", ckpt_name)
        cwd = os.path.join(runroot, "cwd")
        os.makedirs(cwd, exist_ok=True)
        os.makedirs(os.path.join(runroot, "out"), exist_ok=True)
        sep = case["sep_chunks"]
        chunks_base = os.path.join(runroot, "out", "chunks") if sep else ckpt_dir
        run = {"scratch": scratch, "ckpt_dir": ckpt_dir, "np_chunks_path": chunks_base if sep else None}
        paths = {
            "initial_config": os.path.join(ckpt_dir, "initial_config.yaml"),
            "training_config": os.path.join(ckpt_dir, "training_config.yaml"),
            "chunks_config": os.path.join(chunks_base, "config.yaml"),
            "best_ckpt": os.path.join(ckpt_dir, "best.ckpt"),
            "last_ckpt": os.path.join(ckpt_dir, "last.ckpt"),
            "best_ckpt_v1": os.path.join(ckpt_dir, "best-v1.ckpt"),
            "last_ckpt_v1": os.path.join(ckpt_dir, "last-v1.ckpt"),
            "train_chunks": os.path.join(chunks_base, "train_chunks"),
            "val_chunks": os.path.join(chunks_base, "val_chunks"),
            # the low-memory fallback writes its chunks to the working directory
            "cwd_train_chunks": os.path.join(cwd, "train_chunks"),
            "cwd_val_chunks": os.path.join(cwd, "val_chunks"),
        }
        run["labels"] = labels_for(case, run)
        cfg = (structured_config if case["structured"] else plain_config)(case, run)
        from sleap_nn.config.training_job_config import verify_training_cfg
        from sleap_nn.training.model_trainer import ModelTrainer

        raw_input = json.loads(json.dumps(OmegaConf.to_container(cfg, resolve=True)))   # what the caller passes, verbatim
        supplied, _ = norm_cfg(OmegaConf.to_container(verify_training_cfg(cfg.copy()), resolve=True))
        os.environ["WANDB_MODE"] = "offline"
        os.environ["WANDB_SILENT"] = "true"
        os.environ["WANDB_DIR"] = ckpt_dir  # never used by the repo (save_dir is passed); keeps stray files in scope
        torch.manual_seed(case["seed"])
        # silence the very chatty console output of lightning / wandb / loguru for the run
        sys.stdout.flush(); sys.stderr.flush()
        logf = os.open(os.path.join(scratch, "console.log"), os.O_WRONLY | os.O_CREAT | os.O_TRUNC)
        saved_fds = (os.dup(1), os.dup(2))
        os.dup2(logf, 1); os.dup2(logf, 2); os.close(logf)
        os.chdir(cwd)
        t0 = time.time()
        mt = None
        exc = None
        import lightning as L

        fit_snapshot = {}
        orig_fit = L.Trainer.fit

        def fit_spy(self_, *a, **k):
            # the configuration training actually runs with = what the trainer holds when `fit` is entered
            if mt is not None and "cfg" not in fit_snapshot:
                fit_snapshot["cfg"] = json.loads(json.dumps(OmegaConf.to_container(mt.config, resolve=True)))
            return orig_fit(self_, *a, **k)

        # the run gets its own temp dir (scanned like the output dirs; nothing of the run may be left in it)
        tmpd = os.path.join(runroot, "tmp")
        os.makedirs(tmpd, exist_ok=True)
        saved_tmp = (tempfile.tempdir, os.environ.get("TMPDIR"))
        tempfile.tempdir = tmpd
        os.environ["TMPDIR"] = tmpd
        REC.start([os.path.join(runroot, "out"), cwd, tmpd], paths)
        REC.crash_after = crash_at
        L.Trainer.fit = fit_spy
        try:
            try:
                mt = ModelTrainer(cfg)
                with abort_injection(case.get("abort")), low_memory_host(case.get("low_mem")):
                    mt.train()
            except SimulatedDeath as e:
                exc = {"class": "SimulatedDeath", "msg": str(e), "where": []}
            except BaseException as e:  # noqa: BLE001 — canonicalised below
                import traceback
                if not isinstance(e, Exception) and not case.get("abort"):
                    raise      # a real Ctrl-C / SystemExit of the harness itself
                exc = {"class": type(e).__name__, "msg": str(e)[:300], "module": type(e).__module__,
                       "where": [f"{os.path.basename(f.filename)}:{f.lineno}" for f in traceback.extract_tb(e.__traceback__)
                                 if "sleap_nn" in f.filename][-1:]}
                with REC.lock:
                    REC.events.append(("RAISE", ""))
                    REC.states.append(None)
            finally:
                L.Trainer.fit = orig_fit
                tempfile.tempdir = saved_tmp[0]
                if saved_tmp[1] is None:
                    os.environ.pop("TMPDIR", None)
                else:
                    os.environ["TMPDIR"] = saved_tmp[1]
            REC.boundary(inner=False, trigger="exit")
            final_state = REC.observe()
        finally:
            REC.stop()
            try:
                if wandb.run is not None:
                    wandb.finish()
            except Exception:
                pass
            os.chdir(cwd0)
            sys.stdout.flush(); sys.stderr.flush()
            os.dup2(saved_fds[0], 1); os.dup2(saved_fds[1], 2)
            os.close(saved_fds[0]); os.close(saved_fds[1])
            saved_fds = None
        rec["wall"] = round(time.time() - t0, 2)
        if exc and (exc.get("module", "").startswith("wandb") or exc["class"] in ("TimeoutError", "CommError", "MailboxError")
                    or ("wandb" in exc["msg"].lower() and "tim" in exc["msg"].lower())):
            # the wandb service process did not answer (machine load): infrastructure, never a verdict
            raise RuntimeError(f"infrastructure: wandb service failure during the run: {exc['class']}: {exc['msg'][:200]}") from None
        rec["exception"] = exc
        try:
            with io.open(os.path.join(scratch, "console.log"), "rb") as fh:
                rec["key_in_console_log"] = KEY.encode() in fh.read()
        except OSError:
            rec["key_in_console_log"] = False
        rec["hook_errors"] = getattr(REC, "hook_errors", [])
        final = None
        used_cfg = None
        if mt is not None:
            used_cfg = json.loads(json.dumps(OmegaConf.to_container(mt.config, resolve=True)))
            final, _ = norm_cfg(used_cfg)
        elif REC.last_saved_cfg is not None:   # the constructor never returned (simulated death inside __init__)
            final, _ = norm_cfg(json.loads(json.dumps(REC.last_saved_cfg)))
        # ---- abstraction of events and of the file system after each event
        raw = list(REC.states)          # raw[0] = before the first write, raw[i+1] = after event i
        filled = [raw[0]]
        for i, (kind, name) in enumerate(REC.events):
            st = raw[i + 1]
            if st is None:
                # logged from the audit hook (file still open) or a RAISE: previous state, plus this
                # event's own path as the next full observation shows it
                st = dict(filled[-1])
                if kind == "W" and not name.startswith("other:"):
                    if name in CHUNK_CLASSES:
                        st[name] = "data"
                    else:
                        nxt = next((s for s in raw[i + 2:] if s is not None), final_state)
                        if name in nxt:
                            st[name] = nxt[name]
            filled.append(st)

        def abst(c, obs):
            # the chunks config.yaml of a re-used chunk dir was written by the earlier run
            if carried is not None and carried_mode == "reuse" and c == "chunks_config":
                return abstract(obs, carried[0], carried[1])
            r = abstract(obs, supplied, final)
            if carried is not None and carried_mode == "same" and r.startswith("other-"):
                # same-folder history: a file the earlier run left is `stale` (key / run-id bits kept)
                r0 = abstract(obs, carried[0], carried[1])
                if not r0.startswith(("other-", "unreadable")) and r0 != "data":
                    return "stale:" + r0.split(":", 1)[1]
            return r

        def fs_str(st):
            return ",".join(f"{c}={abst(c, st[c])}" for c in ORDER if c in st) or "-"

        toks = []
        for i, (kind, name) in enumerate(REC.events):
            st = filled[i + 1]
            if kind == "RAISE":
                toks.append("RAISE")
            elif kind == "D":
                toks.append(f"D:{name}")
            elif name.startswith("other:"):
                toks.append(f"W:{name}")
            else:
                toks.append(f"W:{name}:" + (abst(name, st[name]) if name in st else "absent"))
        rec["fs"] = [fs_str(st) for st in filled]
        rec["_refs"] = (supplied, final)
        rec["trace"] = toks
        rec["boundaries"] = [{"n": n, "inner": inner, "hits": hits, "trigger": trig}
                             for (n, inner, hits, trig) in REC.boundaries]
        rec["n_scans"] = REC.n_scans
        # ---- what the independent oracle needs
        rec["final"] = {
            "files": sorted(os.path.relpath(os.path.join(dp, f), runroot)
                            for r in REC.roots for dp, _d, fn in os.walk(r) for f in fn),
            "initial_equals_supplied": None, "training_equals_used": None,
        }
        ini = read_config_file(paths["initial_config"]) if os.path.exists(paths["initial_config"]) else None
        trn = read_config_file(paths["training_config"]) if os.path.exists(paths["training_config"]) else None
        if ini and ini[0] == "yaml":
            # clause (b), against the RAW input (not against the repo's own verify_training_cfg): every leaf the
            # caller supplied is in the file unchanged (key blanked); leaves the caller did not supply hold the
            # schema default (or None)
            diffs = initial_vs_raw(raw_input, ini[1])
            rec["final"]["initial_equals_supplied"] = not diffs
            rec["final"]["initial_diffs"] = diffs[:6]
            rec["final"]["initial_key_field"] = (ini[1]["trainer_config"].get("wandb") or {}).get("api_key")
        snap = fit_snapshot.get("cfg")
        rec["final"]["fit_entered"] = snap is not None
        if trn and trn[0] == "yaml" and snap is not None:
            # clause (c): the final file == the configuration the trainer held when `fit` was entered (key blanked),
            # plus wandb.run_id iff tracking
            want, _ = norm_cfg(snap)
            got, bits = norm_cfg(trn[1])
            rec["final"]["training_equals_used"] = (got == want) and (bits["runid"] == bool(case["wandb"]))
            rec["final"]["training_key_field"] = (trn[1]["trainer_config"].get("wandb") or {}).get("api_key")
            rec["final"]["training_has_run_id"] = bits["runid"]
        used_ref = norm_cfg(snap)[0] if snap is not None else final
        # checkpoints written by THIS run = *.ckpt files whose stored config is the config this run used
        # (a same-folder history also holds the earlier run's best.ckpt / last.ckpt)
        mine = []
        for fn in sorted(os.listdir(ckpt_dir)) if os.path.isdir(ckpt_dir) else []:
            if fn.endswith(".ckpt") and not os.path.islink(os.path.join(ckpt_dir, fn)):
                got = read_config_file(os.path.join(ckpt_dir, fn))
                if got[0] == "ckpt" and got[1] is not None and used_ref is not None and norm_cfg(got[1])[0] == used_ref:
                    mine.append(fn)
        rec["final"]["ckpts_of_this_run"] = mine
        rec["final"]["best_ckpt"] = any(f.startswith("best") for f in mine)
        rec["final"]["last_ckpt"] = any(f.startswith("last") for f in mine)
        rec["final"]["chunk_files"] = sorted(
            os.path.relpath(os.path.join(dp, f), runroot)
            for r in REC.roots for dp, _d, fn in os.walk(r) for f in fn if f.endswith(".npz"))
        rec["rounds"] = improved_rounds(os.path.join(ckpt_dir, "lightning_logs"), case)
        return rec
    finally:
        if saved_fds is not None:
            os.dup2(saved_fds[0], 1); os.dup2(saved_fds[1], 2)
        os.chdir(cwd0)
        if own_scratch:
            (getattr(REC, "_rmtree", None) or shutil.rmtree)(scratch, ignore_errors=True)


def improved_rounds(logdir, case):
    """Per completed validation epoch: did val_loss improve on the best so far?  Read from Lightning's own
    metrics.csv (recorded from the implementation's log, not from the write trace; listed under `trusted`).
    The first epoch always "improves" (no checkpoint yet).  A missing / short log is an infrastructure error."""
    n = case["abort"]["epoch"] if case.get("abort") else case["epochs"]
    if case.get("crash_at") or not case["ckpt"] or n <= 1:
        return [True] * n
    import csv
    import math

    out, best = [], None
    vers = sorted(Path(logdir).glob("version_*"), key=lambda p: int(p.name.split("_")[1]))
    for f in ([vers[-1] / "metrics.csv"] if vers and (vers[-1] / "metrics.csv").exists() else []):   # this run's log
        with io.open(f, newline="") as fh:
            for row in csv.DictReader(fh):
                v = row.get("val_loss")
                if v not in (None, ""):
                    v = float(v)
                    if math.isnan(v):
                        v = math.inf       # ModelCheckpoint treats a NaN monitor value as +inf (mode="min")
                    out.append(best is None or v < best)
                    best = v if best is None else min(best, v)
    if len(out) != n:
        raise RuntimeError(f"infrastructure: metrics.csv has {len(out)} val_loss rows, expected {n} ({logdir})")
    return out


# ====================================================================== oracle (independent of the model)
def oracle(rec):
    """Property C19 on the observed run: list of (what, detail).  Uses only scan hits, the exception, file
    read-backs, the raw input config and the config snapshot taken when `Trainer.fit` was entered."""
    bad = []
    case = rec["case"]
    leaks = [(i, b) for i, b in enumerate(rec["boundaries"]) if b["hits"]]
    if leaks:
        i, b = leaks[0]
        files = sorted({h for _, bb in leaks for h in bb["hits"]})
        bad.append(("key_on_disk", f"API key on disk at {len(leaks)}/{len(rec['boundaries'])} crash points; first at "
                    f"boundary #{i} (after {b['n']} writes, trigger {b['trigger']}); files: {files}"))
    if rec.get("key_in_console_log"):
        bad.append(("key_on_disk", "API key printed to the console log of the run"))
    exc = rec["exception"]
    died = bool(exc) and exc["class"] == "SimulatedDeath"
    aborted = bool(exc) and bool(case.get("abort")) and exc["class"] in ("InjectedAbort", "SystemExit", "KeyboardInterrupt")
    if died:
        return bad        # a killed process owes nothing but "no key on disk"
    if exc and not aborted:
        bad.append(("raised", f"{exc['class']}: {exc['msg'][:160]} at {exc['where']}"))
        return bad
    if case.get("abort") and not aborted:
        bad.append(("harness", "abort was injected but train() returned normally"))
    f = rec["final"]
    if f["initial_equals_supplied"] is not True:
        bad.append(("artefact", "initial_config.yaml missing or not equal to the supplied configuration"
                    + (f": {f.get('initial_diffs')}" if f.get("initial_diffs") else "")))
    if f["training_equals_used"] is not True:
        bad.append(("artefact", "training_config.yaml missing or not equal to the configuration actually used "
                    f"(snapshot at fit entry; run_id present={f.get('training_has_run_id')}, tracking={case['wandb']})"))
    if not aborted:
        # "a checkpoint when checkpointing is on" — which files is up to model_ckpt.* (compared with the model instead)
        has = bool(f["ckpts_of_this_run"])
        if case["ckpt"] != has:
            bad.append(("artefact", f"save_ckpt={case['ckpt']} but checkpoints of this run: {f['ckpts_of_this_run']}"))
    # chunk files anywhere under the output dirs, the working directory or the run's temp dir; a run that asked for the
    # in-memory framework may still have produced chunks (low-memory fallback), so the framework is not consulted
    if case["delete"] and f["chunk_files"] and not case.get("same_folder"):
        bad.append(("artefact", f"chunk deletion requested but chunk files remain: {f['chunk_files'][:3]}"))
    elif case["delete"] and case["fw"] == "torch_dataset_np_chunks" and f["chunk_files"]:
        bad.append(("artefact", f"chunk deletion requested but chunk files remain: {f['chunk_files'][:3]}"))
    return bad


# ====================================================================== comparison with the model
def flags_line(op, version, case, rounds):
    b = lambda x: "1" if x else "0"  # noqa: E731
    return (f"{op} {version} {case['model']} {case['fw']} {b(case['wandb'])} {b(case['ckpt'])} "
            f"{b(case['structured'])} {b(case['delete'])} {b(case.get('save_last', True))} {len(rounds)} "
            + " ".join(b(x) for x in rounds)).strip()


def leak_classes(fs_str):
    """modelled paths whose key bit is 0 in a model file-system string"""
    out = set()
    if fs_str == "-":
        return out
    for ent in fs_str.split(","):
        name, val = ent.split("=")
        parts = val.split(":")
        if len(parts) == 3 and parts[1] == "0":
            out.add(name)
    return out


def hit_classes(hits, rec):
    case, ck = rec["case"], rec.get("ckpt_name", "ckpt")
    rel = {"initial_config": f"out/{ck}/initial_config.yaml", "training_config": f"out/{ck}/training_config.yaml",
           "best_ckpt": f"out/{ck}/best.ckpt", "last_ckpt": f"out/{ck}/last.ckpt",
           "best_ckpt_v1": f"out/{ck}/best-v1.ckpt", "last_ckpt_v1": f"out/{ck}/last-v1.ckpt"}
    rel["chunks_config"] = "out/chunks/config.yaml" if case["sep_chunks"] else f"out/{ck}/config.yaml"
    inv = {v: k for k, v in rel.items()}
    return {inv.get(h, "other:" + h) for h in hits}


def matches_model(rec, m_trace, m_fs):
    """Is the observed run exactly the model version's behaviour (events, file system after every
    event, and the key found only where — and everywhere — that model's file system holds it)?"""
    if rec["trace"] != m_trace:
        return False, "trace"
    if rec["fs"] != m_fs:
        return False, "fs"
    for b in rec["boundaries"]:
        got = hit_classes(b["hits"], rec)
        n = b["n"]
        if b["inner"]:
            # inside write n+1 (or between two): the file being rewritten may be truncated
            allowed = leak_classes(m_fs[min(n, len(m_fs) - 1)]) | leak_classes(m_fs[min(n + 1, len(m_fs) - 1)]) \
                | (leak_classes(m_fs[n - 1]) if n >= 1 else set())
            if not got <= allowed:
                return False, f"leak at inner boundary {b['trigger']}: {sorted(got - allowed)}"
        else:
            if got != leak_classes(m_fs[min(n, len(m_fs) - 1)]):
                return False, f"leak set at boundary {b['trigger']}: {sorted(got)}"
    return True, ""


PENDING = []   # failures of runs that behave exactly as the as-is model; registered once all runs are in


def flush_pending(chk: Check, verdicts):
    """The known findings describe the pinned tree.  A tree is either as-is or repaired: if some
    runs of this invocation match the as-is model and others the repaired one, the tree is
    neither (e.g. a partial repair / partial regression) and nothing is routed to a known finding."""
    mixture = "asis" in verdicts and "repaired" in verdicts
    if mixture and PENDING:
        chk.disagree("all runs match ONE version of TrainTrace (as-is or repaired)",
                     {"as_is_like": [p[1] for p in PENDING][:4]}, sorted(set(verdicts)), "one of: all asis / all repaired")
    for what, case, slim, sig in PENDING:
        chk.fail(what + (" [runs of this tree match different model versions]" if mixture else ""),
                 case, slim, () if mixture else sig)
    PENDING.clear()


def check_case(chk: Check, case, rec=None):
    """One fresh run, or (case["reuse"]) a two-run history: run 1 is checked as a fresh run, run 2 against
    `traceR` / `fsReuseAt` starting from what run 1 left.  Returns (rec, verdict) of the last run."""
    if (case.get("reuse") or case.get("same_folder")) and rec is None:
        rec1, rec2 = run_history(case)
        _r, v1 = check_case(chk, case["run1"], rec=rec1)
        chk.tag(f"run1_verdict={v1}")
        return check_case(chk, case, rec=dict(rec2, rounds1=rec1["rounds"],
                                               a_left_ckpt=sorted(rec1["final"].get("ckpts_of_this_run") or [])))
    rec = rec or run_impl(case)
    rec.pop("_refs", None)
    rounds = rec["rounds"]
    if case.get("reuse"):
        def l2(op, ver):
            if op == "tracer":
                return flags_line(op, ver, case, rounds)
            return flags_line(op, ver, case["run1"], rec["rounds1"]) + " " + flags_line("", "", case, rounds).strip()
        lines = [l2("tracer", "repaired"), l2("fsr", "repaired"), l2("tracer", "asis"), l2("fsr", "asis"),
                 l2("tracer", "keyfixed"), l2("fsr", "keyfixed")]
    elif case.get("same_folder"):
        k = case["run1"].get("crash_at")

        def l3(op, ver):
            head = flags_line(op if k is None else f"{op} {k}", ver, case["run1"], rec["rounds1"])
            return head + " " + flags_line("", "", case, rounds).strip()
        if k is None:
            lines = [l3("traces", "repaired"), l3("fss", "repaired"), l3("traces", "asis"), l3("fss", "asis")]
        else:   # run A died at its crash point k
            lines = [l3("tracex", "repaired"), l3("fsx", "repaired"), l3("tracex", "asis"), l3("fsx", "asis")]
    elif case.get("low_mem"):
        lines = [flags_line("tracel", "repaired", case, rounds), flags_line("fsl", "repaired", case, rounds),
                 flags_line("trace", "asis", case, rounds), flags_line("fs", "asis", case, rounds)]
    elif case.get("abort"):
        lines = [flags_line("tracea", "repaired", case, rounds), flags_line("fsa", "repaired", case, rounds),
                 flags_line("tracea", "asis", case, rounds), flags_line("fsa", "asis", case, rounds)]
    else:
        ks = "present" if case.get("key", "present") == "present" else "absent"
        # the repaired lines do not take the key state: `run_key_independent` says the trace is the same
        lines = [flags_line("trace", "repaired", case, rounds), flags_line("fs", "repaired", case, rounds),
                 flags_line(f"tracek {ks}", "asis", case, rounds), flags_line(f"fsk {ks}", "asis", case, rounds)]
    out = run_driver("C19.lean", lines)
    if not all(o.startswith("ok") for o in out):
        raise RuntimeError(f"driver rejected case {case}: {out}")
    rep_t, asis_t = out[0].split()[1:], out[2].split()[1:]
    rep_fs, asis_fs = [s.strip() for s in out[1][3:].split("|")], [s.strip() for s in out[3][3:].split("|")]
    if case.get("crash_at"):     # this run was killed after its k-th write: it must be the k-prefix of the model's run
        k = case["crash_at"]
        rep_t, asis_t, rep_fs, asis_fs = rep_t[:k], asis_t[:k], rep_fs[:k + 1], asis_fs[:k + 1]
    key = (case["model"], case["fw"], case["wandb"], case["ckpt"], case["structured"], case["delete"],
           case["sep_chunks"], case["epochs"], bool(case.get("reuse")), bool(case.get("same_folder")),
           json.dumps(case.get("run1"), sort_keys=True) if case.get("same_folder") else None,
           case.get("save_last", True), json.dumps(case.get("abort")), case.get("crash_at"),
           bool(case.get("auto_prep")), bool(case.get("early_stop")), bool(case.get("low_mem")), case.get("key", "present"))
    chk.case(key, {"case": case, "impl_trace": rec["trace"], "crash_points_scanned": len(rec["boundaries"]),
                   "wall_s": rec["wall"]},
             tags=[f"model={case['model']}", f"fw={case['fw']}", f"wandb={case['wandb']}", f"ckpt={case['ckpt']}",
                   f"structured={case['structured']}", f"delete={case['delete']}", f"epochs={case['epochs']}",
                   "mode=" + ("reuse_chunks(run 2)" if case.get("reuse") else
                             "same_folder(run B)" if case.get("same_folder") else "fresh"),
                   f"sep_chunks={case['sep_chunks']}", f"save_last={case.get('save_last', True)}",
                   "rounds=" + ("".join("T" if r else "F" for r in rounds) or "-") if case["ckpt"] else "rounds=n/a(ckpt off)",
                   f"abort={case['abort']['kind']}@epoch{case['abort']['epoch']}" if case.get("abort") else "abort=no",
                   f"killed_after_write={case['crash_at']}" if case.get("crash_at") else "killed=no",
                   f"low_memory_fallback={bool(case.get('low_mem'))}", f"api_key={case.get('key', 'present')}",
                   f"auto_prep(scale/crop None)={bool(case.get('auto_prep'))}", f"early_stopping={bool(case.get('early_stop'))}"]
             + ([f"A_left_ckpt={rec.get('a_left_ckpt')}", f"A_killed={case['run1'].get('crash_at') is not None}"]
                if case.get("same_folder") else []))
    if case["ckpt"] and False in rounds:
        chk.extra["runs_with_non_improved_epoch"] = chk.extra.get("runs_with_non_improved_epoch", 0) + 1
    chk.extra["crash_points_scanned"] = chk.extra.get("crash_points_scanned", 0) + len(rec["boundaries"])
    if rec["hook_errors"]:
        raise RuntimeError(f"recorder hook failed: {rec['hook_errors'][:3]}")
    ok_rep, why_rep = matches_model(rec, rep_t, rep_fs)
    bad = oracle(rec)
    if ok_rep and not bad:
        return rec, "repaired"
    slim0 = {k: rec[k] for k in ("case", "trace", "fs", "exception", "final", "rounds", "ckpt_name")}
    if len(out) == 6:
        # F-C19c (fixed by b1bbd3c; the entry is `fixed`, so this signature suppresses nothing and the failure is a
        # regression VIOLATION): the tree with only the key / run_id repair (`Version.keyFixed`) differs from the
        # repaired model exactly on bottom-up runs that re-use chunks, where it raises while building the datasets
        kf_t, kf_fs = out[4].split()[1:], [s.strip() for s in out[5][3:].split("|")]
        ok_kf, _ = matches_model(rec, kf_t, kf_fs)
        if ok_kf and not ok_rep and rec["exception"] and rec["exception"]["class"] == "AttributeError" \
                and "skeletons" in rec["exception"]["msg"] and not any(b["hits"] for b in rec["boundaries"]):
            chk.tag("behaves_as_keyFixed_model")
            for what, detail in bad:
                chk.fail(f"C19 fails: {detail}", case, slim0, ["bottomup_reuse_chunks_raises"])
            return rec, "keyfixed"
    ok_asis, why_asis = matches_model(rec, asis_t, asis_fs)
    slim = {k: rec[k] for k in ("case", "trace", "fs", "exception", "final", "rounds", "ckpt_name")}
    slim["leaking_boundaries"] = [b for b in rec["boundaries"] if b["hits"]][:6]
    if ok_asis:
        chk.tag("behaves_as_asIs_model")
        # the observed run IS the machine-checked as-is model: route what the oracle found to the findings
        for what, detail in bad:
            sig = {"key_on_disk": ["key_in_config_yaml_or_ckpt"], "raised": ["run_id_on_structured_config"]}.get(what)
            if what == "raised" and not (rec["exception"]["class"] == "ConfigAttributeError"
                                         and "run_id" in rec["exception"]["msg"]):
                sig = None
            if what == "artefact" and rec["exception"] is not None:
                sig = ["run_id_on_structured_config"]
            PENDING.append((f"C19 fails: {detail}", case, slim, list(sig or ())))
        if not bad:
            chk.disagree("ModelTrainer trace == TrainTrace.trace (repaired)", case, rec["trace"], rep_t)
        return rec, "asis"
    chk.disagree(f"ModelTrainer write trace / file system == TrainTrace.traceG ({why_rep}; vs asIs: {why_asis})",
                 case, {"trace": rec["trace"], "fs": rec["fs"]}, {"trace": rep_t, "fs": rep_fs})
    for what, detail in bad:
        chk.fail(f"C19 fails: {detail}", case, slim, ())
    return rec, "neither"


# ====================================================================== cases
def mk(model, fw, wandb, ckpt, structured, delete, sep=True, epochs=1, seed=1000, lr=1e-4, save_last=True, **extra):
    c = {"model": model, "fw": fw, "wandb": bool(wandb), "ckpt": bool(ckpt), "structured": bool(structured),
         "delete": bool(delete), "sep_chunks": bool(sep), "epochs": epochs, "seed": seed, "lr": lr,
         "save_last": bool(save_last)}
    c.update(extra)
    return c


def mk_reuse(rng, model, wandb, ckpt, structured, delete, epochs=1):
    """Two-run history: run 1 = fresh chunk-framework run that keeps its chunks (other flags random),
    run 2 = `use_existing_chunks=True` on the same np_chunks_path with its own flags."""
    run1 = mk(model, "torch_dataset_np_chunks", rng.random() < 0.5, rng.random() < 0.5, rng.random() < 0.5, 0,
              sep=True, seed=rng.randrange(2**31))
    c = mk(model, "torch_dataset_np_chunks", wandb, ckpt, structured, delete, sep=True, epochs=epochs,
           seed=rng.randrange(2**31))
    c["reuse"] = True
    c["run1"] = run1
    return c


def mk_same(rng, a, b):
    """Two-run history into the same folder: run A = `a`, run B = `b` (both fresh runs, different seeds hence
    different configurations; they must agree on where the chunk dir lives)."""
    a, b = dict(a), dict(b)
    b["sep_chunks"] = a["sep_chunks"]
    if b["seed"] == a["seed"]:
        b["seed"] += 1
    b["same_folder"] = True
    b["run1"] = a
    return b


def rand_case(rng, **kw):
    c = mk(rng.choice(MODELS), rng.choice(FWS), rng.random() < 0.5, rng.random() < 0.5, rng.random() < 0.5,
           rng.random() < 0.5, sep=rng.random() < 0.7, seed=rng.randrange(2**31))
    c.update(kw)
    return c


def mk_abort(rng, kind, epoch, **kw):
    c = rand_case(rng, epochs=max(2, epoch + 1), **kw)
    c["abort"] = {"epoch": epoch, "kind": kind}
    return c


def mk_killed_A(rng, b=None):
    """Run A is killed right after one of its writes that precede `fit` (initial / training / chunks config /
    re-saved training config); run B (another configuration) is then started in the same folder."""
    a = rand_case(rng)
    a["crash_at"] = rng.randint(1, 3 + (a["fw"] == "torch_dataset_np_chunks"))
    return mk_same(rng, a, b or rand_case(rng))


def cwd_output_cases(chk: Check):
    """save_ckpt_path = None: the artefacts go to the working directory (added after C19-r9m1, where the resolved
    '.' was written back into the configuration before initial_config.yaml was saved).  `ModelTrainer.__init__`
    alone writes initial_config.yaml, so no training is needed: for every model type, plain and structured
    configuration, the file found in the working directory is compared leaf by leaf with the configuration the
    caller passed (`initial_vs_raw`, the oracle of clause (b)) and scanned for the key."""
    import shutil
    import tempfile

    from omegaconf import OmegaConf
    from sleap_nn.training.model_trainer import ModelTrainer

    for m, structured, w in itertools.product(MODELS, [0, 1], [0, 1]):
        case = mk(m, "torch_dataset", w, 1, structured, 0, sep=False, seed=1234)
        case["cwd_output"] = True
        scratch = tempfile.mkdtemp(prefix="verif_c19_cwd_")
        cwd0 = os.getcwd()
        saved_fds = None
        try:
            cwd = os.path.join(os.path.realpath(scratch), "cwd")
            os.makedirs(cwd)
            run = {"scratch": scratch, "ckpt_dir": None, "np_chunks_path": None}
            run["labels"] = labels_for(case, run)
            cfg = (structured_config if structured else plain_config)(case, run)
            raw_input = json.loads(json.dumps(OmegaConf.to_container(cfg, resolve=True)))
            sys.stdout.flush(); sys.stderr.flush()
            logf = os.open(os.path.join(scratch, "console.log"), os.O_WRONLY | os.O_CREAT | os.O_TRUNC)
            saved_fds = (os.dup(1), os.dup(2))
            os.dup2(logf, 1); os.dup2(logf, 2); os.close(logf)
            os.chdir(cwd)
            r = call(ModelTrainer, cfg)
            os.chdir(cwd0)
            sys.stdout.flush(); sys.stderr.flush()
            os.dup2(saved_fds[0], 1); os.dup2(saved_fds[1], 2); os.close(saved_fds[0]); os.close(saved_fds[1])
            saved_fds = None
            chk.case(("cwd_output", m, structured, w), tags=["cwd_output_initial_config"])
            if r[0] == "raise":
                chk.fail("C19 fails: ModelTrainer(config with save_ckpt_path=None) raised", case, list(r[1:]))
                continue
            ini_p = os.path.join(cwd, "initial_config.yaml")
            if not os.path.exists(ini_p):
                chk.fail("C19 fails: save_ckpt_path=None, no initial_config.yaml in the working directory", case,
                         sorted(os.listdir(cwd)))
                continue
            ini = read_config_file(ini_p)
            if ini[0] != "yaml":
                chk.fail("C19 fails: save_ckpt_path=None, initial_config.yaml unreadable", case, list(ini))
                continue
            diffs = initial_vs_raw(raw_input, ini[1])
            if diffs or ini[2]:
                chk.fail("C19 fails: save_ckpt_path=None (outputs in the working directory): initial_config.yaml is not "
                         "the configuration supplied" + (" and contains the API key" if ini[2] else ""), case, diffs[:6])
        finally:
            if saved_fds is not None:
                os.chdir(cwd0)
                sys.stdout.flush(); sys.stderr.flush()
                os.dup2(saved_fds[0], 1); os.dup2(saved_fds[1], 2)
            try:
                import wandb
                if wandb.run is not None:
                    wandb.finish()
            except Exception:
                pass
            shutil.rmtree(scratch, ignore_errors=True)


def main(chk: Check):
    chk.build_and_audit()
    import_repo()
    rng = chk.rng
    cwd_output_cases(chk)
    cases = []
    opt = lambda: {"save_last": rng.random() < 0.5, "auto_prep": rng.random() < 0.4, "early_stop": rng.random() < 0.3}  # noqa: E731
    # the witnesses of the (fixed) findings F-C19 / F-C19b always run first (they are the regression replays)
    w_key = mk("centered_instance", "torch_dataset", 0, 1, 0, 1)
    w_rid = mk("centered_instance", "torch_dataset", 1, 0, 1, 1)
    cases += [w_key, w_rid]
    if chk.thorough:
        for m, fw, w, c, s, d in itertools.product(MODELS, FWS, [0, 1], [0, 1], [0, 1], [0, 1]):
            cases.append(mk(m, fw, w, c, s, d, sep=rng.random() < 0.7, seed=rng.randrange(2**31), **opt()))
        for m, w, c, s, d in itertools.product(MODELS, [0, 1], [0, 1], [0, 1], [0, 1]):   # grid x reuse
            cases.append(mk_reuse(rng, m, w, c, s, d))
        for m, fw, w, c, s, d in itertools.product(MODELS, FWS, [0, 1], [0, 1], [0, 1], [0, 1]):   # grid x same folder
            cases.append(mk_same(rng, rand_case(rng, **opt()), mk(m, fw, w, c, s, d, seed=rng.randrange(2**31), **opt())))
        for _ in range(8):   # more than one validation epoch: checkpoints only when the loss improved
            cases.append(mk(rng.choice(MODELS), rng.choice(FWS), rng.random() < 0.5, 1, rng.random() < 0.5,
                            rng.random() < 0.5, sep=rng.random() < 0.7, epochs=rng.choice([2, 3, 4]),
                            seed=rng.randrange(2**31), lr=rng.choice([1e-4, 0.05, 2.0]), save_last=rng.random() < 0.5))
        for kind, epoch in itertools.product(["exception", "interrupt"], [0, 1, 2]):   # aborted inside fit
            for _ in range(3):
                cases.append(mk_abort(rng, kind, epoch, **opt()))
        for _ in range(16):                                                          # A killed, then B in its folder
            cases.append(mk_killed_A(rng))
        # low-memory host: the in-memory cache check fails -> the trainer falls back to chunks in the working directory
        for m, w, c, s_, d in itertools.product(MODELS, [0, 1], [0, 1], [0, 1], [0, 1]):
            cases.append(mk(m, "torch_dataset", w, c, s_, d, sep=rng.random() < 0.7, seed=rng.randrange(2**31),
                            low_mem=True, **opt()))
        for _ in range(8):      # chunk framework requested: the memory check is not consulted
            cases.append(rand_case(rng, fw="torch_dataset_np_chunks", low_mem=True, **opt()))
        for m, kk, fw in itertools.product(MODELS, ["empty", "none", "nofield", "nosection"], FWS):   # no key in the config
            for _ in range(2):
                plain_only = kk in ("nofield", "nosection")
                cases.append(rand_case(rng, model=m, fw=fw, key=kk, structured=(False if plain_only else rng.random() < 0.5),
                                       wandb=(False if kk == "nosection" else rng.random() < 0.5), **opt()))
    else:
        ms = MODELS[:]
        rng.shuffle(ms)
        # a covering set (every flag on and off, both frameworks, chunks next to / apart from the checkpoints,
        # save_last on / schema default None, scale+crop size given / computed, early stopping on / off) …
        cases.append(mk(ms[0], "torch_dataset_np_chunks", 1, 1, 0, 1, sep=True, seed=rng.randrange(2**31), auto_prep=True))
        cases.append(mk(ms[1], "torch_dataset_np_chunks", 0, 0, 1, 0, sep=False, seed=rng.randrange(2**31), early_stop=True))
        cases.append(mk(ms[2], "torch_dataset_np_chunks", 1, 1, 1, 1, sep=True, seed=rng.randrange(2**31), save_last=False))
        cases.append(mk(ms[3], "torch_dataset", 1, 1, 0, 0, seed=rng.randrange(2**31), save_last=False, auto_prep=True))
        # … plus a seeded random grid point
        cases.append(rand_case(rng, **opt()))
        # two-run histories (use_existing_chunks): deletion requested after re-use for two different model types,
        # and one history that keeps the chunks
        ms2 = rng.sample(MODELS, 2)
        for m in ms2:
            cases.append(mk_reuse(rng, m, rng.random() < 0.5, rng.random() < 0.5, rng.random() < 0.5, 1))
        cases.append(mk_reuse(rng, rng.choice(MODELS), rng.random() < 0.5, rng.random() < 0.5, rng.random() < 0.5, 0))
        # same-folder histories: B into A's folder, different model types / flags; A leaves checkpoints and chunks
        # in the first (and B has no last.ckpt of its own), nothing but configs in the second, random in the third
        ma, mb = rng.sample(MODELS, 2)
        cases.append(mk_same(rng, rand_case(rng, model=ma, fw="torch_dataset_np_chunks", ckpt=True, delete=False, save_last=True),
                             rand_case(rng, model=mb, ckpt=True, save_last=False)))
        cases.append(mk_same(rng, rand_case(rng, model=mb, fw="torch_dataset", ckpt=False),
                             rand_case(rng, model=ma, fw="torch_dataset_np_chunks")))
        cases.append(mk_same(rng, rand_case(rng, **opt()), rand_case(rng, epochs=rng.choice([1, 2]), **opt())))
        # aborted inside fit: an exception after one complete epoch (tracking on, structured config: the finally
        # block must add run_id), a Ctrl-C before the first epoch (chunk framework: chunks must still be deleted)
        cases.append(mk_abort(rng, "exception", 1, wandb=True, structured=True, ckpt=True))
        cases.append(mk_abort(rng, "interrupt", 0, fw="torch_dataset_np_chunks", delete=True))
        # run A killed at a write boundary, then run B in the same folder
        cases.append(mk_killed_A(rng))
        # low-memory host (psutil reports 1 byte available): every model type, chunk deletion requested and not
        for m in MODELS:
            for d in (1, 0):
                cases.append(mk(m, "torch_dataset", rng.random() < 0.5, rng.random() < 0.5, rng.random() < 0.5, d,
                                sep=rng.random() < 0.7, seed=rng.randrange(2**31), low_mem=True, **opt()))
        cases.append(rand_case(rng, fw="torch_dataset_np_chunks", low_mem=True))   # check not consulted
        # configurations WITHOUT an API key, one per model type: "" / None / no api_key field / no wandb section
        kinds = ["empty", "none", "nofield", "nosection"]
        rng.shuffle(kinds)
        for m, kk in zip(MODELS, kinds):
            plain_only = kk in ("nofield", "nosection")
            cases.append(rand_case(rng, model=m, key=kk, structured=(False if plain_only else rng.random() < 0.5),
                                   wandb=(False if kk == "nosection" else rng.random() < 0.5), **opt()))
    verdicts = {}
    for i, case in enumerate(cases):
        rec, verdict = check_case(chk, case)
        verdicts[i] = (verdict, rec)
        chk.tag(f"verdict={verdict}")
    # at least one run whose validation loss does NOT improve in some epoch (`ckptRound … false`: nothing written)
    for lr, ep in ((2.0, 3), (0.05, 4), (2.0, 4), (0.5, 4)):
        if chk.extra.get("runs_with_non_improved_epoch", 0) >= (4 if chk.thorough else 1):
            break
        c = mk(rng.choice(MODELS), rng.choice(FWS), rng.random() < 0.5, 1, rng.random() < 0.5, 1, epochs=ep,
               seed=rng.randrange(2**31), lr=lr, save_last=rng.random() < 0.5)
        rec, verdict = check_case(chk, c)
        verdicts[len(verdicts)] = (verdict, rec)
        chk.tag(f"verdict={verdict}")
    chk.extra.setdefault("runs_with_non_improved_epoch", 0)
    vs = [v for v, _ in verdicts.values()]
    flush_pending(chk, vs)
    pinned = "repaired" not in vs     # no run of this tree shows repaired behaviour
    # known findings: the witnesses were executed above on the real code; "still fails" = the run is
    # the as-is model's run (anything else that fails was reported above as an ordinary violation)
    v, rec = verdicts[0]
    chk.known_replay("F-C19", still_fails=(pinned and v == "asis" and any(b["hits"] for b in rec["boundaries"])),
                     detail="witness run: " + ("no crash point has the key on disk" if v == "repaired" else f"behaves as {v}"))
    v, rec = verdicts[1]
    chk.known_replay("F-C19b", still_fails=(pinned and v == "asis" and bool(rec["exception"])),
                     detail="witness run: " + ("completes" if v == "repaired" else f"behaves as {v}"))
    wc = next((f.get("witness") for f in chk.known if f["id"] == "F-C19c"), None)
    if wc is not None:
        wc = {k: v for k, v in wc.items() if k != "expect"}
        rec, v = check_case(chk, wc)
        chk.known_replay("F-C19c", still_fails=(v == "keyfixed" or bool(rec["exception"])),
                         detail="witness history: run 2 " + ("completes" if v == "repaired" else f"behaves as {v}"))
    chk.extra["runs_matching_repaired_model"] = sum(1 for v, _ in verdicts.values() if v == "repaired")
    chk.extra["runs_matching_asIs_model"] = sum(1 for v, _ in verdicts.values() if v == "asis")


def replay(chk: Check, payload):
    import_repo()
    case = payload.get("case") or payload["disagreements"][0]["case"]
    if case.get("cwd_output"):
        cwd_output_cases(chk)      # the sixteen working-directory observations (construction only)
        print(f"replay cwd_output: failing={len(chk.failing)}")
        return
    rec, verdict = check_case(chk, case)
    flush_pending(chk, [verdict])
    print(f"replay case={case} verdict={verdict}\n trace={rec['trace']}\n exception={rec['exception']}\n"
          f" leaking boundaries={[b for b in rec['boundaries'] if b['hits']][:4]}\n oracle={oracle(rec)}")


if __name__ == "__main__":
    chk = Check(
        "C19", module="SleapVerif.Props.C19", theorems=THEOREMS,
        build_targets=["SleapVerif.Model.TrainTrace", "SleapVerif.Model.Proto"],
        trusted=[
            "Lean 4.33 kernel; axioms ⊆ {propext, Classical.choice, Quot.sound} (audited per run)",
            "hand-written model TrainTrace.lean of the config-persisting writes of ModelTrainer.__init__/train(); the "
            "no-key / totality theorems for Version.repaired hold by the constants of that model (blankInit/blankTrain = true, "
            "no raise) — they say something about /repo only through the exact comparison of the logged write trace and of "
            "the file system after every write on the explored runs",
            "completeness of the write log: OmegaConf.save / TorchCheckpointIO / torch.save / shutil.rmtree wrappers plus "
            "sys.addaudithook('open','os.rename','os.remove') in this process; files written by child processes (wandb "
            "service; dataloader workers are never used: num_workers=0) are scanned at every boundary but not logged as events",
            "the key scan is a byte search (plus inside zip members) for the literal key: an encoded/compressed copy "
            "would not be seen; bytes written by Lightning/wandb internals are scanned, not modelled; the redirected console "
            "output of each run is scanned once, at its end",
            "wandb offline mode with wandb_mode='offline' in the config: `wandb.login(key)` itself is never executed (no network)",
            "values RECORDED from the implementation and fed to the model side: (i) `rounds` (per-epoch 'val_loss improved') from "
            "Lightning's metrics.csv — a missing/short log is an infrastructure error; (ii) the abstraction label `used` = equals "
            "trainer.config after the run, (iii) `supplied` = equals verify_training_cfg(input), (iv) `prepared` = `used` minus "
            "total_params (whatever __init__ filled in is accepted as 'prepared'). The ORACLE does not use (ii)-(iv): it compares "
            "initial_config.yaml leaf-by-leaf with the raw input (+ schema defaults from TrainingJobConfig() for leaves not "
            "supplied) and the final file with a snapshot of trainer.config taken when Trainer.fit is entered, + run_id iff tracking",
            "process death is simulated by scanning between writes; a killed run A is simulated by raising out of the trainer "
            "right after one of its pre-fit writes (no try/finally is active there)",
            "checkpoint schedule = the installed Lightning's ModelCheckpoint (no last.ckpt without a top-k save; -v1 names when a "
            "file of that name exists; KeyboardInterrupt in fit becomes SystemExit(1) after teardown)",
        ],
        rule="real 1-step-per-epoch trainings, every write boundary scanned. Flags: model(4) x framework(2) x wandb x ckpt x "
             "structured/plain x delete_chunks x save_last(True / schema default None), plus per run: chunk dir apart from / "
             "inside the checkpoint dir, scale+crop size given or computed, early stopping on/off, 1-4 epochs with "
             "learning rates that make some epochs not improve. Run shapes: fresh; two-run history `reuse` (run 2 has "
             "use_existing_chunks=True on run 1's chunk dir); two-run history `same_folder` (run B, another configuration, in run "
             "A's folder; A completed, or A killed right after one of its pre-fit writes); aborted inside fit (exception / "
             "Ctrl-C at the start of epoch 0, 1 or 2); fresh run on a low-memory host (the trainer module's psutil reports 1 byte "
             "available -> fallback to chunks in the working directory; 4 model types x deletion on/off). quick: 2 former-finding witnesses + 4 covering + 1 random fresh, 3 reuse + "
             "3 same-folder + 1 killed-A histories, 2 aborted runs, the F-C19c witness history and 1-4 multi-epoch runs until one "
             "has a non-improved epoch plus 9 low-memory runs and 4 runs without an API key, one per model type (39-42 trainings). thorough: all 128 fresh grid points (save_last etc. random), 64 reuse, "
             "128 same-folder, 16 killed-A histories, 18 aborted, 72 low-memory, 64 without a key, 8+ multi-epoch. distinct = distinct case tuple.",
        assumptions=["single process, rank 0 (get_dist_rank() is None); num_workers = 0",
                     "model_ckpt.save_top_k is pinned to 1 (save_last is a flag); with save_top_k >= 2 a fresh run writes "
                     "best-v1.ckpt itself, with 0 no best.ckpt — not modelled, never run",
                     "use_existing_chunks only with the chunk framework and chunks left by an earlier run of the same model "
                     "type (anything else is rejected by ModelTrainer.__init__); re-use runs always have scale given (with "
                     "scale=None __init__ would fill it in and the second file would no longer be the supplied config)",
                     "litdata framework is outside the property's quantifier; UNet backbone only",
                     "histories, aborted and low-memory runs always carry a key; runs without one ('' / None / field missing / "
                     "wandb section missing) are fresh runs; save_ckpt_path is given in every full run; None (outputs in the working directory) is observed for initial_config.yaml only, by constructing ModelTrainer without training (16 cases); resume_ckpt_path, prv_runid, profiler, "
                     "trainer_strategy, rank != 0: never run",
                     "a same-folder history has two runs; use_existing_chunks in the same folder is not run"],
    )
    run_check(chk, main, replay)
