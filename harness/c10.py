"""C10 — well-separated animals keep their identity across frames.

Same model and driver as C09 (`SleapVerif.Tracker`, `drivers/C09.lean`).  Scenes of the property's
class (animals far apart compared with their motion, random detection order, absences shorter than
the window, late arrivals only while everybody else is visible) are run through the real tracker;
per frame the harness (1) diffs implementation and model exactly as C09 does, (2) checks on the
*recorded* raw scores and the *real* queue that the hypotheses of the C10 theorems hold (identity
edges dominate rows and columns with a positive margin, every known track still has a candidate,
every stored feature of a track belongs to one animal), (3) validates the solver contracts the
theorems take as hypotheses (argsort ascending; scipy's optimum equals the identity edges), and
(4) runs the ground-truth oracle: same animal ↔ same track over the whole history, a newcomer gets
a track nobody held.
"""
from __future__ import annotations

import json

from common import Check, run_check, run_driver

c09 = None


def _bind():
    """`harness/c09.py` is imported inside `run_check` (an import/syntax error there is an infrastructure
    error, exit 2, not a traceback with exit 1)."""
    global c09, run_impl, model_lines, parse_model, compare_frame, impl_fields, all_configs
    global check_lsa, check_argsort, argsort_order
    import c09 as _c
    c09 = _c
    run_impl, model_lines, parse_model = _c.run_impl, _c.model_lines, _c.parse_model
    compare_frame, impl_fields, all_configs = _c.compare_frame, _c.impl_fields, _c.all_configs
    check_lsa, check_argsort, argsort_order = _c.check_lsa, _c.check_argsort, _c.argsort_order

THEOREMS = [
    "SleapVerif.C10.identity_preserved_fw_greedy",
    "SleapVerif.C10.identity_preserved_lq_greedy",
    "SleapVerif.C10.identity_preserved_fw_hungarian",
    "SleapVerif.C10.identity_preserved_lq_hungarian",
    "SleapVerif.C10.hungarian_picks_identity",
    "SleapVerif.C10.identity_preserved_fw_hungarian_partial",
    "SleapVerif.C10.identity_preserved_lq_hungarian_partial",
    "SleapVerif.C10.identity_constant",
    "SleapVerif.C10.identity_every_detection_tracked",
    "SleapVerif.C10.identity_preserved_fw_greedy_iou",
    "SleapVerif.C10.identity_preserved_lq_greedy_iou",
    "SleapVerif.C10.identity_preserved_fw_greedy_euclid",
    "SleapVerif.C10.identity_preserved_lq_greedy_euclid",
    "SleapVerif.C10.identity_preserved_fw_hungarian_iou",
    "SleapVerif.C10.identity_preserved_lq_hungarian_iou",
    "SleapVerif.C10.identity_preserved_fw_hungarian_euclid",
    "SleapVerif.C10.identity_preserved_lq_hungarian_euclid",
    "SleapVerif.C10.oks_zero_area_counterexample",
    "SleapVerif.C10.Witness.extOk",
    "SleapVerif.C10.Witness.sorted",
    "SleapVerif.C10.Witness.inClass",
    "SleapVerif.C10.Witness.endToEnd",
    "SleapVerif.C10.Witness.extH_ok",
    "SleapVerif.C10.Witness.extH_optimal",
    "SleapVerif.C10.Witness.solver_contracts_satisfiable",
    "SleapVerif.C10.Witness.inClassH",
    "SleapVerif.C10.Witness.endToEndHungarian",
    "SleapVerif.C10.iou_range",
    "SleapVerif.C10.iou_symm",
    "SleapVerif.C10.iou_self_is_one_degenerate",
    "SleapVerif.C10.iou_disjoint_zero",
    "SleapVerif.C10.bbox_wellformed",
    "SleapVerif.C10.iou_dominance",
    "SleapVerif.C10.euclid_triangle",
    "SleapVerif.C10.euclid_dominance",
    "SleapVerif.C10.iou_scene_class",
    "SleapVerif.C10.euclid_scene_class",
    "SleapVerif.C10.window_purity_step_fw",
    "SleapVerif.C10.window_purity_step_lq",
    "SleapVerif.C10.reduction_preserves_dominance",
    "SleapVerif.C10.separated_gives_dominant",
    "SleapVerif.C10.greedy_rejects_only_for_cheaper",
    "SleapVerif.C10.greedy_picks_identity",
    "SleapVerif.C10.greedy_stage_picks_identity",
    "SleapVerif.C10.stage_identity",
    "SleapVerif.C10.fw_identity_step_greedy",
    "SleapVerif.C10.lq_identity_step_greedy",
    "SleapVerif.C10.fw_identity_step_hungarian",
    "SleapVerif.C10.lq_identity_step_hungarian",
    "SleapVerif.C10.lq_no_stale",
]
MARGIN = 1e-6


# --------------------------------------------------------------------------- scenes of the class
def gen_scene(rng, cfg=None):
    cfg = dict(cfg or rng.choice(all_configs()))
    W = rng.choice([1, 2, 3, 5])
    cfg["window_size"] = W
    cfg["instance_score_threshold"] = rng.choice([0.0, 0.0, 0.5])
    K = rng.choice([1, 2, 2, 3, 3, 4])
    F = rng.randint(3, 12)
    # well separated lattice positions, motion ≤ 1/2 px per frame and axis (≪ 60 px separation, ≪ body size 16–24 px)
    slots = [(60.0 * i, 60.0 * j) for i in range(3) for j in range(2)]
    rng.shuffle(slots)
    pos = [[slots[a][0] + rng.randrange(0, 32) / 16, slots[a][1] + rng.randrange(0, 32) / 16] for a in range(K)]
    arrive = sorted(rng.choice([0, 0, rng.randint(0, F - 1)]) for _ in range(K))
    arrive[0] = 0
    absent = [0] * K      # consecutive pushed frames an animal has been absent
    known = set()
    frames = []
    for f in range(F):
        for a in range(K):
            pos[a][0] += rng.randrange(-8, 9) / 16
            pos[a][1] += rng.randrange(-8, 9) / 16
        if known and rng.random() < 0.06:
            frames.append([])            # empty frame: nothing is pushed, nobody ages
            continue
        newcomers = [a for a in range(K) if a not in known and arrive[a] <= f]
        present = set()
        if newcomers:
            present = set(known) | set(newcomers)       # newcomers only while everyone is visible
        else:
            for a in known:
                # an absence must stay shorter than the window (W-1 pushed frames at most)
                if absent[a] + 1 <= W - 1 and rng.random() < 0.3:
                    continue
                present.add(a)
        if known and not present:
            present = set(known)
        dets = [[pos[a][0], pos[a][1], 0.9, a, 16 + 4 * (a % 3)] for a in sorted(present)]
        rng.shuffle(dets)
        frames.append(dets)
        if dets:
            for a in known:
                absent[a] = 0 if a in present else absent[a] + 1
            for a in newcomers:
                known.add(a)
                absent[a] = 0
    return {"cfg": cfg, "frames": frames}


def gen_fast_small(rng, cfg=None):
    """Scene family `fast_small` (OKS near the underflow regime): small bodies (12–14 px) that jump
    ~12 px per frame, animals 1000 px apart, no absences, detections listed in an order that differs
    from the track-id order.  The OKS between a detection and its own previous position is
    exp(-d²/(0.005·area)) with d²/(0.005·area) in (103, 300): tiny but strictly positive in float64
    (≥ 1e-130), exactly 0 against every other animal, so the same-animal score is strictly the largest
    and identity must be kept; any loss of precision in the score (e.g. float32 exp, which underflows
    beyond ~103) turns it into a tie that the listing order decides."""
    oks = [c for c in all_configs() if c["scoring_method"] == "oks"]
    cfg = dict(cfg or rng.choice(oks))
    cfg["window_size"] = rng.choice([1, 2, 3, 5])
    cfg["instance_score_threshold"] = 0.0
    K = rng.choice([2, 2, 3, 4])
    F = rng.randint(3, 8)
    size = [rng.choice([12, 14]) for _ in range(K)]
    pos = [[1000.0 * a + rng.randrange(0, 64) / 16, 1000.0 * (a % 2) + rng.randrange(0, 64) / 16] for a in range(K)]
    arrive = [0] * K
    if K > 2 and rng.random() < 0.3:
        arrive[K - 1] = rng.randint(1, F - 1)          # a late arrival; everybody else stays visible
    steps = [(12, 0), (-12, 0), (0, 12), (0, -12), (8, 8), (-8, 8), (8, -8), (-8, -8), (10, 6), (-6, 10)]
    frames = []
    for f in range(F):
        dets = []
        for a in range(K):
            if f > 0:
                dx, dy = rng.choice(steps)
                pos[a][0] += dx
                pos[a][1] += dy
            if arrive[a] <= f:
                dets.append([pos[a][0], pos[a][1], 0.9, a, size[a]])
        # listing order different from the track-id (= first-appearance) order
        if f > 0 and len(dets) > 1:
            if rng.random() < 0.5:
                dets.reverse()
            else:
                rng.shuffle(dets)
                if [d[3] for d in dets] == sorted(d[3] for d in dets):
                    dets.reverse()
        frames.append(dets)
    return {"cfg": cfg, "frames": frames, "family": "fast_small"}


def gen_degenerate(rng, cfg=None):
    """Scene family `degenerate_iou` (seeded C10-r2m1): bboxes + iou with poses whose bounding box
    has zero width or height (collinear keypoints with identical x or y) or is a single point (one
    visible keypoint).  Thin animals only move along their long axis (a 1-px-thick box must keep
    overlapping itself), single-keypoint animals by at most 1/16 px per frame; everybody ≥ 60 px apart."""
    cfg = dict(cfg or rng.choice(all_configs()))
    W = rng.choice([1, 2, 3, 5])
    cfg["window_size"] = W
    cfg["instance_score_threshold"] = rng.choice([0.0, 0.5])
    K = rng.choice([2, 2, 3, 4])
    F = rng.randint(3, 10)
    poses = [rng.choice(c09.DEGENERATE + ["tri"]) for _ in range(K)]
    poses[0] = rng.choice(c09.DEGENERATE)
    poses[1] = rng.choice(c09.DEGENERATE)
    rng.shuffle(poses)
    slots = [(60.0 * i, 60.0 * j) for i in range(3) for j in range(2)]
    rng.shuffle(slots)
    pos = [[slots[a][0] + rng.randrange(0, 32) / 16, slots[a][1] + rng.randrange(0, 32) / 16] for a in range(K)]
    size = [16 + 4 * (a % 3) for a in range(K)]
    arrive = sorted(rng.choice([0, 0, rng.randint(0, F - 1)]) for _ in range(K))
    arrive[0] = 0
    absent = [0] * K
    known = set()
    frames = []
    for f in range(F):
        for a in range(K):
            dx, dy = rng.randrange(-8, 9) / 16, rng.randrange(-8, 9) / 16
            if poses[a] == "hline":
                dy = 0.0
            elif poses[a] == "vline":
                dx = 0.0
            elif poses[a] == "single":
                dx, dy = rng.randrange(-1, 2) / 16, rng.randrange(-1, 2) / 16
            pos[a][0] += dx
            pos[a][1] += dy
        newcomers = [a for a in range(K) if a not in known and arrive[a] <= f]
        present = set()
        if newcomers:
            present = set(known) | set(newcomers)
        else:
            for a in known:
                if absent[a] + 1 <= W - 1 and rng.random() < 0.25:
                    continue
                present.add(a)
        if known and not present:
            present = set(known)
        dets = [[pos[a][0], pos[a][1], 0.9, a, size[a], poses[a]] for a in sorted(present)]
        rng.shuffle(dets)
        frames.append(dets)
        if dets:
            for a in known:
                absent[a] = 0 if a in present else absent[a] + 1
            for a in newcomers:
                known.add(a)
                absent[a] = 0
    return {"cfg": cfg, "frames": frames, "family": "degenerate_" + {"iou": "iou", "oks": "oks"}.get(
        cfg["scoring_method"], "euclid")}


def gen_hidden(rng, cfg=None):
    """Scene family `hidden_nodes` (seeded C10-r4m1): 5-node animals ≥ 300 px apart moving ≤ ½ px per frame;
    in frames where a neighbour is absent (absence shorter than the window) a present animal has three of
    its five keypoints flagged visible=False while their *stored* coordinates lie on the absent neighbour.
    Hidden keypoints are missing for every consumer (`.numpy()` gives NaN), so identities must be kept."""
    cfg = dict(cfg or rng.choice(all_configs()))
    W = rng.choice([2, 3, 5])
    cfg["window_size"] = W
    cfg["instance_score_threshold"] = rng.choice([0.0, 0.5])
    K = rng.choice([2, 2, 3])
    F = rng.randint(4, 9)
    pos = [[300.0 * a + rng.randrange(0, 32) / 16, 100.0 * (a % 2) + rng.randrange(0, 32) / 16] for a in range(K)]
    absent = [0] * K
    frames = []
    for f in range(F):
        for a in range(K):
            pos[a][0] += rng.randrange(-8, 9) / 16
            pos[a][1] += rng.randrange(-8, 9) / 16
        present = set(range(K))
        if f > 0:
            for a in range(K):
                if absent[a] + 1 <= W - 1 and rng.random() < 0.35 and len(present) > 1:
                    present.discard(a)
        gone = [a for a in range(K) if a not in present]
        dets = []
        for a in sorted(present):
            if f > 0 and gone and rng.random() < 0.8:
                o = rng.choice(gone)
                dets.append([pos[a][0], pos[a][1], 0.9, a, 0, "five_hid", [pos[o][0], pos[o][1]]])
            elif f > 0 and rng.random() < 0.15:
                o = rng.choice([b for b in range(K) if b != a])
                dets.append([pos[a][0], pos[a][1], 0.9, a, 0, "five_hid", [pos[o][0], pos[o][1]]])
            else:
                dets.append([pos[a][0], pos[a][1], 0.9, a, 0, "five"])
        rng.shuffle(dets)
        frames.append(dets)
        for a in range(K):
            absent[a] = 0 if a in present else absent[a] + 1
    return {"cfg": cfg, "frames": frames, "family": "hidden_nodes"}


def gen_spurious(rng, cfg=None):
    """Scene family `spurious_empty` (seeded C10-r5m2): a `separated` scene plus 1–2 spurious detections
    without any visible keypoint (all-NaN points, or every keypoint flagged visible=False) inserted at
    random positions of random frames.  They carry label −1: the identity oracle applies to the real,
    well-separated animals only (the spurious ones merely must not break anything); NaN scores are
    outside the model, so these scenes are judged by the oracle only."""
    case = gen_scene(rng, cfg=cfg)
    frames = [list(dets) for dets in case["frames"]]
    hit = 0
    for f in range(1, len(frames)):
        if frames[f] and rng.random() < 0.5:
            for _ in range(rng.choice([1, 1, 2])):
                d = [500.0 + rng.randrange(0, 64) / 16, 500.0, 0.9, -1, 16, rng.choice(["allnan", "allhid"])]
                frames[f].insert(rng.randrange(len(frames[f]) + 1), d)
                hit += 1
    if not hit and len(frames) > 1 and frames[-1]:
        frames[-1].insert(0, [500.0, 500.0, 0.9, -1, 16, "allnan"])
    return {"cfg": case["cfg"], "frames": frames, "family": "spurious_empty"}


def gen_two_trackers(rng, cfg=None):
    """Scene family `two_trackers` (seeded C10-r7m2): a `separated` scene for tracker A; after k ≥ 1 frames a
    fresh tracker B (same or another configuration) is created in the same process and tracks 1–3 frames of
    its own animals, then A continues.  A's animals must keep their ids AND their `sio.Track` objects; B must
    be consistent within itself.  (On HEAD the id→Track map is one dict shared by all trackers of the process,
    so B's id 0 is A's Track object for id 0: identity is judged per tracker, which is what the property
    speaks about.)"""
    case = gen_scene(rng, cfg=cfg)
    F = len(case["frames"])
    cfg_b = dict(rng.choice(all_configs()), window_size=rng.choice([1, 3, 5]), instance_score_threshold=0.0)
    if rng.random() < 0.4:
        cfg_b = dict(case["cfg"])
    nb = rng.choice([1, 2, 3])
    # B's own scene must be in the class too (w.r.t. B's window): its animals are present in EVERY one of its
    # frames — no absence, no late arrival (an absence ≥ B's window would legitimately give a new track)
    kb = rng.choice([1, 2])
    case["second_tracker"] = {
        "after": rng.randint(1, max(1, F - 1)), "cfg": cfg_b,
        "frames": [[[700.0 + k / 2, 700.0, 0.9, 9, 16], [800.0, 700.0 + k / 2, 0.9, 8, 20]][:kb]
                   for k in range(nb)]}
    case["family"] = "two_trackers"
    return case


def gen_circle(rng, cfg=None, laps_frames=100):
    """Scene family `circle` (seeded C10-r2m3): animals at opposite ends of a circle of radius 100 px
    walk around it (4.5° ≈ 7.9 px per frame) for more than a full lap, so each one walks over ground
    another one covered ≥ 40 frames earlier — far outside every window — while all animals stay
    ≥ 170 px apart on every frame.  Detections in random order."""
    import math
    cfg = dict(cfg or rng.choice(all_configs()))
    cfg["window_size"] = rng.choice([2, 3, 5])
    cfg["instance_score_threshold"] = 0.0
    K = rng.choice([2, 2, 3])
    phase0 = rng.randrange(0, 360)
    frames = []
    for f in range(laps_frames):
        dets = []
        for a in range(K):
            ang = math.radians(phase0 + 360.0 * a / K + 4.5 * f)
            x = round((200.0 + 100.0 * math.cos(ang)) * 16) / 16
            y = round((200.0 + 100.0 * math.sin(ang)) * 16) / 16
            dets.append([x, y, 0.9, a, 24])
        rng.shuffle(dets)
        frames.append(dets)
    return {"cfg": cfg, "frames": frames, "family": "circle"}


# --------------------------------------------------------------------------- ground-truth oracle
def oracle(case, frames):
    """same animal ↔ same track on every frame; newcomer gets a track nobody held.  Applies to the REAL
    animals (label ≥ 0); spurious empty detections (label < 0) only have to be handled without an exception.
    Identity is what the public API hands back: the `sio.Track` OBJECT (Track compares by identity
    downstream, e.g. in `Labels`), so besides the ids the objects must be one per animal over the whole
    history — also across absences — and distinct animals must have distinct objects."""
    bad = []
    track_of, animal_of = {}, {}
    obj_of, animal_of_obj = {}, {}
    for f, fr in enumerate(frames):
        if fr["res"] != "ok":
            bad.append((f, fr["res"] + ":" + fr.get("msg", "")[:60]))
            break
        got = dict(fr["out"])
        gobj = dict(fr.get("out_obj", []))
        for i, det in enumerate(case["frames"][f]):
            a = det[3]
            if a < 0:
                continue
            t = got.get(i)
            if t is None:
                bad.append((f, f"animal {a} has no track"))
                continue
            if a in track_of and track_of[a] != t:
                bad.append((f, f"animal {a} switched from track {track_of[a]} to {t}"))
            if t in animal_of and animal_of[t] != a:
                bad.append((f, f"track {t} of animal {animal_of[t]} given to animal {a}"))
            track_of.setdefault(a, t)
            animal_of.setdefault(t, a)
            o = gobj.get(i)
            if o is not None:
                if obj_of.setdefault(a, o) != o:
                    bad.append((f, f"animal {a} comes back with a different sio.Track object (same id {t})"))
                if animal_of_obj.setdefault(o, a) != a:
                    bad.append((f, f"animals {animal_of_obj[o]} and {a} share one sio.Track object"))
        if bad:
            break
    if not bad and len(set(obj_of.values())) != len(track_of):
        bad.append((len(frames) - 1, f"{len(set(obj_of.values()))} distinct sio.Track objects for {len(track_of)} identities"))
    return bad


# --------------------------------------------------------------------------- hypotheses of the theorems
def check_hypotheses(chk, case, frames):
    """On the recorded data of a passing history: identity edges dominate with a margin; no stale
    track; window purity; solver contracts.  Returns (ok, min_margin)."""
    track_of = {}
    feat_animal = {}
    min_margin = float("inf")
    for f, fr in enumerate(frames):
        dets = case["frames"][f]
        for i, d in enumerate(dets):
            feat_animal[(f, i)] = d[3]
        if fr["res"] != "ok":
            return False, min_margin
        if fr["matrix"] is not None and fr["n"] > 0:
            m = fr["matrix"]
            if fr["pre_stale"]:
                chk.disagree("C10 scene has a stale track (generator left the class)", {"case": case, "frame": f},
                             fr["pre_stale"], "noStale")
                return False, min_margin
            # purity of the window + raw-score separation (Separated)
            ident = {}
            for i, d in enumerate(dets):
                if d[3] in track_of:
                    ident[i] = track_of[d[3]]
            by_pair = {}
            for a, b, v in fr["table"]:
                by_pair.setdefault(a[1], []).append((b, v))
            owner = {t: a for a, t in track_of.items()}
            # which track each stored feature was scored for: recover from the candidate order
            # (get_scores iterates tracks in id order); use ground truth purity instead:
            for i, t in ident.items():
                own = [v for b, v in by_pair.get(i, []) if feat_animal[b] == dets[i][3]]
                other = [v for b, v in by_pair.get(i, []) if feat_animal[b] != dets[i][3]]
                if not own:
                    chk.disagree("C10 hypothesis: no stored feature of the animal in the window",
                                 {"case": case, "frame": f}, i, "noStale")
                    return False, min_margin
                if other:
                    min_margin = min(min_margin, min(own) - max(other))
                for j in range(fr["n"]):
                    if j == i:
                        continue
                    theirs = [v for b, v in by_pair.get(j, []) if feat_animal[b] == dets[i][3]]
                    if theirs:
                        min_margin = min(min_margin, min(own) - max(theirs))
                # reduced matrix dominance (what reduction_preserves_dominance concludes)
                for tt in range(m.shape[1]):
                    if tt != t and not (m[i, t] > m[i, tt]):
                        chk.disagree("reduced score matrix is not row-dominant on an identity edge",
                                     {"case": case, "frame": f}, [i, t, tt, float(m[i, t]), float(m[i, tt])], "dominant")
                        return False, min_margin
                for j in range(fr["n"]):
                    if j != i and not (m[i, t] > m[j, t]):
                        chk.disagree("reduced score matrix is not column-dominant on an identity edge",
                                     {"case": case, "frame": f}, [i, t, j], "dominant")
                        return False, min_margin
            # solver contracts
            for cmc, r in fr["match"]:
                want = sorted(ident.items())
                if case["cfg"]["track_matching_method"] == "hungarian" and isinstance(r, list):
                    e = check_lsa(cmc, r)      # ExtOk + LsaOptimal: the solver contract of the theorems
                    if e:
                        chk.disagree("scipy linear_sum_assignment violates its contract (ExtOk/LsaOptimal): " + e,
                                     {"case": case, "frame": f}, {"cost": cmc.tolist(), "result": r}, "LsaOptimal")
                        return False, min_margin
                    chk.tag("lsa_optimal_validated")
                    if sorted(r) != want:
                        chk.disagree("scipy optimum differs from the identity edges under dominance "
                                     "(LsaPicksIdentity)", {"case": case, "frame": f}, sorted(r), want)
                        return False, min_margin
                    chk.tag("lsa_picks_identity_validated")
                elif isinstance(r, list):
                    if check_argsort(cmc, argsort_order(cmc)):
                        chk.disagree("argsort not ascending (ArgsortSorted)", {"case": case, "frame": f},
                                     cmc.tolist(), "ArgsortSorted")
                        return False, min_margin
                    chk.tag("argsort_sorted_validated")
        # class condition: a newcomer only appears while every known animal is detected
        here = {d[3] for d in dets}
        if any(a not in track_of for a in here) and not set(track_of) <= here:
            chk.disagree("C10 scene left the class: a newcomer appears while a known animal is absent",
                         {"case": case, "frame": f}, sorted(here), sorted(track_of))
            return False, min_margin
        # update ground truth map from what the implementation returned
        got = dict(fr["out"])
        for i, d in enumerate(dets):
            if got.get(i) is not None:
                track_of.setdefault(d[3], got[i])
    if min_margin <= MARGIN:
        return False, min_margin
    return True, min_margin


def purity_ok(case, frames):
    """every stored feature of a track belongs to one animal, read from the real queue string"""
    for f, fr in enumerate(frames):
        if fr["res"] != "ok":
            return True
        st = fr["state"]
        owner = {}
        q = st.split(" queue ", 1)[1] if " queue " in st else ""
        if case["cfg"]["candidates_method"] == "local_queues":
            for part in [p for p in q.split(" / ") if p.strip()]:
                k, feats = part.split(":", 1)
                for x in feats.split():
                    ff, jj = map(int, x.split("."))
                    a = case["frames"][ff][jj][3]
                    if owner.setdefault(int(k), a) != a:
                        return False
        else:
            for part in [p for p in q.split(" / ") if p.strip()]:
                for x in part.split():
                    feat, t = x.split(":")
                    if t == "-":
                        continue
                    ff, jj = map(int, feat.split("."))
                    a = case["frames"][ff][jj][3]
                    if owner.setdefault(int(t), a) != a:
                        return False
    return True


def zero_area(pts):
    vis = [(x, y) for x, y in pts if x == x and y == y]
    return bool(vis) and (len({x for x, _ in vis}) == 1 or len({y for _, y in vis}) == 1)


def c10_signatures(case, frames, bad):
    """Effect-based signature of F-C10c: at the failing frame a detection with a zero-area pose (visible
    keypoints share an x or a y) scores exactly 0 against every stored feature of its own animal."""
    sigs = list(c09.signatures(case, frames, c09.oracle(case, frames)))
    if not bad or case["cfg"]["scoring_method"] != "oks":
        return sigs
    f = bad[0][0]
    if f >= len(frames) or frames[f]["res"] != "ok":
        return sigs
    dets = case["frames"][f]
    for i, (pts, _) in enumerate(frames[f].get("feats", [])):
        if not zero_area(pts):
            continue
        own = [v for a, b, v in frames[f]["table"]
               if a is not None and b is not None and a[1] == i and case["frames"][b[0]][b[1]][3] == dets[i][3]]
        if own and all(v == 0.0 for v in own):
            sigs.append("oks_zero_area_pose")
            break
    return sigs


def shrink_scene(case, fail_frame, sigs):
    """Stay inside the scene class: cut the history after the failing frame, then drop whole animals
    (never a middle frame: that would lengthen a jump / an absence)."""
    def fails(c):
        fr = run_impl(c)
        return bool(oracle(c, fr)) and c10_signatures(c, fr, oracle(c, fr)) == sigs
    cur = dict(case, frames=case["frames"][:fail_frame + 1])
    if not fails(cur):
        return case
    for a in sorted({d[3] for dets in cur["frames"] for d in dets}):
        cand = dict(cur, frames=[[d for d in dets if d[3] != a] for dets in cur["frames"]])
        if any(cand["frames"]) and fails(cand):
            cur = cand
    return cur


def scene_key(case):
    return json.dumps([sorted(case["cfg"].items()), [[d[3] for d in dets] for dets in case["frames"]]],
                      sort_keys=True, default=str)


def main(chk):
    _bind()
    chk.build_and_audit()
    c09.setup()
    fixes = c09.replay_witnesses(chk, pid_map={"F-C09a": "F-C10a", "F-C09b": "F-C10b", "F-C09c": None,
                                                 "F-C09d": None, "F-C09e": None})
    for fid_, ok in zip(["F-C09a", "F-C09b", "F-C09c", "F-C09d"], fixes):
        if not ok:
            # every C10 theorem is about `Fixes.repaired`: on this tree the repaired behaviour is REQUIRED
            chk.fail(f"the tree exhibits the pinned (unrepaired) behaviour of {fid_}; the C10 theorems speak about "
                     "the repaired step functions only", c09.WITNESS[fid_][0], "witness of " + fid_ + " fails", ())
    chk.extra["fixes_detected"] = dict(zip(["anyRow", "lqList", "stale", "nanSafe"], fixes))
    ent = next((e for e in chk.known if e["id"] == "F-C10c"), None)
    if ent is not None:
        w = ent["witness"]
        fr_w = run_impl(w)
        bad_w = oracle(w, fr_w)
        chk.known_replay("F-C10c", still_fails=bool(bad_w) and "oks_zero_area_pose" in c10_signatures(w, fr_w, bad_w),
                         detail=str(bad_w[:1]))
    cases = list(c09.load_corpus("C10"))       # concrete scenes found for the seeded mutations run first
    for cfg in all_configs():
        cases.append(gen_scene(chk.rng, cfg=cfg))
    for _ in range(chk.n(400, 5000)):
        cases.append(gen_scene(chk.rng))
    # OKS near the float underflow regime (seeded C10-m1): every oks configuration once, then random
    for cfg in [c for c in all_configs() if c["scoring_method"] == "oks"]:
        cases.append(gen_fast_small(chk.rng, cfg=cfg))
    for _ in range(chk.n(100, 1200)):
        cases.append(gen_fast_small(chk.rng))
    # degenerate poses (zero-width / zero-height / single-point box): every configuration once, then
    # random.  iou: seeded C10-r2m1; oks: F-C10c (compute_oks scales by the pose's bounding-box area = 0)
    for cfg in all_configs():
        cases.append(gen_degenerate(chk.rng, cfg=cfg))
    for _ in range(chk.n(70, 900)):
        cases.append(gen_degenerate(chk.rng))
    # hidden-but-stored keypoints lying on an absent neighbour (seeded C10-r4m1)
    for cfg in all_configs():
        cases.append(gen_hidden(chk.rng, cfg=cfg))
    for _ in range(chk.n(30, 500)):
        cases.append(gen_hidden(chk.rng))
    # a second tracker started mid-video in the same process (seeded C10-r7m2)
    for cfg in all_configs():
        cases.append(gen_two_trackers(chk.rng, cfg=cfg))
    for _ in range(chk.n(20, 300)):
        cases.append(gen_two_trackers(chk.rng))
    # spurious detections without visible keypoints next to the real animals (seeded C10-r5m2); oracle only
    for cfg in all_configs():
        cases.append(gen_spurious(chk.rng, cfg=cfg))
    for _ in range(chk.n(30, 500)):
        cases.append(gen_spurious(chk.rng))
    # long revisiting trajectories (seeded C10-r2m3): local_queues + mean in every matcher / feature
    # combination, plus a few random configurations
    for cfg in [c for c in all_configs() if c["candidates_method"] == "local_queues"
                and c["scoring_reduction"] == "mean"]:
        cases.append(gen_circle(chk.rng, cfg=cfg))
    for _ in range(chk.n(2, 40)):
        cases.append(gen_circle(chk.rng))
    runs, lines, spans = [], [], []
    for case in cases:
        frames = run_impl(case)
        ls = model_lines(case, frames, fixes)
        spans.append((len(lines), len(ls)))
        lines += ls
        runs.append(frames)
    outs = run_driver("C09.lean", lines)
    # modelled feature extraction / scores (exact at Rat) vs what the implementation computed
    flines, fmeta, fspans = [], [], []
    for case, frames in zip(cases, runs):
        ls, ms = c09.feature_score_lines(case, frames, max_scores=60)
        fspans.append((len(flines), len(ls)))
        flines += ls
        fmeta += ms
    fouts = run_driver("C09.lean", flines)
    for case, (o, n) in zip(cases, fspans):
        c09.compare_features(chk, case, fmeta[o:o + n], fouts[o:o + n])
    margins = []
    for case, frames, (o, n) in zip(cases, runs, spans):
        mo = [parse_model(x) for x in outs[o + 1:o + n]]
        cfg = case["cfg"]
        nanimals = len({d[3] for dets in case["frames"] for d in dets if d[3] >= 0})
        tags = [cfg["candidates_method"], cfg["track_matching_method"], cfg["features"],
                "red_" + cfg["scoring_reduction"], f"window_{cfg['window_size']}", f"animals_{nanimals}"]
        if any(len(a) < len(b) for a, b in zip(case["frames"], case["frames"][1:])):
            tags.append("has_arrival_or_return")
        tags.append("family_" + case.get("family", "separated"))
        chk.case(scene_key(case) if nanimals else None,
                 sample={"cfg": cfg, "frames": [[d[3] for d in dets] for dets in case["frames"]],
                         "impl": [fr["out"] if fr["res"] == "ok" else fr["res"] for fr in frames]}, tags=tags)
        first = None
        nan_scene = c09.has_allnan(case)
        if nan_scene:
            chk.tag("nan_score_oracle_only")
        for f, fr in enumerate(frames):
            if nan_scene:
                break
            d = compare_frame(case, fr, mo[f] if f < len(mo) else None)
            if d:
                first = (f, d, impl_fields(case, fr), mo[f] if f < len(mo) else None)
                break
        bad = oracle(case, frames)
        for k, fr in enumerate(frames):     # the interleaved second tracker: consistent within itself
            if fr.get("second") and not bad:
                sb = {"cfg": case["second_tracker"]["cfg"], "frames": case["second_tracker"]["frames"]}
                bad = [(k, "second tracker: " + w) for _, w in oracle(sb, fr["second"])]
        if bad:
            sigs = c10_signatures(case, frames, bad)
            small = shrink_scene(case, bad[0][0], sigs) if len(chk.failing) < 4 else case
            chk.fail(f"C10 fails at frame {bad[0][0]}: {bad[0][1]}", small, bad[:3], sigs)
        elif nan_scene:
            pass        # hypotheses of the theorems (total scores) do not apply
        elif case["cfg"]["scoring_method"] == "oks" and case.get("family") == "degenerate_oks":
            # F-C10c region: zero-area poses make every OKS 0 (ties); the scene passed the oracle only because
            # the listing order happened to agree — the float scores do not satisfy the theorems' hypotheses
            chk.tag("oks_zero_area_passed_by_listing_order")
        else:
            ok, mg = check_hypotheses(chk, case, frames)
            if ok:
                margins.append(mg)
                chk.tag("hypotheses_validated")
            elif mg <= MARGIN:
                # still compared and judged by the oracle; only the hypothesis validation is skipped
                # (fast_small scenes: same-animal OKS is positive but far below the tolerance)
                chk.tag("hypotheses_margin_below_tolerance")
            if not purity_ok(case, frames):
                chk.disagree("window purity (a track's stored features belong to one animal) broken",
                             case, "impure", "pure")
        if first is not None:
            chk.disagree("tracker step (ids, output, queue state, score matrix) differs in " + ",".join(first[1]),
                         {"case": case, "frame": first[0]}, first[2], first[3])
    finite = [x for x in margins if x != float("inf")]
    chk.extra["min_separation_margin"] = min(finite) if finite else None
    chk.extra["separation_margin_tolerance"] = MARGIN


if __name__ == "__main__":
    chk = Check(
        "C10", module="SleapVerif.Props.C10", theorems=THEOREMS,
        build_targets=["SleapVerif.Model.Tracker", "SleapVerif.Lemmas.Tracker", "SleapVerif.Lemmas.TrackerInv",
                       "SleapVerif.Lemmas.TrackerIdentity", "SleapVerif.Lemmas.TrackerOwner",
                       "SleapVerif.Lemmas.TrackerHistory", "SleapVerif.Model.TrackFeatures",
                       "SleapVerif.Lemmas.TrackFeatures", "SleapVerif.Lemmas.TrackerHungarian"],
        trusted=[
            "Lean 4.33 kernel + Mathlib (ordered fields, WithTop); axioms ⊆ {propext, Classical.choice, Quot.sound}",
            "model SleapVerif.Tracker tied to /repo by the same per-frame correspondence as C09; the model takes its "
            "decisions on the recorded reduced score matrix (its own exact reduction is compared alongside)",
            "ArgsortSorted is validated on the harness's own np.argsort of the recorded matcher input",
            "numpy argsort ascending (ArgsortSorted; validated per recorded call)",
            "scipy linear_sum_assignment contract: one-to-one, in bounds, full size, minimum total cost (ExtOk + "
            "LsaOptimal; validated by brute force on every recorded call ≤ 6×6); optimum = identity edges under "
            "dominance is now a theorem (hungarian_picks_identity) and additionally checked per call",
            "the scene-class hypotheses (FW.InClass / LQ.InClass: separation, no stale track, purity-derived "
            "dominance) are measured per frame on the recorded scores and the real queue",
            "get_bbox / get_centroid / compute_iou / compute_euclidean_distance are modelled (Model/TrackFeatures.lean, "
            "iou = C15's definition) and compared per call with the implementation (features exactly, scores to 1e-9); "
            "compute_oks is recorded only (oks_dominance is stated, not proved)",
            "float evaluation of oks / iou / distance keeps the separation margin positive (measured: min margin in evidence)",
        ],
        rule="scene = configuration × per-frame ordered presence pattern of ≤ 4 separated animals; distinct = "
             "different configuration or pattern; trivial = no detection",
        assumptions=["animals ≥ 60 px apart, body size 16–24 px, motion ≤ 1/2 px/frame/axis, all instance scores above the threshold",
                     "absences shorter than the window; newcomers only while all known animals are visible"])
    run_check(chk, main)
