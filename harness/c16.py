"""C16 — evaluation metrics are perfect for perfect predictions, bounded and monotone.

Correspondence (every run): the real `sleap_nn.evaluation.Evaluator` on in-memory, video-backed
`sio.Labels` pairs (video object taken from tests/assets/minimal_instance.pkg.slp) against the Lean
model `SleapVerif.Eval` (+ `SleapVerif.Oks.matchInstances`) run through `drivers/C16.lean`.

* frame pairing, matching, positive pairs / false negatives, VOC metrics, mOKS, visibility counts run
  at `Rat`, on the OKS matrices that the real `compute_oks` returns for each frame (floats are dyadic
  rationals ⇒ every comparison of the model is bit-faithful); values compared with 1e-9 tolerance,
  indices / orders / counts exactly;
* `np.searchsorted(rc, np.linspace(0,1,101))` is a float knife-edge (`tp/npig` vs `k·0.01`): the model
  reports the smallest non-zero |rc_i − r| per match threshold; rows with margin < 1e-9 are not compared
  (counted in `knife_edges_skipped`);
* distances / PCK run at `Float` (`Float.sqrt`), tolerance 1e-9, PCK bits exact unless |d − thr| < 1e-9.
"""
from __future__ import annotations

import os
import warnings
from fractions import Fraction

from common import Check, run_check, import_repo, run_driver, rat, unrat, lst, call, REPO

THEOREMS = [
    "SleapVerif.C16.ratios_in_unit",
    "SleapVerif.C16.moks_in_unit",
    "SleapVerif.C16.pck_in_unit",
    "SleapVerif.C16.vis_ratio_in_unit",
    "SleapVerif.C16.envelope_antitone",
    "SleapVerif.C16.recall_eq_recallAt",
    "SleapVerif.C16.AR_antitone_in_threshold",
    "SleapVerif.C16.AP_antitone_in_threshold",
    "SleapVerif.C16.pck_monotone_in_pixels",
    "SleapVerif.C16.recall_monotone_under_truncation_partial",
    "SleapVerif.C16.recall_deletion_counterexample",
    "SleapVerif.C16.recall_frame_removal_counterexample",
    "SleapVerif.C16.pairs_sound",
    "SleapVerif.C16.pairing_injective",
    "SleapVerif.C16.perfect_pairs",
    "SleapVerif.C16.perfect_evaluation",
    "SleapVerif.C16.pairs_beforeFix_partial",
    "SleapVerif.C16.pairs_beforeFix_counterexample",
    "SleapVerif.C16.evaluator_pairs_sound",
    "SleapVerif.C16.npig_eq_enumerated",
    "SleapVerif.C16.perfect_matching",
    "SleapVerif.C16.perfect_matching_with_empty",
    "SleapVerif.C16.perfect_scores",
    "SleapVerif.C16.perfect_AP",
    "SleapVerif.C16.pck_pointwise_in_threshold",
    "SleapVerif.C16.mPCK_in_unit",
    "SleapVerif.C16.no_positive_pairs_nan_counterexample",
    "SleapVerif.C16.perfect_needs_distinguishable_counterexample",
    "SleapVerif.C16.mixed_prediction_frame_counterexample",
    "SleapVerif.C16.percentile_monotone",
]

EPS = Fraction(2) ** -52
TOL = 1e-9
SIG_OUTSCORED = "deleted_prediction_outscored_a_better_match"
SIG_FRAME = "prediction_frame_removed_drops_gt_from_count"
SIG_NONHDF5 = "non_hdf5_video_backend"
SIG_NOPAIRS = "no_positive_pairs"
SIG_NESTED = "gt_equals_another_gt_on_all_of_its_visible_nodes"
SIG_MIXED = "user_instance_in_prediction_frame"


def q16(rng, lo, hi):
    return rng.randrange(int(lo * 16), int(hi * 16) + 1) / 16.0


def fpt(p):
    return f"{rat(p[0])} {rat(p[1])}"


def fpts(a):
    return lst([tuple(r) for r in a], fpt)


def close(a, b, tol=TOL):
    if a is None or b is None:
        return a is None and b is None
    return abs(a - b) <= tol * max(1.0, abs(a), abs(b))


def nn(x):
    x = float(x)
    return None if x != x else x


REPLAY: dict = {}


def replay(chk: Check, payload):
    """`bin/check C16 --replay <file>`: the recorded label pair only, through the same pipeline"""
    case = payload.get("case") or (payload.get("disagreements") or [{}])[0].get("case") or {}
    case = case.get("case", case)   # deletion failures record {"case": …, "deleted": …}
    if "frames" not in case:
        print("NOTE: no label pair recorded in this replay file")
        return
    REPLAY["case"] = case
    main(chk, build=False)


def main(chk: Check, build=True):
    if build:
        chk.build_and_audit()
    import_repo()
    import numpy as np
    import sleap_io as sio
    from sleap_nn import evaluation as ev

    warnings.simplefilter("ignore")
    np.seterr(all="ignore")
    try:
        from loguru import logger
        logger.remove()
    except Exception:
        pass
    rng = chk.rng
    video = sio.load_slp(str(REPO / "tests/assets/minimal_instance.pkg.slp")).videos[0]
    MT = np.linspace(0.5, 0.95, 10)
    RT = np.linspace(0, 1, 101)
    PT = np.linspace(1, 10, 10)

    def compute_oks_any(G, Pm, **kw):
        """compute_oks for any n_pr (one real call per prediction while F-C15b is unfixed)"""
        try:
            return ev.compute_oks(G, Pm, **kw)
        except IndexError:
            cols = [ev.compute_oks(G, Pm[j:j + 1], **kw) for j in range(Pm.shape[0])]
            return np.concatenate(cols, axis=1) if cols else np.zeros((G.shape[0], 0))

    # ------------------------------------------------------------------ videos
    # A video key is (kind, file, dataset): kind 0 = HDF5-backed (`dataset` is the HDF5 dataset inside
    # `file`; several videos embedded in one .pkg.slp share the filename and differ by dataset only),
    # kind 1 = a Video whose backend is not opened (None), kind 2 = MediaVideo (neither has `dataset`).
    # ("asset",) is the video object of tests/assets/minimal_instance.pkg.slp = key (0, 9, 0).
    import atexit, shutil, tempfile
    import h5py
    from sleap_io.io.video_reading import HDF5Video, MediaVideo
    tmpdir = tempfile.mkdtemp(prefix="verif_c16_")
    atexit.register(lambda: shutil.rmtree(tmpdir, ignore_errors=True))
    # file index -> path.  Files 0, 1, 2 share their BASENAME and differ by directory only (recordings of
    # several days: data/2024-05-01/cam0…, data/2024-05-02/cam0…); file 3 has a name of its own.  The key
    # `find_frame_pairs` compares is the full filename (+ backend class + dataset), as the model's VideoKey.
    def file_path(fi, ext):
        return (f"{tmpdir}/data/2024-05-0{fi + 1}/cam0{ext}" if fi < 3 else f"{tmpdir}/data/other/arena_b{ext}")

    pkg_files = []
    for k in range(4):
        fn = file_path(k, ".pkg.slp")
        os.makedirs(os.path.dirname(fn), exist_ok=True)
        with h5py.File(fn, "w") as fh:
            for d in range(3):
                fh.create_dataset(f"video{d}/video", data=np.zeros((2, 8, 8, 1), dtype="uint8"))
        pkg_files.append(fn)

    def make_video(key):
        key = tuple(key)
        if key == ("asset",):
            return video
        kind, fi, ds = key
        if kind == 0:
            be = HDF5Video(filename=pkg_files[fi], dataset=f"video{ds}/video", keep_open=False,
                           source_filename=f"session{fi}_{ds}.mp4")
            return sio.Video(filename=pkg_files[fi], backend=be)
        if kind == 1:
            return sio.Video(filename=file_path(fi, ".mp4"), open_backend=False)
        return sio.Video(filename=file_path(fi, ".avi"), backend=MediaVideo(filename=file_path(fi, ".avi"), keep_open=False))

    def key_tokens(key):
        key = tuple(key)
        if key == ("asset",):
            return "0 9 0"
        return f"{key[0]} {key[1]} " + ("nan" if key[2] is None else str(key[2]))

    def norm(case):
        """fill the defaults of the single-video case format (known-finding witnesses)"""
        c = dict(case)
        c.setdefault("videos", [("asset",)])
        c.setdefault("pr_videos", list(c["videos"]))
        c.setdefault("share_videos", True)
        c.setdefault("user_labels_only", True)
        c.setdefault("invisible_style", 0)
        fr = []
        for i, f in enumerate(c["frames"]):
            f = dict(f, video=f.get("video", 0), frame_idx=f.get("frame_idx", i))
            if "gt_pred" not in f:   # legacy flag: one predicted instance appended to the gt frame
                f["gt_pred"] = ([(len(f["gt"]), [[x + 1.0, y + 1.0] for x, y in f["gt"][0]])]
                                if f.get("extra_pred_in_gt") and f["gt"] else [])
            fr.append(f)
        c["frames"] = fr
        return c

    def all_gt(f):
        """all instances of a gt frame in frame order: [(is_user, pts)]; `gt_pred` = predicted instances stored in
        the reference labels, inserted at the recorded positions"""
        out = [(True, g) for g in f["gt"]]
        for pos, pts in f.get("gt_pred", []):
            out.insert(min(pos, len(out)), (False, pts))
        return out

    def enum_points(case, f):
        """the gt instances the Evaluator enumerates: user instances (default) or all (user_labels_only=False)"""
        f = norm({**case, "frames": [f]})["frames"][0]
        return [p_ for u, p_ in all_gt(f) if u or not case.get("user_labels_only", True)]

    def mk_instance(pts, style, side, sk, n_nodes, score=None):
        """build through the sleap-io API; a missing node (NaN, NaN) is stored either as NaN or - `style` 1: every
        one, 2: the even-numbered ones - as FINITE coordinates with `visible=False` (what an .slp holds for a
        node the annotator placed and then hid).  The model works on the `Instance.numpy()` abstraction (both
        representations are (NaN, NaN) there); code that reads `points["xy"]` sees the finite garbage."""
        arr = np.array(pts, dtype=float).reshape(n_nodes, 2)
        hidden = [k for k in range(n_nodes) if np.isnan(arr[k]).all() and (style == 1 or (style == 2 and k % 2 == 0))]
        raw = arr.copy()
        for k in hidden:
            raw[k] = [40.0 + 7 * k, 55.0 + 3 * k] if side == "gt" else [300.0 - 5 * k, 20.0 + 9 * k]
        inst = (sio.Instance.from_numpy(raw, sk) if score is None else
                sio.PredictedInstance.from_numpy(raw, sk, point_scores=np.ones(n_nodes), score=float(score)))
        for k in hidden:
            inst.points["visible"][k] = False
        if not np.array_equal(inst.numpy(), arr, equal_nan=True) and not np.isnan(arr[:, 0]).any():
            raise RuntimeError("sleap_io numpy() abstraction differs from the case points")
        return inst

    # ------------------------------------------------------------------ building Labels
    def build(case):
        """case = {n_nodes, videos:[key], pr_videos:[key], share_videos, frames:[{video, frame_idx, gt:[pts],
        pr: None | [(score, pts)], extra_pred_in_gt}]}.  A prediction frame lives on the prediction
        video with the same key as the gt frame's video (it cannot exist when pr_videos lacks that key)."""
        case = norm(case)
        sk = sio.Skeleton(nodes=[f"n{i}" for i in range(case["n_nodes"])])
        gvid = [make_video(k) for k in case["videos"]]
        gkeys = [tuple(k) for k in case["videos"]]
        pkeys = [tuple(k) for k in case["pr_videos"]]
        pvid = [gvid[gkeys.index(k)] if (case["share_videos"] and k in gkeys and k not in pkeys[:i]) else make_video(k)
                for i, k in enumerate(pkeys)]   # a repeated key is a second Video object with the same key
        glf, plf, gi_all, pi_all, pr_pos = [], [], [], [], []
        for f in case["frames"]:
            st, nn_ = case["invisible_style"], case["n_nodes"]
            insts = [mk_instance(p_, st, "gt", sk, nn_, score=None if u else 0.5) for u, p_ in all_gt(f)]
            glf.append(sio.LabeledFrame(video=gvid[f["video"]], frame_idx=f["frame_idx"], instances=insts))
            gi_all.append(insts)   # ALL instances of the frame, in order (user and predicted)
            key = gkeys[f["video"]]
            if f["pr"] is not None and key in pkeys:
                pi = [mk_instance(p, st, "pr", sk, nn_, score=s) for s, p in f["pr"]]
                pr_pos.append((len(plf), pkeys.index(key)))
                pinsts = list(pi)
                if f.get("user_in_pr") is not None:   # a user `Instance` inside the prediction frame (F-C16d)
                    pos, pts_u = f["user_in_pr"]
                    pinsts.insert(min(pos, len(pinsts)), mk_instance(pts_u, st, "pr", sk, nn_))
                plf.append(sio.LabeledFrame(video=pvid[pkeys.index(key)], frame_idx=f["frame_idx"], instances=pinsts))
                pi_all.append(pi)
            else:
                pr_pos.append(None)
                pi_all.append(None)
        gl = sio.Labels(videos=gvid, skeletons=[sk], labeled_frames=glf)
        pl = sio.Labels(videos=pvid, skeletons=[sk], labeled_frames=plf)
        return gl, pl, gi_all, pi_all, dict(glf=glf, plf=plf, pr_pos=pr_pos, case=case, gi_all=gi_all)

    def pairs_line(case, gi_all, info):
        c = info["case"]
        gf = [(f["video"], f["frame_idx"], [u for u, _ in all_gt(f)]) for f in c["frames"]]
        pf = [(pp[1], f["frame_idx"]) for f, pp in zip(c["frames"], info["pr_pos"]) if pp is not None]
        return ("pairs " + ("1 " if c["user_labels_only"] else "0 ") + lst(c["videos"], key_tokens) + " "
                + lst(c["pr_videos"], key_tokens) + " "
                + lst(gf, lambda x: f"{x[0]} {x[1]} " + lst(x[2], lambda b: "1" if b else "0")) + " "
                + lst(pf, lambda x: f"{x[0]} {x[1]}"))

    def parse_pairs(out, info):
        """model pairs as (gt frame position, case-frame position of the prediction frame, positions of the
        enumerated gt instances inside the frame's instance list)"""
        t = out.split()
        ppos2case = {pp[0]: q for q, pp in enumerate(info["pr_pos"]) if pp is not None}
        k, i, res_ = int(t[1]), 2, []
        for _ in range(k):
            g, pp, n = int(t[i]), int(t[i + 1]), int(t[i + 2])
            res_.append((g, ppos2case[pp], tuple(int(x) for x in t[i + 3:i + 3 + n])))
            i += 3 + n
        return t[0], res_

    def impl_pairs(e, info):
        out = []
        for a, b in e.frame_pairs:
            g = next((i for i, x in enumerate(info["glf"]) if x is a), -1)
            pp = next((i for i, x in enumerate(info["plf"]) if x is b), -1)
            q = next((q for q, v in enumerate(info["pr_pos"]) if v is not None and v[0] == pp), -1)
            allg = info["gi_all"][g] if g >= 0 else []
            out.append((g, q, tuple(next((i_ for i_, x in enumerate(allg) if x is inst), -1) for inst in a.instances)))
        return out

    last = {}

    def run_impl(case):
        gl, pl, gi_all, pi_all, info = build(case)
        last["info"] = info
        kw = dict(oks_stddev=case["stddev"], oks_scale=case["scale"], match_threshold=case["thr"],
                  user_labels_only=case.get("user_labels_only", True))
        r = call(lambda: ev.Evaluator(gl, pl, **kw))
        if r[0] != "ok":
            return r, gi_all, pi_all
        e = r[1]
        m = call(e.evaluate)
        if m[0] != "ok":
            return m, gi_all, pi_all
        return ("ok", e, m[1]), gi_all, pi_all

    def locate(all_lists, inst):
        for f, l in enumerate(all_lists):
            if l is None:
                continue
            for i, x in enumerate(l):
                if x is inst:
                    return f, i
        return (-1, -1)  # an object that is neither a user gt instance nor a prediction of this case

    def canon_impl(res, gi_all, pi_all):
        _, e, m = res
        pairs = []
        for a, b, v in e.positive_pairs:
            f, g = locate(gi_all, a.instance)
            f2, p = locate(pi_all, b.instance)
            pairs.append((f if f == f2 else -1, g, p, float(v)))
        fns = [locate(gi_all, a.instance) for a in e.false_negatives]
        return pairs, fns, m

    def driver_line(case, gi_all, pi_all, pairs):
        """`eval` line: one frame per frame pair `(gt frame position, case position of the prediction frame)`"""
        fr = []
        for gpos, q, enum in pairs:
            gi, pi = [gi_all[gpos][e_] for e_ in enum], pi_all[q]
            gts = [g.numpy() for g in gi]  # what the code sees (sleap_io: NaN x ⇒ whole point NaN)
            prs = [p.numpy() for p in pi]
            scores = [float(p.score) for p in pi]
            if gts and prs:
                M = compute_oks_any(np.stack(gts), np.stack(prs), stddev=case["stddev"], scale=case["scale"])
            else:
                M = np.zeros((len(gts), len(prs)))
            fr.append("1 " + lst(gts, fpts) + " "
                      + lst(list(zip(scores, prs)), lambda sp: rat(sp[0]) + " " + fpts(sp[1])) + " "
                      + " ".join(rat(nn(v)) for v in M.reshape(-1)))
        return (f"eval {rat(case['thr'])} {rat(EPS)} {lst(MT, rat)} {lst(RT, rat)} {lst(PT, rat)} "
                f"{case['n_nodes']} " + lst(fr, str))

    def parse_model(out):
        secs = [s.strip() for s in out.split(" | ")]
        d = {}
        t = secs[0].split()
        k = int(t[1])
        d["pairs"] = [(int(t[2 + 4 * i]), int(t[3 + 4 * i]), int(t[4 + 4 * i]), float(unrat(t[5 + 4 * i]))) for i in range(k)]
        t = secs[1].split()
        d["fns"] = [(int(t[2 + 2 * i]), int(t[3 + 2 * i])) for i in range(int(t[1]))]
        v = secs[2][2:].strip()
        if v == "none":
            d["voc"] = None
        else:
            parts = [[unrat(x) for x in p.split()] for p in v.split(";")]
            d["voc"] = dict(ms=parts[0], recalls=parts[1], AP=parts[2], mAP=parts[3][0], mAR=parts[4][0],
                            precisions=parts[5], margins=parts[6])
        d["mOKS"] = unrat(secs[3].split()[1])
        t = secs[4].split()
        d["vis"] = ([int(x) for x in t[1:5]], unrat(t[5]), unrat(t[6]))
        parts = [p.split() for p in secs[5][2:].split(";")]
        d["dists"] = [unrat(x) for x in parts[0]]
        d["avg"] = unrat(parts[1][0])
        d["parts"] = [unrat(x) for x in parts[2]]
        d["mPCK"] = unrat(parts[3][0])
        d["bits"] = parts[4][0] if parts[4] else ""
        d["pck_margin"] = unrat(parts[5][0])
        d["pct"] = [unrat(x) for x in parts[6]]
        d["pck_at"] = [unrat(x) for x in parts[7]] if len(parts) > 7 else []
        return d

    # ------------------------------------------------------------------ comparison
    def allclose_len(a, b):
        a = [float(x) for x in np.asarray(a, dtype=float).reshape(-1)]
        b = [float(x) for x in b]
        return len(a) == len(b) and all(close(x, y) for x, y in zip(a, b))

    def compare(case, res, gi_all, pi_all, out, fpairs):
        """returns list of (what, impl, model) disagreements; `fpairs` = the (agreed) frame pairs"""
        model = parse_model(out)
        model["pairs"] = [(fpairs[f][0], fpairs[f][2][g], p_, v) for f, g, p_, v in model["pairs"]]
        model["fns"] = [(fpairs[f][0], fpairs[f][2][g]) for f, g in model["fns"]]
        any_pair = len(fpairs) > 0
        if res[0] != "ok":
            if not any_pair and res[0] == "raise" and "Empty Frame Pairs" in res[2]:
                return []
            return [("Evaluator raised", res, "ok")]
        if not any_pair:
            return [("Evaluator did not raise on empty frame pairs", "ok", "raise")]
        pairs, fns, m = canon_impl(res, gi_all, pi_all)
        dis = []
        if pairs != model["pairs"]:
            dis.append(("positive_pairs", pairs, model["pairs"]))
        if fns != model["fns"]:
            dis.append(("false_negatives", fns, model["fns"]))
        if dis:
            return dis
        voc = m["voc_metrics"]
        if model["voc"] is None:
            if not (len(pairs) == 0 and all(np.all(np.asarray(v) == 0) for v in voc.values())):
                dis.append(("voc zero-dict", str(voc)[:200], "none"))
            if nn(m["mOKS"]["mOKS"]) is not None:
                dis.append(("mOKS", m["mOKS"]["mOKS"], None))
            # the model's `none` = NaN for mPCK / avg / visibility ratios without any positive pair
            for name, iv, mv_ in (("mPCK", m["pck_metrics"]["mPCK"], model["mPCK"]),
                                  ("avg dist", m["distance_metrics"]["avg"], model["avg"]),
                                  ("visibility precision", m["visibility_metrics"]["precision"], model["vis"][1]),
                                  ("visibility recall", m["visibility_metrics"]["recall"], model["vis"][2])):
                if not close(nn(iv), None if mv_ is None else float(mv_)):
                    dis.append((name + " (no positive pair)", iv, mv_))
            if len(np.asarray(m["pck_metrics"]["mPCK_parts"]).reshape(-1)) != len(model["parts"]):
                dis.append(("mPCK_parts length (no positive pair)", np.asarray(m["pck_metrics"]["mPCK_parts"]).shape, len(model["parts"])))
            return dis
        mv = model["voc"]
        if [float(x) for x in voc["oks_voc.match_scores"]] != [float(x) for x in mv["ms"]]:
            dis.append(("match_scores order", list(voc["oks_voc.match_scores"]), [float(x) for x in mv["ms"]]))
        if not allclose_len(voc["oks_voc.recalls"], mv["recalls"]):
            dis.append(("recalls", list(voc["oks_voc.recalls"]), [float(x) for x in mv["recalls"]]))
        if not close(float(voc["oks_voc.mAR"]), float(mv["mAR"])):
            dis.append(("mAR", float(voc["oks_voc.mAR"]), float(mv["mAR"])))
        knife = False
        P = voc["oks_voc.precisions"]
        for i in range(len(MT)):
            mg = mv["margins"][i]
            if 0 <= mg < Fraction(1, 10**9):
                knife = True
                continue
            row = [float(x) for x in mv["precisions"][i * len(RT):(i + 1) * len(RT)]]
            if np.asarray(P).shape != (len(MT), len(RT)) or not allclose_len(P[i], row):
                dis.append((f"precisions[{i}]", [float(x) for x in P[i]][:12], row[:12]))
            if not close(float(voc["oks_voc.AP"][i]), float(mv["AP"][i])):
                dis.append((f"AP[{i}]", float(voc["oks_voc.AP"][i]), float(mv["AP"][i])))
        if knife:
            chk.knife_edges += 1
        elif not close(float(voc["oks_voc.mAP"]), float(mv["mAP"])):
            dis.append(("mAP", float(voc["oks_voc.mAP"]), float(mv["mAP"])))
        if not close(nn(m["mOKS"]["mOKS"]), None if model["mOKS"] is None else float(model["mOKS"])):
            dis.append(("mOKS", m["mOKS"]["mOKS"], model["mOKS"]))
        vm = m["visibility_metrics"]
        ivis = [int(vm["tp"]), int(vm["fp"]), int(vm["tn"]), int(vm["fn"])]
        if ivis != model["vis"][0]:
            dis.append(("visibility counts", ivis, model["vis"][0]))
        for key, mvv in (("precision", model["vis"][1]), ("recall", model["vis"][2])):
            if not close(nn(vm[key]), None if mvv is None else float(mvv)):
                dis.append(("visibility " + key, vm[key], mvv))
        dm = m["distance_metrics"]
        idists = [nn(x) for x in np.asarray(dm["dists"]).reshape(-1)]
        if len(idists) != len(model["dists"]) or not all(close(a, b) for a, b in zip(idists, model["dists"])):
            dis.append(("dists", idists[:10], model["dists"][:10]))
        if not close(nn(dm["avg"]), model["avg"]):
            dis.append(("avg dist", dm["avg"], model["avg"]))
        ipct = [nn(dm[f"p{q}"]) for q in (50, 75, 90, 95, 99)]
        if len(ipct) != len(model["pct"]) or not all(close(a, b) for a, b in zip(ipct, model["pct"])):
            dis.append(("distance percentiles", ipct, model["pct"]))
        pm = m["pck_metrics"]
        if model["pck_margin"] is not None and model["pck_margin"] < 1e-9 and model["pck_margin"] != 0.0:
            chk.knife_edges += 1
        else:
            ibits = "".join("1" if b else "0" for b in np.asarray(pm["pcks"]).reshape(-1))
            if ibits != model["bits"]:
                dis.append(("pcks", ibits[:60], model["bits"][:60]))
            if not allclose_len(pm["mPCK_parts"], model["parts"]):
                dis.append(("mPCK_parts", list(pm["mPCK_parts"]), model["parts"]))
            if not close(nn(pm["mPCK"]), model["mPCK"]):
                dis.append(("mPCK", float(pm["mPCK"]), model["mPCK"]))
            # PCK per pixel threshold (`pckAt`, the object of `pck_monotone_in_pixels` / `pck_in_unit`)
            if not allclose_len(np.asarray(pm["pcks"], float).mean(axis=(0, 1)), model["pck_at"]):
                dis.append(("PCK per pixel threshold", np.asarray(pm["pcks"], float).mean(axis=(0, 1)).tolist(), model["pck_at"]))
        return dis

    # ------------------------------------------------------------------ property oracle (independent)
    def recalls_of(case):
        res, _, _ = run_impl(case)
        if res[0] != "ok":
            return None, res
        v = res[2]["voc_metrics"]
        r = v["oks_voc.recalls"]
        return (np.zeros(len(MT)) if np.isscalar(r) else np.asarray(r, float)), res

    def oracle_bounds(case, res):
        bad = []
        _, e, m = res
        v = m["voc_metrics"]
        for k in ("precisions", "recalls", "AP", "AR", "mAP", "mAR"):
            a = np.asarray(v["oks_voc." + k], float)
            if not (np.all(a >= 0) and np.all(a <= 1 + 1e-12)):
                bad.append(("ratio out of [0,1]: " + k, a.reshape(-1)[:5].tolist()))
        nanbad = []
        for name, a in (("mOKS", m["mOKS"]["mOKS"]), ("mPCK", m["pck_metrics"]["mPCK"]),
                        ("mPCK_parts", m["pck_metrics"]["mPCK_parts"]),
                        ("visibility precision", m["visibility_metrics"]["precision"]),
                        ("visibility recall", m["visibility_metrics"]["recall"])):
            a = np.asarray(a, float)
            if np.isnan(a).any():
                nanbad.append(name)
            elif not (np.all(a >= 0) and np.all(a <= 1 + 1e-12)):
                bad.append(("ratio out of [0,1]: " + name, a.reshape(-1)[:5].tolist()))
        if nanbad:
            # "every reported ratio always lies in [0,1]": NaN is reported when there is a frame pair but no
            # positive pair (F-C16e); a NaN with positive pairs present is a plain violation
            chk.fail("reported ratio is NaN: " + ", ".join(nanbad), case,
                     observed={"positive_pairs": len(e.positive_pairs), "false_negatives": len(e.false_negatives)},
                     signatures=[SIG_NOPAIRS] if len(e.positive_pairs) == 0 else [])
        if len(e.positive_pairs):
            AR = np.asarray(v["oks_voc.AR"], float); AP = np.asarray(v["oks_voc.AP"], float)
            if np.any(np.diff(AR) > 1e-12):
                bad.append(("AR increases with the match threshold", AR.tolist()))
            if np.any(np.diff(AP) > 1e-12):
                bad.append(("AP increases with the match threshold", AP.tolist()))
            pc = np.asarray(m["pck_metrics"]["pcks"], float).mean(axis=(0, 1))
            if np.any(np.diff(pc) < -1e-12):
                bad.append(("PCK decreases with the pixel threshold", pc.tolist()))
        pcts = [nn(m["distance_metrics"][f"p{q}"]) for q in (50, 75, 90, 95, 99)]
        if all(x is not None for x in pcts) and any(b < a - 1e-12 for a, b in zip(pcts, pcts[1:])):
            bad.append(("distance percentiles not monotone", pcts))
        for b in bad:
            chk.fail("metric contract violated: " + b[0], case, observed=b[1])
        return not bad

    def oracle_thresholds(case, res):
        """caller-supplied threshold lists that are NOT ascending (descending, shuffled, with duplicates): every
        entry of the result must belong to its own threshold - `pcks[..., k]` = the PCK obtained by calling with the
        single threshold `thresholds[k]`, the returned `thresholds` are the caller's, and PCK is non-decreasing in
        the threshold VALUE; likewise the VOC rows for a shuffled list of match thresholds / recall thresholds."""
        _, e, _ = res
        if not len(e.positive_pairs):
            return
        kind = rng.choice(["descending", "shuffled", "duplicates"])
        base = [rng.choice([0.5, 1, 2, 3, 4, 5, 7.5, 10, 16]) for _ in range(rng.randrange(2, 7))]
        if kind == "descending":
            thr = sorted(set(base), reverse=True)
        elif kind == "duplicates":
            thr = base + [base[0]]
        else:
            thr = list(dict.fromkeys(base)); rng.shuffle(thr)
        if thr == sorted(thr) and len(thr) > 1:
            thr = thr[::-1]
        chk.tag("pck_thresholds:" + kind)
        ctx = {"case": case, "thresholds": thr}
        r = call(e.pck_metrics, thresholds=np.array(thr, dtype=float))
        if r[0] != "ok":
            chk.fail("pck_metrics raised for a caller-supplied threshold list", ctx, observed=r); return
        pm = r[1]
        if [float(x) for x in np.asarray(pm["thresholds"]).reshape(-1)] != [float(x) for x in thr]:
            chk.fail("pck_metrics does not return the caller's thresholds", ctx, observed=np.asarray(pm["thresholds"]).tolist())
        P = np.asarray(pm["pcks"])
        for k, t in enumerate(thr):
            single = np.asarray(e.pck_metrics(thresholds=np.array([t], dtype=float))["pcks"])[..., 0]
            if P.shape[-1] != len(thr) or not np.array_equal(P[..., k], single):
                chk.fail("pcks[..., k] is not the PCK of thresholds[k] (evaluated alone)", ctx,
                         observed={"k": k, "threshold": t, "pck_in_list": float(P[..., k].mean()) if P.shape[-1] == len(thr) else None,
                                   "pck_alone": float(single.mean())})
                break
        byval = sorted(zip(thr, P.reshape(-1, P.shape[-1]).mean(axis=0).tolist()))
        if any(b[1] < a[1] - 1e-12 for a, b in zip(byval, byval[1:])):
            chk.fail("PCK decreases as the pixel threshold grows", ctx, observed=byval)
        # VOC: shuffled match thresholds and recall thresholds
        mt = [0.95, 0.5, 0.75, 0.6, 0.5]; rt = [1.0, 0.0, 0.5, 0.25]
        v = call(e.voc_metrics, match_score_thresholds=np.array(mt), recall_thresholds=np.array(rt))
        if v[0] != "ok":
            chk.fail("voc_metrics raised for caller-supplied threshold lists", {"case": case, "match": mt, "recall": rt}, observed=v)
            return
        for k, t in enumerate(mt):
            one = e.voc_metrics(match_score_thresholds=np.array([t]), recall_thresholds=np.array(rt))
            if not (np.allclose(v[1]["oks_voc.recalls"][k], one["oks_voc.recalls"][0], atol=1e-12)
                    and np.allclose(v[1]["oks_voc.precisions"][k], one["oks_voc.precisions"][0], atol=1e-12)):
                chk.fail("VOC row k does not belong to match_score_thresholds[k]", {"case": case, "match": mt, "recall": rt},
                         observed={"k": k, "in_list": float(v[1]["oks_voc.recalls"][k]), "alone": float(one["oks_voc.recalls"][0])})
                break
        for j, r_ in enumerate(rt):
            one = e.voc_metrics(match_score_thresholds=np.array(mt), recall_thresholds=np.array([r_]))
            if not np.allclose(np.asarray(v[1]["oks_voc.precisions"])[:, j], np.asarray(one["oks_voc.precisions"])[:, 0], atol=1e-12):
                chk.fail("VOC precision column j does not belong to recall_thresholds[j]", {"case": case, "match": mt, "recall": rt},
                         observed={"j": j})
                break

    def match_map(res, gi_all, pi_all):
        pairs, fns, _ = canon_impl(res, gi_all, pi_all)
        return {(f, p): (g, v) for f, g, p, v in pairs}

    def oracle_deletion(case, res, gi_all, pi_all, n_try):
        """sample deletions; recall must not increase.  top-k truncation = the region the proved
        `_partial` theorem covers (any failure there is a plain violation); arbitrary deletions and
        removal of whole prediction frames are the excluded region (F-C16 / F-C16b)."""
        base = np.asarray(res[2]["voc_metrics"]["oks_voc.recalls"], float)
        if base.ndim == 0:
            base = np.zeros(len(MT))
        orig = match_map(res, gi_all, pi_all)
        for t in range(n_try):
            mode = rng.choice(["topk", "arbitrary", "arbitrary", "frame"])
            new = {**case, "frames": []}
            deleted = []
            removed_frames = []
            for fi, f in enumerate(case["frames"]):
                if f["pr"] is None:
                    new["frames"].append(f); continue
                if mode == "topk":
                    k = rng.randrange(0, len(f["pr"]) + 1)
                    order = sorted(range(len(f["pr"])), key=lambda j: -f["pr"][j][0])  # stable, descending
                    keep = sorted(order[:k])
                elif mode == "arbitrary":
                    keep = [j for j in range(len(f["pr"])) if rng.random() < 0.6]
                else:
                    keep = list(range(len(f["pr"])))
                    if rng.random() < 0.5:
                        removed_frames.append(fi)
                        deleted += [(fi, j) for j in range(len(f["pr"]))]
                        new["frames"].append({**f, "pr": None}); continue
                deleted += [(fi, j) for j in range(len(f["pr"])) if j not in keep]
                new["frames"].append({**f, "pr": [f["pr"][j] for j in keep], "_keep": keep})
            if not deleted:
                continue
            after, res2 = recalls_of(new)
            chk.tag("deletion:" + mode)
            if after is None:
                if "Empty Frame Pairs" in str(res2):
                    continue
                chk.fail("Evaluator raised after deleting predictions", new, observed=res2); continue
            if np.any(after > base + 1e-12):
                sigs = []
                if mode == "frame" and any(enum_points(case, case["frames"][fi]) for fi in removed_frames):
                    # frames are matched independently: after removing prediction frames the recall must be
                    # exactly (true positives of the kept frames) / (gt instances of the kept frames), from
                    # the ORIGINAL pairs and false negatives - only then is the increase F-C16b
                    pairs0, fns0, _ = canon_impl(res, gi_all, pi_all)
                    kept = [fi for fi in range(len(case["frames"])) if fi not in removed_frames]
                    npig_k = sum(1 for f_, _, _, _ in pairs0 if f_ in kept) + sum(1 for f_, _ in fns0 if f_ in kept)
                    if npig_k:
                        expect = np.array([sum(1 for f_, _, _, v in pairs0 if f_ in kept and v >= t) / npig_k for t in MT])
                        if np.allclose(after, expect, atol=1e-12):
                            sigs.append(SIG_FRAME)
                if mode == "arbitrary":
                    # structural predicate: a deleted prediction held a gt in the original matching and a
                    # kept prediction of the same frame now gets a better (or its first) match
                    gl2, pl2, gi2, pi2, _ = build(new)
                    e2 = ev.Evaluator(gl2, pl2, oks_stddev=case["stddev"], oks_scale=case["scale"],
                                      match_threshold=case["thr"], user_labels_only=case.get("user_labels_only", True))
                    after_map = {}
                    for a, b, v in e2.positive_pairs:
                        f_, j_ = locate(pi2, b.instance)
                        after_map[(f_, new["frames"][f_]["_keep"][j_])] = float(v)
                    held = [d for d in deleted if d in orig]
                    better = [k for k, v in after_map.items() if v > orig.get(k, (None, -1.0))[1]
                              and any(d[0] == k[0] for d in held)]
                    if held and better:
                        sigs.append(SIG_OUTSCORED)
                chk.fail(f"deleting predictions ({mode}) increased recall", {"case": case, "deleted": deleted},
                         observed={"before": base.tolist(), "after": after.tolist()}, signatures=sigs)

    def oracle_perfect(case, res, nested=False):
        """`nested`: some gt equals another gt of its frame on all of its own visible nodes (the structural
        predicate of F-C16f); failures of such cases carry that signature, all others none"""
        _, e, m = res
        bad = []
        is_empty = lambda g: not any(x == x and y == y for x, y in g)
        n_all = sum(len(enum_points(case, f)) for f in case["frames"])
        n_empty = sum(1 for f in case["frames"] for g in enum_points(case, f) if is_empty(g))
        npig = n_all - n_empty   # an empty gt instance (all keypoints NaN) can only be a false negative
        if len(e.positive_pairs) != npig or len(e.false_negatives) != n_empty:
            bad.append(("not every (non-empty) gt matched, or something else missed",
                        (len(e.positive_pairs), len(e.false_negatives), npig, n_empty)))
        elif any(not is_empty(a.instance.numpy().tolist()) for a in e.false_negatives):
            bad.append(("a non-empty gt instance is a false negative", len(e.false_negatives)))
        elif npig == 0:
            pass
        else:
            if not close(float(m["mOKS"]["mOKS"]), 1.0, 1e-12):
                bad.append(("mOKS != 1", float(m["mOKS"]["mOKS"])))
            d = np.asarray(m["distance_metrics"]["dists"], float)
            if np.nanmax(np.where(np.isnan(d), 0, d)) != 0:
                bad.append(("non-zero distance", float(np.nanmax(d))))
            for k in ("avg", "p50", "p90", "p99"):
                x = nn(m["distance_metrics"][k])
                if x not in (0.0, None):
                    bad.append(("distance summary " + k, x))
            v = m["voc_metrics"]
            if not np.allclose(v["oks_voc.AR"], npig / n_all, atol=1e-12):
                bad.append(("AR != (non-empty gt)/(all gt)", (np.asarray(v["oks_voc.AR"]).tolist(), npig / n_all)))
            # proved: AP >= n/(n+eps) >= 1 - eps when nothing is missed
            if n_empty == 0 and not np.all(np.asarray(v["oks_voc.AP"]) >= 1 - 1e-9):
                bad.append(("AP < 1", np.asarray(v["oks_voc.AP"]).tolist()))
            vis = sum(int((~np.isnan(a.instance.numpy()).any(-1)).sum()) for a, _, _ in e.positive_pairs)
            tot = npig * case["n_nodes"]
            if not close(float(m["pck_metrics"]["mPCK"]), vis / tot, 1e-12):
                bad.append(("mPCK != fraction of visible gt keypoints", (float(m["pck_metrics"]["mPCK"]), vis / tot)))
        for b in bad:
            chk.fail("perfect predictions do not score perfectly: " + b[0], case, observed=b[1],
                     signatures=[SIG_NESTED] if nested else [])

    # ------------------------------------------------------------------ generators
    def gen_instance(n_nodes, centre=None):
        cx, cy = centre if centre else (q16(rng, 40, 340), q16(rng, 40, 340))
        span = rng.choice([6, 12, 24, 40])
        return [[cx + q16(rng, -span, span), cy + q16(rng, -span, span)] for _ in range(n_nodes)]

    def with_nan(pts, p=0.25):
        pts = [list(x) for x in pts]
        if rng.random() < p:
            k = rng.randrange(len(pts))
            mode = rng.choice(["point", "point", "y"])
            if mode == "point":
                pts[k] = [float("nan"), float("nan")]
            else:
                pts[k][1] = float("nan")
        return pts

    def gen_case(perfect=False):
        n_nodes = rng.choice([2, 3, 3, 4, 5])
        frames = []
        # user_labels_only=False (18 %): reference labels with mixed user/predicted instances, predicted-only
        # frames and frames without instances; all of them are enumerated and counted
        ulo = rng.random() >= 0.18
        for _ in range(rng.choice([1, 2, 2, 3, 4, 5, 6])):
            crowded = rng.random() < 0.5
            centre = (q16(rng, 60, 300), q16(rng, 60, 300))
            n_gt = rng.choice([1, 1, 2, 2, 3, 4]) if ((perfect and ulo) or rng.random() < (0.93 if ulo else 0.7)) else 0
            gts = []
            for _ in range(n_gt):
                g = with_nan(gen_instance(n_nodes, centre if crowded else None))
                if not any(x == x and y == y for x, y in g):
                    g[0] = [centre[0], centre[1]]
                gts.append(g)
            # an *empty* user instance (all keypoints NaN) anywhere in the frame's list
            empty_at = rng.randrange(len(gts) + 1) if rng.random() < 0.12 else None
            if empty_at is not None:
                gts.insert(empty_at, [[float("nan"), float("nan")] for _ in range(n_nodes)])
            # predicted instances stored in the reference (gt) frame, at random positions of its instance list
            gt_pred = []
            if rng.random() < (0.12 if ulo else 0.6):
                for _ in range(rng.choice([1, 1, 2])):
                    gt_pred.append((rng.randrange(len(gts) + len(gt_pred) + 1),
                                    with_nan(gen_instance(n_nodes, centre if crowded else None))))
            enum = [p_ for u_, p_ in all_gt({"gt": gts, "gt_pred": gt_pred}) if u_ or not ulo]
            if perfect:
                # exact copies of every ENUMERATED gt instance (user_labels_only=False: the predicted ones too)
                pr = [(rng.choice([0.3, 0.5, 0.5, 0.9, rng.random()]), [list(x) for x in g]) for g in enum]
                rng.shuffle(pr)
                frames.append({"gt": gts, "gt_pred": gt_pred, "pr": pr})
                continue
            if rng.random() < 0.1:
                pr = None
            else:
                pr = []
                for g in enum:
                    u = rng.random()
                    if u < 0.15 or not any(x == x and y == y for x, y in g):
                        continue  # missed animal / nothing to predict for an empty instance
                    amp = rng.choice([0, 0.5, 1, 2, 4, 10])
                    p = [[(x if x == x else centre[0]) + (q16(rng, -amp, amp) if amp else 0),
                          (y if y == y else centre[1]) + (q16(rng, -amp, amp) if amp else 0)] for x, y in g]
                    pr.append((rng.choice([0.25, 0.5, 0.5, 0.75, 0.9, rng.random()]), with_nan(p, 0.15)))
                    if rng.random() < 0.2:  # a second, competing detection of the same animal
                        amp2 = rng.choice([0.5, 1, 3])
                        p2 = [[(x if x == x else centre[0]) + q16(rng, -amp2, amp2),
                               (y if y == y else centre[1]) + q16(rng, -amp2, amp2)] for x, y in g]
                        pr.append((rng.choice([0.25, 0.5, 0.95, rng.random()]), p2))
                for _ in range(rng.choice([0, 0, 0, 1, 2])):
                    pr.append((rng.random(), gen_instance(n_nodes)))  # false positives
                rng.shuffle(pr)
            fr_ = {"gt": gts, "gt_pred": gt_pred, "pr": pr}
            if pr is not None and gts and rng.random() < 0.04:
                real = [g for g in gts if any(x == x and y == y for x, y in g)]
                upts = [list(x) for x in rng.choice(real)] if real and rng.random() < 0.5 else gen_instance(n_nodes)
                fr_["user_in_pr"] = (rng.randrange(len(pr) + 1), upts)
            frames.append(fr_)
        case = {"n_nodes": n_nodes, "frames": frames, "stddev": rng.choice([0.025, 0.05, 0.1]),
                "scale": rng.choice([None, None, q16(rng, 50, 2000)]), "thr": rng.choice([0, 0, 0, 0.3]),
                "user_labels_only": ulo, "invisible_style": rng.choice([0, 0, 1, 2])}
        assign_videos(case, perfect)
        return rescore(case)

    def assign_videos(case, perfect):
        """1-3 videos: embedded in one file (same filename, different dataset), in different files, or a
        mix; frames of different videos deliberately share frame indices; the prediction labels list the
        videos in the same order, permuted, with one missing or with an extra one, as the same or as
        independently created Video objects; a few cases use backends without `dataset` (F-C16c)."""
        u = rng.random()
        nv = 1 if u < 0.4 else (2 if u < 0.8 else 3)
        if rng.random() < 0.08:
            kind = rng.choice([1, 2])
            keys = [(kind, i, None) for i in rng.sample(range(4), nv)]   # files 0-2: same basename, other directory
        elif nv == 1 and rng.random() < 0.5:
            keys = [("asset",)]
        else:
            layout = rng.choice(["same_file", "same_file", "diff_files", "mixed"])
            files = rng.sample(range(4), 3)   # distinct files; any two of 0, 1, 2 share the basename
            fi = files[0]
            if layout == "same_file":
                keys = [(0, fi, d) for d in rng.sample(range(3), nv)]
            elif layout == "diff_files":
                # one video per file; mostly the SAME dataset name, so that only the directory tells them apart
                d0 = rng.randrange(3)
                keys = [(0, files[i], d0 if rng.random() < 0.7 else rng.randrange(3)) for i in range(nv)]
            else:
                # mixed: two datasets of one file + the same dataset name in a file with the same basename
                keys = [(0, fi, 0), (0, files[1], 0), (0, fi, 1)][:nv]
        nv = len(keys)
        case["videos"] = keys
        nxt = [0] * nv
        for f in case["frames"]:
            v = rng.randrange(nv)
            f["video"], f["frame_idx"] = v, nxt[v]
            nxt[v] += 1
        prv = list(keys)
        if not perfect:
            w = rng.random()
            if w < 0.2:
                rng.shuffle(prv)
            elif w < 0.3 and nv > 1:
                prv.pop(rng.randrange(nv))
            elif w < 0.4:
                extra = [k for k in [(0, 0, 0), (0, 0, 1), (0, 1, 0), (0, 1, 2), (0, 0, 2), (0, 2, 0), (0, 3, 0)] if k not in keys]
                prv.insert(rng.randrange(len(prv) + 1), rng.choice(extra))
            elif w < 0.47:
                # a second prediction video with the key of an existing one: the FIRST one is matched
                prv.insert(rng.randrange(len(prv) + 1), rng.choice(prv))
        elif rng.random() < 0.3:
            rng.shuffle(prv)
        case["pr_videos"] = prv
        case["share_videos"] = rng.random() < 0.5
        for f in case["frames"]:
            if tuple(keys[f["video"]]) not in [tuple(k) for k in prv]:
                f["pr"] = None

    def gen_perfect_total(n):
        """perfect predictions with exactly `n` gt instances in total (2 keypoints each, animals 64 px apart
        on a grid so that they are trivially distinguishable), spread over frames of 1-9 animals"""
        pts = []
        for i in range(n):
            x0, y0 = 16.0 + 64.0 * (i % 12), 16.0 + 64.0 * (i // 12)
            pts.append([[x0 + q16(rng, 0, 8), y0 + q16(rng, 0, 8)], [x0 + 16 + q16(rng, 0, 8), y0 + 24 + q16(rng, 0, 8)]])
        frames, i = [], 0
        while i < n:
            k = min(n - i, rng.randrange(1, 10))
            gts = pts[i:i + k]
            pr = [(rng.choice([0.3, 0.5, 0.9, rng.random()]), [list(x) for x in g]) for g in gts]
            rng.shuffle(pr)
            frames.append({"gt": gts, "pr": pr})
            i += k
        case = {"n_nodes": 2, "frames": frames, "stddev": 0.025, "scale": None, "thr": 0}
        assign_videos(case, True)
        return rescore(case)

    SPECIAL_SCORES = [0.0, 0.0, -0.0, 5e-324, 1e-12, 1.0]

    def rescore(case):
        """instance scores: `score = 0.0` is a valid score and the sleap-io default.  12 % of the label pairs have
        ALL prediction scores 0.0, 25 % mix the ordinary values with 0.0, -0.0, 5e-324, 1e-12 and 1.0.  The score
        only orders the predictions (within a frame for matching, over all pairs for AP); it plays no role in
        which instances take part."""
        u = rng.random()
        mode = "all_zero" if u < 0.12 else ("special" if u < 0.37 else "ordinary")
        for f in case["frames"]:
            if f["pr"] is None:
                continue
            if mode == "all_zero":
                f["pr"] = [(0.0, p_) for _, p_ in f["pr"]]
            elif mode == "special":
                f["pr"] = [(rng.choice(SPECIAL_SCORES) if rng.random() < 0.5 else s_, p_) for s_, p_ in f["pr"]]
        case["score_mode"] = mode
        return case

    def distinguishable(case):
        for f in case["frames"]:
            for i, a in enumerate(enum_points(case, f)):
                for j, b in enumerate(enum_points(case, f)):
                    if i != j and any(x == x and y == y for x, y in a) and any(x == x and y == y for x, y in b):
                        va = [(x, y) for x, y in a if x == x and y == y]
                        # b restricted to a's visible nodes must differ somewhere (and be visible there or not)
                        same = all((bx == ax and by == ay) for (ax, ay), (bx, by) in zip(a, b) if ax == ax and ay == ay)
                        if same or not va:
                            return False
        return True

    # ------------------------------------------------------------------ known findings: replay witnesses
    def case_from_witness(w):
        c = {"n_nodes": w["n_nodes"], "frames": [dict(f, pr=None if f["pr"] is None else [tuple(x) for x in f["pr"]])
                                                 for f in w["frames"]],
             "stddev": 0.025, "scale": None, "thr": 0}
        for k in ("videos", "pr_videos", "share_videos"):
            if k in w:
                c[k] = [tuple(x) for x in w[k]] if k != "share_videos" else w[k]
        return c

    for fid in ("F-C16", "F-C16b"):
        ent = next((f for f in chk.known if f["id"] == fid), None)
        if ent is None:
            continue
        w = ent["witness"]
        b, _ = recalls_of(case_from_witness(w["before"]))
        a, _ = recalls_of(case_from_witness(w["after"]))
        chk.known_replay(fid, still_fails=bool(b is not None and a is not None and np.any(a > b + 1e-12)),
                         detail=f"before={None if b is None else b.tolist()} after={None if a is None else a.tolist()}")

    def denull(x):
        if isinstance(x, (list, tuple)):
            return [denull(v) for v in x]
        return float("nan") if x is None else x

    def simple_witness(w):
        c = case_from_witness(w)
        for f in c["frames"]:
            f["gt"] = denull(f["gt"])
            f["pr"] = None if f["pr"] is None else [(s_, denull(p_)) for s_, p_ in f["pr"]]
            if f.get("user_in_pr") is not None:
                f["user_in_pr"] = (f["user_in_pr"][0], denull(f["user_in_pr"][1]))
        return c

    for fid, pred_ in (("F-C16d", lambda r: r[0] != "ok" or len(r[1].positive_pairs) != 1),
                       ("F-C16e", lambda r: r[0] == "ok" and nn(r[2]["mOKS"]["mOKS"]) is None),
                       ("F-C16f", lambda r: r[0] == "ok" and not close(float(r[2]["mOKS"]["mOKS"]), 1.0, 1e-9))):
        ent = next((f for f in chk.known if f["id"] == fid), None)
        if ent is not None:
            r, _, _ = run_impl(simple_witness(ent["witness"]))
            chk.known_replay(fid, still_fails=bool(pred_(r)), detail=str(r)[:160])

    ent = next((f for f in chk.known if f["id"] == "F-C16c"), None)
    if ent is not None:
        r, _, _ = run_impl(case_from_witness(ent["witness"]))
        chk.known_replay("F-C16c", still_fails=(r[0] == "raise" and r[1] == "AttributeError"), detail=str(r)[:200])

    # ------------------------------------------------------------------ main loop
    n_cases = chk.n(330, 4000)
    n_perfect = chk.n(70, 800)
    # fixed first case: two videos embedded in one file, same frame indices, different poses, perfect
    # predictions (the situation of a multi-video .pkg.slp)
    two = {"n_nodes": 3, "videos": [(0, 0, 0), (0, 0, 1)], "pr_videos": [(0, 0, 0), (0, 0, 1)], "share_videos": True,
           "stddev": 0.025, "scale": None, "thr": 0, "frames": []}
    for (v, fi), pts in {(0, 0): [[10, 12], [20, 22], [30, 18]], (0, 1): [[11, 13], [21, 23], [31, 19]],
                         (1, 0): [[40, 45], [48, 30], [55, 52]], (1, 1): [[42, 44], [50, 31], [57, 50]]}.items():
        pts = [[float(x), float(y)] for x, y in pts]
        two["frames"].append({"video": v, "frame_idx": fi, "gt": [pts], "pr": [(0.9, [list(q) for q in pts])]})
    # fixed second/third case: three recordings with the same file name in three directories
    # (data/2024-05-0k/cam0.*), same frame indices, different poses, perfect predictions - once as
    # MediaVideo-backed labels, once HDF5-backed with the same dataset name in every file
    fixed = [("perfect", two)]
    for keys in ([(2, 0, None), (2, 1, None), (2, 2, None)], [(0, 0, 0), (0, 1, 0), (0, 2, 0)]):
        c3 = {"n_nodes": 3, "videos": list(keys), "pr_videos": list(keys), "share_videos": False,
              "stddev": 0.025, "scale": None, "thr": 0, "frames": []}
        for v in range(3):
            for fi in range(2):
                pts = [[10.0 + 70 * v + fi, 12.0 + 40 * v], [20.0 + 70 * v, 22.0 + 40 * v + fi], [30.0 + 70 * v, 18.0 + 40 * v]]
                c3["frames"].append({"video": v, "frame_idx": fi, "gt": [pts], "pr": [(0.9, [list(q) for q in pts])]})
        fixed.append(("perfect", c3))
    cases = fixed + [("gen", gen_case()) for _ in range(n_cases)]
    for k in range(n_perfect):
        c = gen_case(perfect=True)
        if rng.random() < 0.12:
            # nested visibility: a copy of an animal with some keypoints marked missing, listed before it
            f = rng.choice(c["frames"])
            real = [g for g in f["gt"] if sum(1 for x, y in g if x == x and y == y) >= 2]
            if real:
                a = rng.choice(real)
                vis_idx = [i for i, (x, y) in enumerate(a) if x == x and y == y]
                drop = set(rng.sample(vis_idx, rng.randrange(1, len(vis_idx))))
                b = [[float("nan"), float("nan")] if i in drop else list(q) for i, q in enumerate(a)]
                f["gt"].insert(f["gt"].index(a), b)
                f["pr"].append((rng.choice([0.3, 0.5, 0.9]), [list(q) for q in b]))
        # predictions identical to gt; cases with a gt that equals another gt on all of its own visible
        # nodes are NOT filtered: their failures are routed through the F-C16f signature
        cases.append(("perfect" if distinguishable(c) else "perfect_nested", c))
    # perfect predictions whose total number of gt instances sweeps 1..200 (`tp/npig` must reach exactly
    # 1.0 for every npig, else the recall-1.0 threshold is lost: e.g. 49 * (1/49) != 1 in doubles).
    # quick: the totals n <= 200 with n * (1.0 / n) != 1.0 plus a random sample; thorough: all of 1..200
    awkward = [n for n in range(1, 201) if n * (1.0 / n) != 1.0]
    totals = list(range(1, 201)) if chk.thorough else sorted(set(awkward + rng.sample(range(1, 201), 28)))
    cases += [("perfect", gen_perfect_total(n)) for n in totals]
    chk.extra["perfect_totals"] = totals
    if REPLAY:
        c = REPLAY["case"]
        c["frames"] = [dict(f, pr=None if f["pr"] is None else [(x[0], x[1]) for x in f["pr"]],
                            user_in_pr=None if f.get("user_in_pr") is None else tuple(f["user_in_pr"])) for f in c["frames"]]
        for kk in ("videos", "pr_videos"):
            if kk in c:
                c[kk] = [tuple(x) for x in c[kk]]
        perfect_like = all(f["pr"] is not None and sorted(map(str, [p_ for _, p_ in f["pr"]])) == sorted(map(str, enum_points(c, f)))
                           for f in c["frames"])
        cases = [(("perfect" if distinguishable(c) else "perfect_nested") if perfect_like else "gen", c)]
    impls, lines1 = [], []
    for kind, case in cases:
        res, gi_all, pi_all = run_impl(case)
        info = last["info"]
        impls.append((res, gi_all, pi_all, info))
        lines1.append(pairs_line(case, gi_all, info))
    outs1 = run_driver("C16.lean", lines1)
    todo, lines2 = [], []
    mixed_of = {}
    for (kind, case), (res, gi_all, pi_all, info), out1 in zip(cases, impls, outs1):
        asis, mp = parse_pairs(out1, info)
        nvid = len(info["case"]["videos"])
        tags = [kind, f"frames{len(case['frames'])}", f"videos{nvid}", "ok" if res[0] == "ok" else "raise",
                "hdf5" if all(tuple(k) == ("asset",) or tuple(k)[0] == 0 for k in info["case"]["videos"]) else "non_hdf5_backend"]
        if len({tuple(k)[:2] for k in info["case"]["videos"]}) < nvid:
            tags.append("videos_share_a_file")
        fidx = {tuple(k)[1] for k in info["case"]["videos"] if tuple(k) != ("asset",)}
        if len(fidx & {0, 1, 2}) >= 2:
            tags.append("videos_share_a_basename_in_different_directories")
        if any(not any(x == x and y == y for x, y in g) for f in case["frames"] for g in enum_points(case, f)):
            tags.append("has_empty_gt_instance")
        tags.append("user_labels_only" if case.get("user_labels_only", True) else "all_instances_mode")
        tags.append(f"invisible_style{case.get('invisible_style', 0)}")
        tags.append("scores:" + case.get("score_mode", "fixed"))
        if any(s_ == 0.0 for f in case["frames"] if f["pr"] for s_, _ in f["pr"]):
            tags.append("has_score_exactly_0")
        mixed = any(f.get("user_in_pr") is not None and f["pr"] is not None for f in case["frames"])
        tags += [f"thr{case['thr']}", "scale:" + ("none" if case["scale"] is None else "number"), f"stddev{case['stddev']}"]
        if mixed:
            tags.append("user_instance_in_prediction_frame")
        if any(f.get("extra_pred_in_gt") or f.get("gt_pred") for f in case["frames"]):
            tags.append("predicted_instance_in_gt_frame")
        if any(f["pr"] and len({s_ for s_, _ in f["pr"]}) < len(f["pr"]) for f in case["frames"]):
            tags.append("detection_score_ties")
        if len({tuple(k) for k in info["case"]["pr_videos"]}) < len(info["case"]["pr_videos"]):
            tags.append("duplicate_prediction_video_key")
        if res[0] == "raise" and res[1] == "AttributeError" and ("dataset" in res[2] or "source_filename" in res[2]):
            chk.case(None, tags=tags)
            chk.fail("Evaluator raises AttributeError for labels whose videos are not HDF5-backed (regression of F-C16c)",
                     case, observed=res, signatures=[SIG_NONHDF5])
            chk.disagree("Evaluator raised AttributeError where the model pairs the frames", case, str(res), "ok")
            continue
        mixed_of[id(case)] = mixed
        if res[0] == "ok":
            ip = impl_pairs(res[1], info)
            agree = ip == mp
            if not agree:
                chk.disagree("find_frame_pairs vs Eval.findFramePairs", case, ip, mp)
        else:
            agree = (not mp) and "Empty Frame Pairs" in str(res)
            if not agree:
                chk.disagree("Evaluator raised" if mp else "Evaluator raised something else on empty frame pairs",
                             case, str(res)[:300], mp)
        if agree and res[0] == "ok":
            todo.append((kind, case, res, gi_all, pi_all, mp, tags))
            lines2.append(driver_line(case, gi_all, pi_all, mp))
        else:
            chk.case(None, tags=tags)
            if res[0] == "ok":  # pairing disagrees: search for a failing input with the property oracle
                oracle_bounds(case, res)
                if kind.startswith("perfect"):
                    oracle_perfect(case, res, nested=(kind == "perfect_nested"))
    outs2 = run_driver("C16.lean", lines2)
    for (kind, case, res, gi_all, pi_all, mp, tags), line, out in zip(todo, lines2, outs2):
        dis = compare(case, res, gi_all, pi_all, out, mp)
        npairs = len(res[1].positive_pairs)
        chk.case(("eval", line) if npairs else None,
                 sample={"case": case, "AR": np.asarray(res[2]["voc_metrics"]["oks_voc.AR"]).tolist()}
                 if npairs and len(chk.samples) < 3 else None, tags=tags + ["pairs0" if npairs == 0 else "pairs+"])
        for what, i, mo in dis:
            chk.disagree("Evaluator vs Eval model: " + what, case, str(i)[:400], str(mo)[:400])
        oracle_bounds(case, res)
        if kind.startswith("perfect"):
            oracle_perfect(case, res, nested=(kind == "perfect_nested"))
        oracle_thresholds(case, res)
        oracle_deletion(case, res, gi_all, pi_all, n_try=2 if not dis else 6)

if __name__ == "__main__":
    chk = Check(
        "C16", module="SleapVerif.Props.C16", theorems=THEOREMS,
        build_targets=["SleapVerif.Model.Proto", "SleapVerif.Model.Oks", "SleapVerif.Model.Eval"],
        trusted=[
            "Lean 4 kernel + Mathlib; the hand-written model SleapVerif.Eval mirrors Evaluator (tied by this correspondence run)",
            "compute_oks values are taken from the implementation (their contract is C15's); float64 ≈ field arithmetic within 1e-9",
            "np.searchsorted on a sorted array = index of the first element >= threshold (binary search correctness)",
            "sleap_io Labels.find / LabeledFrame.user_instances / Instance.numpy() behave as read; Video objects are "
            "compared by identity, video.filename / backend.dataset carry the key the model uses",
        ],
        rule="seeded generator: 1-3 videos (embedded in one HDF5 file = same filename/different dataset, different files, or "
             "backends without dataset; prediction videos in the same/permuted order, one missing, one extra, shared or "
             "independent Video objects) x 1-6 frames (frame indices shared across videos) x 0-4 gt x 0-7 predictions (noisy "
             "copies, competing duplicates, misses, false positives, missing prediction frames, NaN nodes), 2-5 nodes on the "
             "k/16 lattice, stddev/scale/threshold options; plus perfect-prediction cases (multi-video too) and one fixed "
             "two-video package case; distinct = distinct eval driver line with >= 1 positive pair",
        assumptions=[
            "at most one prediction LabeledFrame per (video, frame index)",
            "instances are built through the sleap-io API; missing nodes are stored either as NaN or as finite coordinates with "
            "visible=False - the model works on the Instance.numpy() abstraction, where both are (NaN, NaN)",
            "match_threshold >= 0 and oks_scale >= 0 or None (a negative threshold lets the all-NaN copy of an empty instance match; "
            "a negative scale gives OKS > 1)",
            "an empty gt instance (all keypoints NaN) counts as a miss: for exact copies AR = (#non-empty)/(#all), not 1 "
            "(HEAD's behaviour, stated as theorem perfect_matching_with_empty; a reading decision, not a finding)",
            "prediction frames that also hold a user Instance are generated (4 % of the frames); HEAD (e83a3ca) ignores the user "
            "instance, and so does the model",
            "match_score_by='oks' and the default threshold grids (linspace(0.5,0.95,10), linspace(0,1,101), linspace(1,10,10))",
        ],
    )
    run_check(chk, main, replay)
